------------------------------ MODULE ObjFormat ------------------------------
(* C01 / C02.  The git object format for commits, tags, trees and blobs:      *)
(* abstract values, their byte-exact rendering, the declared size computed    *)
(* field by field, the loose-object header / hash preimage, and a reference   *)
(* parser for canonically formatted objects (what git itself creates).        *)
(*                                                                            *)
(* Values (JSON objects <-> records; byte strings are sequences of 0..255):   *)
(*   Time   [secs, sign, hh, mm]   secs = decimal text of an i64 ("-10"),     *)
(*                                 sign = 43 '+' | 45 '-', hh 0..99, mm 0..59 *)
(*   Sig    [name, email, time]                                               *)
(*   Commit [tree, parents, author, committer, encoding : [some, v],          *)
(*           extra : Seq([name, value]), message]    ids are 40 hex bytes     *)
(*   Tag    [target, target_kind, name, tagger : [some, v], message,          *)
(*           pgp : [some, v]]                                                 *)
(*   Tree   [entries]  (TreeOrder entries, raw 20-byte ids)                   *)
(*   Blob   [data]                                                            *)
(*   Obj    [kind : "commit"|"tag"|"tree"|"blob", v]                          *)
(* SHA-1 is uninterpreted: ObjPreimage(o) is the byte string that is hashed.  *)
(* Bug_TimeSizeLadder re-introduces the digit-count slip of                   *)
(* gix_date::Time::size() (one too few for seconds = -10^k) into SizeByParts. *)
EXTENDS TreeOrder

CONSTANT Bug_TimeSizeLadder

NL == 10  LT == 60  GT == 62  PLUS == 43  MINUS == 45  TAB == 9
W_tree      == TreeWord
W_parent    == <<112,97,114,101,110,116>>
W_author    == <<97,117,116,104,111,114>>
W_committer == <<99,111,109,109,105,116,116,101,114>>
W_encoding  == <<101,110,99,111,100,105,110,103>>
W_object    == <<111,98,106,101,99,116>>
W_type      == <<116,121,112,101>>
W_tag       == <<116,97,103>>
W_tagger    == <<116,97,103,103,101,114>>
W_commit    == <<99,111,109,109,105,116>>
W_blob      == <<98,108,111,98>>
PgpBegin == <<45,45,45,45,45,66,69,71,73,78,32,80,71,80,32,83,73,71,78,65,84,85,82,69,45,45,45,45,45>>
PgpEnd   == <<45,45,45,45,45,69,78,68,32,80,71,80,32,83,73,71,78,65,84,85,82,69,45,45,45,45,45>>
I64Max == <<57,50,50,51,51,55,50,48,51,54,56,53,52,55,55,53,56,48,55>>      \* 9223372036854775807
I64MinAbs == <<57,50,50,51,51,55,50,48,51,54,56,53,52,55,55,53,56,48,56>>   \* 9223372036854775808

KindWord(k) == CASE k = "commit" -> W_commit [] k = "tag" -> W_tag [] k = "tree" -> W_tree [] OTHER -> W_blob
KindWords == {W_commit, W_tag, W_tree, W_blob}

\* ------------------------------------------------------------------ domain
AllDigits(s) == \A i \in 1..Len(s) : IsDigit(s[i])
IsHex40(s) == Len(s) = 40 /\ \A i \in 1..40 : IsDigit(s[i]) \/ (s[i] >= 97 /\ s[i] <= 102)
\* canonical decimal text of an i64
IsI64Text(s) ==
  LET neg == s # <<>> /\ s[1] = MINUS
      d == IF neg THEN Tail(s) ELSE s
  IN /\ d # <<>> /\ AllDigits(d)
     /\ (d[1] = 48 => (Len(d) = 1 /\ ~neg))
     /\ Len(d) <= 19
     /\ Len(d) = 19 => Cmp(d, IF neg THEN I64MinAbs ELSE I64Max) <= 0
\* "-1" followed by zeros only: -10, -100, ...
IsNegPow10(s) == Len(s) >= 3 /\ s[1] = MINUS /\ s[2] = 49 /\ \A i \in 3..Len(s) : s[i] = 48

TimeOk(t) == IsI64Text(t.secs) /\ t.sign \in {PLUS, MINUS} /\ t.hh \in 0..99 /\ t.mm \in 0..59
IsWs(b) == b \in {32, 9, 10, 12, 13}
TokenOk(s) == /\ ~HasByte(s, LT) /\ ~HasByte(s, GT) /\ ~HasByte(s, NL)
              /\ s # <<>> => (~IsWs(s[1]) /\ ~IsWs(s[Len(s)]))
SigOk(s) == TokenOk(s.name) /\ TokenOk(s.email) /\ TimeOk(s.time)

Reserved == {W_tree, W_parent, W_author, W_committer, W_encoding}
ExtraOk(h) == /\ h.name # <<>> /\ ~HasByte(h.name, SP) /\ ~HasByte(h.name, NL) /\ h.name \notin Reserved
              /\ h.value # <<>> /\ h.value[1] # NL              \* the first line of a value is not empty
OptOk(o, P(_)) == o.some => P(o.v)
EncodingValOk(v) == v # <<>> /\ ~HasByte(v, NL)

CommitOk(c) ==
  /\ IsHex40(c.tree) /\ \A i \in 1..Len(c.parents) : IsHex40(c.parents[i])
  /\ SigOk(c.author) /\ SigOk(c.committer)
  /\ OptOk(c.encoding, EncodingValOk)
  /\ \A i \in 1..Len(c.extra) : ExtraOk(c.extra[i])

\* a sufficient condition for a valid tag name (see RefName.tla for the complete rule)
TagNameByteOk(b) == IsAlnum(b) \/ b \in {46, 95, 45, 47} \/ b >= 128
TagNameOk(n) ==
  /\ n # <<>> /\ \A i \in 1..Len(n) : TagNameByteOk(n[i])
  /\ n[1] \notin {46, 45, 47} /\ n[Len(n)] \notin {46, 47}
  /\ \A i \in 2..Len(n) : ~(n[i] \in {46, 47} /\ n[i-1] \in {46, 47})
  /\ ~EndsWith(n, <<46,108,111,99,107>>) /\ ~Contains(n, <<46,108,111,99,107,47>>)
PgpMarker == <<NL>> \o PgpBegin
PgpOk(v) == StartsWith(v, PgpBegin) /\ FindSubFrom(v, PgpEnd, Len(PgpBegin) + 1) # 0
TagOk(t) ==
  /\ IsHex40(t.target) /\ t.target_kind \in KindWords /\ TagNameOk(t.name)
  /\ OptOk(t.tagger, SigOk)
  /\ ~Contains(t.message, PgpMarker)
  /\ OptOk(t.pgp, PgpOk)

ObjOk(o) == CASE o.kind = "commit" -> CommitOk(o.v)
              [] o.kind = "tag" -> TagOk(o.v)
              [] o.kind = "tree" -> InDomain(o.v.entries) /\ Sorted(o.v.entries)
              [] OTHER -> TRUE

\* ------------------------------------------------------------------ rendering
TwoDigits(n) == <<48 + (n \div 10), 48 + (n % 10)>>
RenderTime(t) == t.secs \o <<SP, t.sign>> \o TwoDigits(t.hh) \o TwoDigits(t.mm)
RenderSig(s) == s.name \o <<SP, LT>> \o s.email \o <<GT, SP>> \o RenderTime(s.time)
Line(word, val) == word \o <<SP>> \o val \o <<NL>>

StripOneNL(v) == IF v # <<>> /\ v[Len(v)] = NL THEN SubSeq(v, 1, Len(v) - 1) ELSE v
RECURSIVE IndentFrom(_, _, _)
IndentFrom(s, i, acc) ==                                   \* every NL becomes NL SP
  IF i > Len(s) THEN acc
  ELSE IndentFrom(s, i + 1, IF s[i] = NL THEN acc \o <<NL, SP>> ELSE Append(acc, s[i]))
RenderExtra(h) == h.name \o <<SP>> \o IndentFrom(StripOneNL(h.value), 1, <<>>) \o <<NL>>

RECURSIVE RenderParents(_, _, _)
RenderParents(ps, i, acc) == IF i > Len(ps) THEN acc ELSE RenderParents(ps, i + 1, acc \o Line(W_parent, ps[i]))
RECURSIVE RenderExtras(_, _, _)
RenderExtras(hs, i, acc) == IF i > Len(hs) THEN acc ELSE RenderExtras(hs, i + 1, acc \o RenderExtra(hs[i]))

RenderCommit(c) ==
  Line(W_tree, c.tree)
  \o RenderParents(c.parents, 1, <<>>)
  \o Line(W_author, RenderSig(c.author))
  \o Line(W_committer, RenderSig(c.committer))
  \o (IF c.encoding.some THEN Line(W_encoding, c.encoding.v) ELSE <<>>)
  \o RenderExtras(c.extra, 1, <<>>)
  \o <<NL>> \o c.message

RenderTag(t) ==
  Line(W_object, t.target) \o Line(W_type, t.target_kind) \o Line(W_tag, t.name)
  \o (IF t.tagger.some THEN Line(W_tagger, RenderSig(t.tagger.v)) ELSE <<>>)
  \o <<NL>> \o t.message
  \o (IF t.pgp.some THEN <<NL>> \o t.pgp.v ELSE <<>>)

RenderObj(o) == CASE o.kind = "commit" -> RenderCommit(o.v)
                  [] o.kind = "tag" -> RenderTag(o.v)
                  [] o.kind = "tree" -> Render(o.v.entries)
                  [] OTHER -> o.v.data
ObjHeader(o) == LooseHeader(KindWord(o.kind), Len(RenderObj(o)))
ObjPreimage(o) == ObjHeader(o) \o RenderObj(o)                 \* id = SHA-1 of this

\* ------------------------------------------------------------------ size, field by field
SecsLen(s) == IF Bug_TimeSizeLadder /\ IsNegPow10(s) THEN Len(s) - 1 ELSE Len(s)
TimeLen(t) == SecsLen(t.secs) + 2 + 2 + 2
SigLen(s) == Len(s.name) + 2 + Len(s.email) + 2 + TimeLen(s.time)
CountByte(s, b) == Cardinality({i \in 1..Len(s) : s[i] = b})
NumLines(v) == CountByte(v, NL) + (IF v # <<>> /\ v[Len(v)] # NL THEN 1 ELSE 0)
ExtraLen(h) == Len(h.name) + Len(h.value) + NumLines(h.value) + (IF h.value[Len(h.value)] # NL THEN 1 ELSE 0)
RECURSIVE ExtraLenSum(_, _, _)
ExtraLenSum(hs, i, acc) == IF i > Len(hs) THEN acc ELSE ExtraLenSum(hs, i + 1, acc + ExtraLen(hs[i]))
CommitLen(c) ==
  4 + 1 + 40 + 1 + Len(c.parents) * (6 + 1 + 40 + 1)
  + 6 + 1 + SigLen(c.author) + 1 + 9 + 1 + SigLen(c.committer) + 1
  + (IF c.encoding.some THEN 8 + 1 + Len(c.encoding.v) + 1 ELSE 0)
  + ExtraLenSum(c.extra, 1, 0) + 1 + Len(c.message)
TagLen(t) ==
  6 + 1 + 40 + 1 + 4 + 1 + Len(t.target_kind) + 1 + 3 + 1 + Len(t.name) + 1
  + (IF t.tagger.some THEN 6 + 1 + SigLen(t.tagger.v) + 1 ELSE 0)
  + 1 + Len(t.message) + (IF t.pgp.some THEN 1 + Len(t.pgp.v) ELSE 0)
EntryLen(e) == Len(e.mode) + 1 + Len(e.name) + 1 + 20
RECURSIVE EntryLenSum(_, _, _)
EntryLenSum(es, i, acc) == IF i > Len(es) THEN acc ELSE EntryLenSum(es, i + 1, acc + EntryLen(es[i]))
SizeByParts(o) == CASE o.kind = "commit" -> CommitLen(o.v)
                    [] o.kind = "tag" -> TagLen(o.v)
                    [] o.kind = "tree" -> EntryLenSum(o.v.entries, 1, 0)
                    [] OTHER -> Len(o.v.data)

\* ------------------------------------------------------------------ the normal form the format forces
CanonExtra(h) == LET w == StripOneNL(h.value) IN
  [name |-> h.name, value |-> IF HasByte(w, NL) THEN w \o <<NL>> ELSE w]
NoSig == [name |-> <<>>, email |-> <<>>, time |-> [secs |-> <<48>>, sign |-> PLUS, hh |-> 0, mm |-> 0]]
CanonOpt(o, dflt) == IF o.some THEN o ELSE [some |-> FALSE, v |-> dflt]
Canon(o) ==
  CASE o.kind = "commit" ->
         [o EXCEPT !.v.extra = [i \in 1..Len(o.v.extra) |-> CanonExtra(o.v.extra[i])],
                   !.v.encoding = CanonOpt(o.v.encoding, <<>>)]
    [] o.kind = "tag" -> [o EXCEPT !.v.tagger = CanonOpt(o.v.tagger, NoSig), !.v.pgp = CanonOpt(o.v.pgp, <<>>)]
    [] OTHER -> o

\* ------------------------------------------------------------------ reference parser
Bad == [ok |-> FALSE]
\* the line starting at i: [ok, line (without NL), next]
LineAt(b, i) == LET e == FindByteFrom(b, NL, i) IN
  IF i > Len(b) \/ e = 0 THEN Bad ELSE [ok |-> TRUE, line |-> SubSeq(b, i, e - 1), next |-> e + 1]
\* a line "word SP value": the value, or Bad
Field(l, word) == IF l.ok /\ StartsWith(l.line, word \o <<SP>>)
                  THEN [ok |-> TRUE, val |-> Drop(l.line, Len(word) + 1), next |-> l.next] ELSE Bad

ParseTime(s) ==                                               \* "secs SP sign HHMM"
  LET sp == FindByte(s, SP) IN
  IF sp = 0 \/ Len(s) # sp + 5 THEN Bad
  ELSE LET secs == SubSeq(s, 1, sp - 1)
           sign == s[sp + 1]
           d == SubSeq(s, sp + 2, sp + 5)
       IN IF ~IsI64Text(secs) \/ sign \notin {PLUS, MINUS} \/ ~AllDigits(d) THEN Bad
          ELSE LET t == [secs |-> secs, sign |-> sign, hh |-> (d[1] - 48) * 10 + (d[2] - 48), mm |-> (d[3] - 48) * 10 + (d[4] - 48)]
               IN IF t.mm > 59 THEN Bad ELSE [ok |-> TRUE, v |-> t]
ParseSig(s) ==                                                \* "name SP <email> SP time"
  LET lt == FindByte(s, LT)
      gt == RFindByte(s, GT)
  IN IF lt = 0 \/ gt < lt \/ gt + 1 > Len(s) \/ s[gt + 1] # SP THEN Bad
     ELSE LET nm == SubSeq(s, 1, lt - 1)
              t == ParseTime(Drop(s, gt + 1))
          IN IF nm = <<>> \/ nm[Len(nm)] # SP \/ ~t.ok THEN Bad
             ELSE [ok |-> TRUE, v |-> [name |-> Front(nm), email |-> SubSeq(s, lt + 1, gt - 1), time |-> t.v]]

RECURSIVE ParseParents(_, _, _)
ParseParents(b, i, acc) ==
  LET f == Field(LineAt(b, i), W_parent) IN
  IF f.ok /\ IsHex40(f.val) THEN ParseParents(b, f.next, Append(acc, f.val)) ELSE [ps |-> acc, next |-> i]

\* continuation lines (starting with SP) from i on: [text (each line without its SP, with NL), next, n]
RECURSIVE Continuations(_, _, _, _)
Continuations(b, i, acc, n) ==
  LET l == LineAt(b, i) IN
  IF l.ok /\ l.line # <<>> /\ l.line[1] = SP
  THEN Continuations(b, l.next, acc \o Tail(l.line) \o <<NL>>, n + 1)
  ELSE [text |-> acc, next |-> i, n |-> n]
RECURSIVE ParseExtras(_, _, _)
ParseExtras(b, i, acc) ==
  LET l == LineAt(b, i) IN
  IF ~l.ok THEN Bad
  ELSE IF l.line = <<>> THEN [ok |-> TRUE, hs |-> acc, next |-> i]            \* the blank line
  ELSE LET sp == FindByte(l.line, SP) IN
       IF sp <= 1 \/ sp = Len(l.line) THEN Bad                                \* name and first line not empty
       ELSE LET name == SubSeq(l.line, 1, sp - 1)
                first == Drop(l.line, sp)
                c == Continuations(b, l.next, <<>>, 0)
                value == IF c.n = 0 THEN first ELSE first \o <<NL>> \o c.text
            IN ParseExtras(b, c.next, Append(acc, [name |-> name, value |-> value]))

ParseCommit(b) ==
  LET t == Field(LineAt(b, 1), W_tree) IN
  IF ~t.ok \/ ~IsHex40(t.val) THEN Bad ELSE
  LET ps == ParseParents(b, t.next, <<>>)
      a == Field(LineAt(b, ps.next), W_author) IN
  IF ~a.ok THEN Bad ELSE
  LET c == Field(LineAt(b, a.next), W_committer) IN
  IF ~c.ok THEN Bad ELSE
  LET asig == ParseSig(a.val)
      csig == ParseSig(c.val)
      e == Field(LineAt(b, c.next), W_encoding)
      enc == IF e.ok /\ e.val # <<>> THEN [some |-> TRUE, v |-> e.val] ELSE [some |-> FALSE, v |-> <<>>]
      x == ParseExtras(b, IF enc.some THEN e.next ELSE c.next, <<>>) IN
  IF ~asig.ok \/ ~csig.ok \/ ~x.ok THEN Bad
  ELSE [ok |-> TRUE, v |-> [tree |-> t.val, parents |-> ps.ps, author |-> asig.v, committer |-> csig.v,
                            encoding |-> enc, extra |-> x.hs, message |-> Drop(b, x.next)]]

\* the text after the blank line of a tag: message, and a trailing PGP block if there is one
SplitTagBody(body) ==
  LET at == FindSub(body, PgpMarker) IN                     \* index of the NL before the first BEGIN line
  IF at # 0 /\ FindSubFrom(body, PgpEnd, at + 1 + Len(PgpBegin)) # 0
  THEN [message |-> SubSeq(body, 1, at - 1), pgp |-> [some |-> TRUE, v |-> Drop(body, at)]]
  ELSE [message |-> body, pgp |-> [some |-> FALSE, v |-> <<>>]]

ParseTag(b) ==
  LET o == Field(LineAt(b, 1), W_object) IN
  IF ~o.ok \/ ~IsHex40(o.val) THEN Bad ELSE
  LET k == Field(LineAt(b, o.next), W_type) IN
  IF ~k.ok \/ k.val \notin KindWords THEN Bad ELSE
  LET n == Field(LineAt(b, k.next), W_tag) IN
  IF ~n.ok \/ n.val = <<>> THEN Bad ELSE
  LET g == Field(LineAt(b, n.next), W_tagger)
      gs == IF g.ok THEN ParseSig(g.val) ELSE Bad
      i == IF g.ok THEN g.next ELSE n.next IN
  IF (g.ok /\ ~gs.ok) THEN Bad
  ELSE IF i = Len(b) + 1                                       \* no blank line at all: empty message
       THEN [ok |-> TRUE, v |-> [target |-> o.val, target_kind |-> k.val, name |-> n.val,
                                 tagger |-> IF g.ok THEN [some |-> TRUE, v |-> gs.v] ELSE [some |-> FALSE, v |-> NoSig],
                                 message |-> <<>>, pgp |-> [some |-> FALSE, v |-> <<>>]]]
  ELSE IF b[i] # NL THEN Bad
  ELSE LET s == SplitTagBody(Drop(b, i)) IN
       [ok |-> TRUE, v |-> [target |-> o.val, target_kind |-> k.val, name |-> n.val,
                            tagger |-> IF g.ok THEN [some |-> TRUE, v |-> gs.v] ELSE [some |-> FALSE, v |-> NoSig],
                            message |-> s.message, pgp |-> s.pgp]]

RECURSIVE ParseEntries(_, _, _)
ParseEntries(b, i, acc) ==
  IF i > Len(b) THEN [ok |-> TRUE, es |-> acc]
  ELSE LET sp == FindByteFrom(b, SP, i)
           nul == IF sp = 0 THEN 0 ELSE FindByteFrom(b, NUL, sp + 1) IN
       IF sp = 0 \/ nul = 0 \/ nul + 20 > Len(b) THEN Bad
       ELSE ParseEntries(b, nul + 21, Append(acc, [mode |-> SubSeq(b, i, sp - 1), name |-> SubSeq(b, sp + 1, nul - 1),
                                                   id |-> SubSeq(b, nul + 1, nul + 20)]))
ParseTree(b) == LET r == ParseEntries(b, 1, <<>>) IN IF r.ok THEN [ok |-> TRUE, v |-> [entries |-> r.es]] ELSE Bad

ParseObj(kind, b) ==
  LET r == CASE kind = "commit" -> ParseCommit(b)
             [] kind = "tag" -> ParseTag(b)
             [] kind = "tree" -> ParseTree(b)
             [] OTHER -> [ok |-> TRUE, v |-> [data |-> b]]
  IN IF r.ok THEN [ok |-> TRUE, o |-> [kind |-> kind, v |-> r.v]] ELSE [ok |-> FALSE, o |-> [kind |-> kind, v |-> <<>>]]

\* ------------------------------------------------------------------ laws (checked by ObjFormat_Gen)
LawRoundTrip(o) == LET p == ParseObj(o.kind, RenderObj(o)) IN p.ok /\ p.o = Canon(o)
LawCanonRendersSame(o) == RenderObj(Canon(o)) = RenderObj(o)
LawSize(o) == SizeByParts(o) = Len(RenderObj(o))
=============================================================================
