---------------------------- MODULE ObjTokens_Gen ----------------------------
(* Binding A for C02: object values in the shapes git itself produces are     *)
(* rendered by the specification; the driver has git store the bytes          *)
(* (hash-object / mktag / mktree) and reads them back; gitoxide's full and    *)
(* streaming decoders must report what is printed here: the value             *)
(* (ParseObj of the bytes), the token sequence, and - re-encoded - the same   *)
(* bytes.  Laws checked on every case: the fields read off the tokens are the *)
(* parsed value; the parsed value renders back to the bytes.                  *)
(*  "commit": parents 0..3 x extra-header shapes (one line, multi-line with    *)
(*      and without final newline, inner and trailing empty lines, gpgsig      *)
(*      blocks, two signature headers, nested mergetag) x encoding x messages  *)
(*      (empty, without final newline, binary, blank first line) x identities  *)
(*  "tag":  tagger yes/no x target kinds x names x messages x PGP block, and   *)
(*      tags that end right after their headers (git mktag makes those)        *)
(*  "tree": sorted subsets (<= 3) of seven entries, one per mode               *)
EXTENDS ObjTokens, Json, IOUtils, TLC
CONSTANTS Wide

\* SHA-1 is not interpreted: the ids of four objects that exist in the driver's scratch repository (git mktag insists
\* on an existing target of the declared type) are data, read from the JSON file named by the environment variable
\* C02_TARGETS: {"commit": [40 hex bytes], "tree": .., "blob": .., "tag": ..}
Targets == ndJsonDeserialize(IOEnv.C02_TARGETS)[1]
TargetOf(kindw) == CASE kindw = W_commit -> Targets.commit [] kindw = W_tree -> Targets.tree
                     [] kindw = W_blob -> Targets.blob [] OTHER -> Targets.tag

Id(n) == [i \in 1..40 |-> HexDigit((i * n + 3) % 16)]
Off(sign, hh, mm) == [sign |-> sign, hh |-> hh, mm |-> mm]
MkTime(secs, off) == [secs |-> secs, sign |-> off.sign, hh |-> off.hh, mm |-> off.mm]
T0 == MkTime(<<49,50,51,52,53,54,55,56,57,48>>, Off(PLUS, 1, 0))              \* 1234567890 +0100
T1 == MkTime(<<48>>, Off(MINUS, 0, 0))                                         \* 0 -0000
T2 == MkTime(<<52,49,48,50,52,52,52,56,48,48>>, Off(MINUS, 11, 30))           \* 4102444800 -1130
Ident(name, email) == [name |-> name, email |-> email]
IdentsQuick == { Ident(<<65,32,85,32,84,104,111,114>>, <<97,64,120>>),        \* "A U Thor" "a@x"
                 Ident(<<195,169,32,195,188>>, <<120,32,121,64,122>>) }         \* "e' u:" "x y@z"
Idents == IF Wide THEN IdentsQuick \cup { Ident(<<97,46,98,45,99>>, <<>>), Ident(<<>>, <<>>) } ELSE IdentsQuick
MkSig(id, t) == [name |-> id.name, email |-> id.email, time |-> t]
Sig0 == MkSig(Ident(<<67>>, <<99,64,120>>), T0)

H(name, value) == [name |-> name, value |-> value]
N_x == <<120>>
N_gpgsig == <<103,112,103,115,105,103>>
N_mergetag == <<109,101,114,103,101,116,97,103>>
SigBlock == PgpBegin \o <<NL, NL>> \o <<105,81,69,61>> \o <<NL>> \o PgpEnd
\* values are in parsed (canonical) form: a multi-line value ends with a newline
ExtrasQuick == {
  <<>>,
  << H(N_x, <<118>>) >>,
  << H(N_x, <<97, NL, 98, NL>>) >>,
  << H(N_x, <<97, NL, NL, 98, NL>>) >>,                                 \* empty continuation line inside
  << H(N_x, <<97, 13, NL, 98, 13, NL>>) >>,                             \* lines that end with CR LF (armor written on Windows): CR is content
  << H(N_gpgsig, SigBlock \o <<NL>>), H(N_x, <<118>>) >>,
  << H(N_gpgsig, SigBlock \o <<NL>>), H(N_gpgsig, SigBlock \o <<NL>>) >> }   \* two signature headers
ExtrasWide == ExtrasQuick \cup {
  << H(N_x, <<97, NL, 32, 98, NL>>) >>,                                 \* continuation that itself starts with a space
  << H(N_x, <<49>>), H(N_x, <<50>>) >>,
  << H(N_x, <<97, NL, NL>>) >>,                                         \* ends with an empty continuation line
  << H(N_mergetag, W_object \o <<SP>> \o Id(5) \o <<NL>> \o W_type \o <<SP>> \o W_commit \o <<NL>> \o W_tag \o <<SP, 118, NL, NL, 109, NL>>
                     \o SigBlock \o <<NL>>) >>,                         \* a whole signed tag nested in a header
  << H(N_x, <<118>>), H(N_gpgsig, SigBlock \o <<NL>>), H(N_x, <<97, NL, 98, NL>>) >> }
Extras == IF Wide THEN ExtrasWide ELSE ExtrasQuick
MsgsQuick == { <<>>, <<109>>, <<109, NL>>, <<195,169,255,1,NL>>, <<115, NL, NL, 98, NL>> }
Msgs == IF Wide THEN MsgsQuick \cup { <<NL>>, <<32, 108>>, <<109, NL, NL, NL>>, SigBlock \o <<NL>> } ELSE MsgsQuick
Encs == { [some |-> FALSE, v |-> <<>>], [some |-> TRUE, v |-> <<73,83,79,45,56,56,53,57,45,49>>] }

MkCommit(np, author, committer, enc, extra, msg) ==
  [kind |-> "commit",
   v |-> [tree |-> Id(1), parents |-> [i \in 1..np |-> Id(i + 1)], author |-> author, committer |-> committer,
          encoding |-> enc, extra |-> extra, message |-> msg]]

TagNames == { <<118,49,46,48>>, <<97,47,98>>, <<195,169>> }
TagMsgs == { <<>>, <<109>>, <<109, NL>>, <<109, NL, NL>>, <<195,169,255,NL>> }
Pgps == { [some |-> FALSE, v |-> <<>>], [some |-> TRUE, v |-> SigBlock \o <<NL>>] }
MkTag(kindw, name, tagger, msg, pgp) ==
  [kind |-> "tag", v |-> [target |-> TargetOf(kindw), target_kind |-> kindw, name |-> name, tagger |-> tagger, message |-> msg, pgp |-> pgp]]

Rid(n) == [i \in 1..20 |-> (i * 7 + n) % 256]
TreePool == << [mode |-> ModeBlob,   name |-> <<97>>,      id |-> Rid(1)],
               [mode |-> ModeTree,   name |-> <<97,45>>,   id |-> Rid(2)],
               [mode |-> ModeTree,   name |-> <<97,98>>,   id |-> Rid(3)],
               [mode |-> ModeExe,    name |-> <<97,46>>,   id |-> Rid(4)],
               [mode |-> ModeLink,   name |-> <<97,48>>,   id |-> Rid(5)],
               [mode |-> ModeCommit, name |-> <<98,255>>,  id |-> Rid(6)],
               [mode |-> ModeGroupW, name |-> <<195,169,32,1>>, id |-> Rid(7)] >>

VARIABLES c, done
vars == <<c, done>>
Init == c = [f |-> "none"] /\ done = FALSE
Stage1 == /\ c.f = "none" /\ done' = FALSE
          /\ \/ \E np \in 0..3, e \in Encs : c' = [f |-> "commit1", np |-> np, enc |-> e]
             \/ \E k \in KindWords : c' = [f |-> "tag1", k |-> k]
             \/ c' = [f |-> "tree1"]
Stage2 == /\ done' = TRUE
          /\ \/ /\ c.f = "commit1"
                /\ \E x \in Extras, m \in Msgs, id \in Idents, t \in {T0, T1, T2} :
                     c' = [f |-> "commit", headersOnly |-> FALSE,
                           o |-> MkCommit(c.np, MkSig(id, t), MkSig(id, T0), c.enc, x, m)]
             \/ /\ c.f = "tag1"
                /\ \E n \in TagNames, m \in TagMsgs, p \in Pgps, tg \in BOOLEAN, ho \in BOOLEAN :
                     /\ ho => (m = <<>> /\ ~p.some)                  \* only a tag without body can end after its headers
                     /\ c' = [f |-> "tag", headersOnly |-> ho,
                              o |-> MkTag(c.k, n, IF tg THEN [some |-> TRUE, v |-> Sig0] ELSE [some |-> FALSE, v |-> NoSig], m, p)]
             \/ /\ c.f = "tree1"
                /\ \E S \in SUBSET (1..Len(TreePool)) :
                     /\ Cardinality(S) <= 3
                     /\ c' = [f |-> "tree", headersOnly |-> FALSE,
                              o |-> [kind |-> "tree",
                                     v |-> [entries |-> SortEntries(SelectSeq(TreePool, LAMBDA e : \E i \in S : TreePool[i] = e))]]]
Next == ~done /\ (Stage1 \/ Stage2)
Spec == Init /\ [][Next]_vars

\* the bytes handed to git: the rendering, minus the blank line for a headers-only tag
Bytes == LET b == RenderObj(c.o) IN IF c.headersOnly THEN SubSeq(b, 1, Len(b) - 1) ELSE b

InvDomain == done => ObjOk(c.o) /\ Canon(c.o) = c.o
InvParse == done => LET p == ParseObj(c.o.kind, Bytes) IN p.ok /\ p.o = c.o
InvSameFields == done => LawSameFields(c.o.kind, Bytes)
InvReencode == done => (c.headersOnly \/ LawReencode(c.o.kind, Bytes))

Emit == done => PrintT(<<"CASE", ToJson([kind |-> c.o.kind, o |-> c.o, bytes |-> Bytes, headers_only |-> c.headersOnly,
                                          tokens |-> Tokens(c.o.kind, Bytes), preimage |-> LooseHeader(KindWord(c.o.kind), Len(Bytes)) \o Bytes])>>)
=============================================================================
