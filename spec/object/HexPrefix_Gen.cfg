SPECIFICATION Spec
CONSTANTS
  MaxToks = 2
  AllLens = TRUE
INVARIANTS
  Laws
  Emit
CHECK_DEADLOCK FALSE
