---------------------------- MODULE HexPrefix_Gen ----------------------------
(* Binding A for C05.  Two families of cases, both with the specification's   *)
(* expected observations:                                                     *)
(*  kind "prefix": id built from a filler pattern with chosen nibbles at the  *)
(*     positions n-1, n, n+1 around the cut; n over Lens (legal lengths and   *)
(*     refused ones); candidate ids that differ from id exactly at one of the *)
(*     three positions; the first n digits as lower and UPPER case text.      *)
(*  kind "text": hex text made of a filler of length Base with <= MaxToks     *)
(*     tokens (hex digits of both cases, the neighbours of the digit ranges   *)
(*     in ASCII, a two-byte UTF-8 character) spliced in at the front, middle  *)
(*     or back.                                                               *)
(* The same run checks the design-level laws of HexPrefix on every case.      *)
EXTENDS HexPrefix, Json, TLC
CONSTANTS MaxToks, AllLens

V == <<0, 7, 8, 15>>                                   \* nibble values around the cut
LensLegal == IF AllLens THEN MinLen..IdLen ELSE {4, 5, 6, 7, 8, 15, 16, 17, 31, 32, 33, 38, 39, 40}
LensRefused == {0, 1, 2, 3, 41, 42, 64}
Lens == LensLegal \cup LensRefused
Fillers == {1, 2, 3}
Fill(f, i) == CASE f = 1 -> (i * 7 + 3) % 16
                [] f = 2 -> 15
                [] OTHER -> 0

MkId(f, n, x, y, z) ==
  [i \in 1..IdLen |-> IF i = n - 1 THEN x ELSE IF i = n THEN y ELSE IF i = n + 1 THEN z ELSE Fill(f, i)]

\* ids differing from id at exactly one of the positions n-1, n, n+1 (inside the id), plus id itself
Variants(id, q) == IF q < 1 \/ q > IdLen THEN <<>>
                   ELSE LET vs == SelectSeq(V, LAMBDA v : v # id[q])
                        IN [k \in 1..Len(vs) |-> [id EXCEPT ![q] = vs[k]]]
Cands(id, n) == <<id>> \o Variants(id, n - 1) \o Variants(id, n) \o Variants(id, n + 1)

ErrSeq(S) == SelectSeq(<<"TooShort", "TooLong", "Invalid">>, LAMBDA e : e \in S)
Refused(errs) == [ok |-> FALSE, errs |-> ErrSeq(errs), hex_len |-> 0, display |-> <<>>, as_oid |-> <<>>, cmps |-> <<>>]
Accepted(p, cands) == [ok |-> TRUE, errs |-> <<>>, hex_len |-> Len(p), display |-> Display(p), as_oid |-> AsOid(p),
                       cmps |-> [k \in 1..Len(cands) |-> CmpOid(p, cands[k])]]

ExpectNew(id, n, cands) == IF PrefixNewOk(n) THEN Accepted(PrefixNew(id, n), cands) ELSE Refused(NewErrs(n))
ExpectText(t, cands) ==
  [p  |-> IF PrefixFromHexOk(t) THEN Accepted(PrefixFromHex(t), cands) ELSE Refused(FromHexErrs(t)),
   id |-> IF IdFromHexOk(t) THEN [ok |-> TRUE, nibs |-> IdFromHex(t)] ELSE [ok |-> FALSE, nibs |-> <<>>]]

\* ---------------------------------------------------------------- text family
HexFill == <<48,49,50,51,52,53,54,55,56,57,97,98,99,100,101,102,65,66,67,68,69,70>>   \* 0-9a-fA-F
FillText(L) == [i \in 1..L |-> HexFill[((i * 5) % 22) + 1]]
Tok == { <<48>>, <<57>>, <<97>>, <<102>>, <<65>>, <<70>>,      \* 0 9 a f A F
         <<47>>, <<58>>, <<64>>, <<71>>, <<96>>, <<103>>,      \* / : @ G ` g  (just outside the digit ranges)
         <<32>>, <<120>>, <<195,169>>, <<45>> }                \* space x e-acute -
Bases == {0, 1, 2, 3, 4, 31, 32, 33, 36, 37, 38, 39, 40}
Places == {"front", "middle", "back"}
MkText(L, place, toks) ==
  LET f == FillText(L)
      k == CASE place = "front" -> 0 [] place = "middle" -> L \div 2 [] OTHER -> L
  IN SubSeq(f, 1, k) \o FlatSeq(toks) \o SubSeq(f, k + 1, L)
ZeroId == [i \in 1..IdLen |-> 0]
TextCands(t) == IF PrefixFromHexOk(t)
                THEN LET p == PrefixFromHex(t) IN
                     <<AsOid(p), p \o [i \in 1..(IdLen - Len(p)) |-> 15], ZeroId,
                       [AsOid(p) EXCEPT ![Len(p)] = (p[Len(p)] + 1) % 16]>>
                ELSE <<ZeroId>>

\* ---------------------------------------------------------------- state machine
VARIABLES c, done
vars == <<c, done>>
Init == c = [kind |-> "none"] /\ done = FALSE

\* two steps, so that TLC's workers share the second (expensive) one
Stage1 == /\ c.kind = "none"
          /\ done' = FALSE
          /\ \/ \E n \in Lens, f \in Fillers : c' = [kind |-> "prefix1", n |-> n, f |-> f]
             \/ \E L \in Bases, place \in Places : c' = [kind |-> "text1", L |-> L, place |-> place]
PickPrefix == /\ c.kind = "prefix1"
              /\ \E xi \in 1..4, yi \in 1..4, zi \in 1..4 :
                   c' = [kind |-> "prefix", n |-> c.n, f |-> c.f, x |-> V[xi], y |-> V[yi], z |-> V[zi]]
              /\ done' = TRUE
PickText == /\ c.kind = "text1"
            /\ \E k \in 0..MaxToks : \E toks \in [1..k -> Tok] :
                 c' = [kind |-> "text", L |-> c.L, place |-> c.place, toks |-> toks]
            /\ done' = TRUE
Next == ~done /\ (Stage1 \/ PickPrefix \/ PickText)
Spec == Init /\ [][Next]_vars

CaseId == MkId(c.f, c.n, c.x, c.y, c.z)
CaseText == MkText(c.L, c.place, c.toks)

Laws ==
  done =>
    IF c.kind = "prefix"
    THEN LET id == CaseId cands == Cands(id, c.n) IN
         /\ IsId(id)
         /\ LawHexRoundTrip(id)
         /\ LawSamePrefix(id, c.n)
         /\ PrefixNewOk(c.n) =>
              LET p == PrefixNew(id, c.n) IN
              /\ IsPrefixVal(p)
              /\ \A k \in 1..Len(cands) : LawEqualIffDigitsAgree(p, cands[k])
              /\ \A k, m \in 1..Len(cands) : LawMonotone(p, cands[k], cands[m])
    ELSE LET t == CaseText IN
         /\ PrefixFromHexOk(t) => /\ IsPrefixVal(PrefixFromHex(t))
                                  /\ Display(PrefixFromHex(t)) = LowerSeq(t)
                                  /\ \A k \in 1..Len(TextCands(t)) : LawEqualIffDigitsAgree(PrefixFromHex(t), TextCands(t)[k])
         /\ IdFromHexOk(t) => ToHex(IdFromHex(t)) = LowerSeq(t)

Emit ==
  done =>
    IF c.kind = "prefix"
    THEN LET id == CaseId
             cands == Cands(id, c.n)
             m == Min2(c.n, IdLen)
             texts == << SubSeq(ToHex(id), 1, m), SubSeq(ToHexUpper(id), 1, m) >>
         IN PrintT(<<"CASE", ToJson([kind |-> "prefix", id |-> id, n |-> c.n, cands |-> cands, texts |-> texts,
                                     hex |-> ToHex(id),
                                     new |-> ExpectNew(id, c.n, cands),
                                     fromtext |-> [k \in 1..2 |-> ExpectText(texts[k], cands)]])>>)
    ELSE LET t == CaseText
             cands == TextCands(t)
         IN PrintT(<<"CASE", ToJson([kind |-> "text", id |-> ZeroId, n |-> MinLen, cands |-> cands, texts |-> <<t>>,
                                     hex |-> ToHex(ZeroId),
                                     new |-> ExpectNew(ZeroId, MinLen, cands),
                                     fromtext |-> << ExpectText(t, cands) >>])>>)
=============================================================================
