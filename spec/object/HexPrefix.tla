------------------------------ MODULE HexPrefix ------------------------------
(* C05.  Object ids, their hexadecimal text and abbreviated ids (prefixes).   *)
(*                                                                            *)
(* An id is a sequence of IdLen = 40 nibbles (0..15); the raw 20 bytes are    *)
(* nibble pairs, high nibble first (that pairing is all the executor does).   *)
(* Hex text is a byte sequence (ASCII).  A prefix is a sequence of n nibbles, *)
(* MinLen <= n <= IdLen.                                                      *)
(*                                                                            *)
(*   ToHex(nibs)          lower-case hex text of a nibble sequence            *)
(*   IdFromHex(t)         text -> id, defined iff t is exactly 40 hex digits  *)
(*                        (either case)                                       *)
(*   PrefixNew(id, n)     the first n nibbles of id, defined iff 4 <= n <= 40 *)
(*   PrefixFromHex(t)     the nibbles of t, defined iff 4 <= Len(t) <= 40 and *)
(*                        every byte is a hex digit (either case)             *)
(*   CmpOid(p, id)        three-way comparison of p with the first Len(p)     *)
(*                        nibbles of id                                       *)
(*   Display(p)           ToHex(p): exactly the n digits, lower case          *)
(*   AsOid(p)             p padded with zero nibbles to a full id (documented *)
(*                        in gix-hash: "non-prefix bytes are zeroed")         *)
(* The property: CmpOid(p, id) = 0  <=>  the first n hex digits of id are p;  *)
(* hex round trip; a prefix prints back as its n digits however it was made.  *)
EXTENDS Bytes

IdLen == 40
MinLen == 4
Nibble == 0..15

IsNibs(s) == \A i \in 1..Len(s) : s[i] \in Nibble
IsId(s) == Len(s) = IdLen /\ IsNibs(s)

ToHex(nibs) == [i \in 1..Len(nibs) |-> HexDigit(nibs[i])]
ToHexUpper(nibs) == [i \in 1..Len(nibs) |-> ToUpper(HexDigit(nibs[i]))]

IsHexText(t) == \A i \in 1..Len(t) : HexVal(t[i]) >= 0
NibsOfHex(t) == [i \in 1..Len(t) |-> HexVal(t[i])]

\* ---- full ids
IdFromHexOk(t) == Len(t) = IdLen /\ IsHexText(t)
IdFromHex(t) == NibsOfHex(t)                       \* meaningful when IdFromHexOk(t)

\* ---- prefixes.  Reasons for refusing; the property only fixes that the call is refused,
\* an implementation may name any of the reasons that apply.
NewErrs(n) == (IF n < MinLen THEN {"TooShort"} ELSE {}) \cup (IF n > IdLen THEN {"TooLong"} ELSE {})
PrefixNewOk(n) == NewErrs(n) = {}
PrefixNew(id, n) == SubSeq(id, 1, n)

FromHexErrs(t) == NewErrs(Len(t)) \cup (IF IsHexText(t) THEN {} ELSE {"Invalid"})
PrefixFromHexOk(t) == FromHexErrs(t) = {}
PrefixFromHex(t) == NibsOfHex(t)

IsPrefixVal(p) == Len(p) >= MinLen /\ Len(p) <= IdLen /\ IsNibs(p)

Display(p) == ToHex(p)
AsOid(p) == p \o [i \in 1..(IdLen - Len(p)) |-> 0]

\* Three-way comparison of the first n elements of two sequences: the first position in which
\* they differ decides (no recursion: TLC evaluates this several hundred thousand times per run).
CmpFirst(a, b, n) ==
  LET D == {i \in 1..n : a[i] # b[i]} IN
  IF D = {} THEN 0
  ELSE LET i == CHOOSE i \in D : \A j \in D : i <= j IN IF a[i] < b[i] THEN -1 ELSE 1
CmpOid(p, id) == CmpFirst(p, id, Len(p))
Matches(p, id) == SubSeq(id, 1, Len(p)) = p
CmpId(a, b) == CmpFirst(a, b, IdLen)             \* the byte order of full ids

\* ---- design-level statements (checked by HexPrefix_Gen on every enumerated value)
\* exactly the ids that start with the digits compare equal
LawEqualIffDigitsAgree(p, id) == (CmpOid(p, id) = 0) <=> (SubSeq(ToHex(id), 1, Len(p)) = Display(p))
\* the prefix order is compatible with the id order (what a bisection over sorted ids needs)
LawMonotone(p, a, b) == CmpId(a, b) <= 0 => CmpOid(p, a) >= CmpOid(p, b)
\* hex round trip of ids, in both cases of letters
LawHexRoundTrip(id) == /\ IdFromHexOk(ToHex(id)) /\ IdFromHex(ToHex(id)) = id
                       /\ IdFromHexOk(ToHexUpper(id)) /\ IdFromHex(ToHexUpper(id)) = id
\* cut from an id or parsed from text: the same prefix, printing back as the n digits
LawSamePrefix(id, n) ==
  PrefixNewOk(n) =>
    LET p == PrefixNew(id, n)
        t == SubSeq(ToHex(id), 1, n) IN
      /\ PrefixFromHexOk(t) /\ PrefixFromHex(t) = p
      /\ PrefixFromHexOk(SubSeq(ToHexUpper(id), 1, n)) /\ PrefixFromHex(SubSeq(ToHexUpper(id), 1, n)) = p
      /\ Display(p) = t
      /\ Matches(p, id) /\ Matches(p, AsOid(p))
=============================================================================
