SPECIFICATION Spec
CONSTANTS
  DomainOnly = FALSE
  Bug_TimeSizeLadder = FALSE
INVARIANT EventOk
CHECK_DEADLOCK FALSE
