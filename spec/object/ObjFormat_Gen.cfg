SPECIFICATION Spec
CONSTANTS
  Ks = {1, 2, 9, 10, 18}
  Wide = FALSE
  Bug_TimeSizeLadder = FALSE
INVARIANTS
  InvDomain
  InvRoundTrip
  InvCanon
  InvSize
  Emit
CHECK_DEADLOCK FALSE
