--------------------------- MODULE TreeOrder_Trace ---------------------------
(* Binding B for C03: observations of the real gix-object code on seeded      *)
(* random entry sets (and on the enumerated ones), judged by the              *)
(* specification.  One event (see harness/crates/vh-c03):                     *)
(*   entries, sorted, sorted_perms, sorted_ref, decoded, iter_decoded :       *)
(*        sequences of [mode, name, id]                                       *)
(*   bytes, ref_bytes, header, id : bytes;  size : Nat                        *)
(*   sha1 : the evaluator's SHA-1 of header \o bytes (uninterpreted here)     *)
(*   lookups : [name, dir, found, found_name, mode, id]                       *)
(*   editor : [skipped, bytes]                                                *)
EXTENDS TreeOrder, TraceIO

VARIABLE l
Init == l = 1
Next == l <= NRec /\ l' = l + 1
Spec == Init /\ [][Next]_l

JudgeLookup(s, o) ==
  LET i == Lookup(s, o.name, o.dir) IN
  /\ o.found = (i > 0)
  /\ o.found => o.found_name = o.name /\ o.mode = s[i].mode /\ o.id = s[i].id

Judge(r) ==
  ~InDomain(r.entries) \/
  LET s == SortEntries(r.entries) IN
  /\ r.sorted = s
  /\ \A k \in 1..Len(r.sorted_perms) : r.sorted_perms[k] = s
  /\ r.sorted_ref = s
  /\ r.bytes = Render(s)
  /\ r.size = Len(r.bytes)
  /\ r.header = LooseHeader(TreeWord, Len(Render(s)))
  /\ r.id = r.sha1
  /\ r.decoded = s
  /\ r.iter_decoded = s
  /\ r.ref_bytes = r.bytes
  /\ \A k \in 1..Len(r.lookups) : JudgeLookup(s, r.lookups[k])
  /\ r.editor.skipped \/ r.editor.bytes = Render(s)

EventOk == l <= NRec => (Judge(Rec[l]) \/ PrintT(<<"REJECT", l>>))
=============================================================================
