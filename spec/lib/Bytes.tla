------------------------------- MODULE Bytes -------------------------------
(* Byte strings are sequences over 0..255.  Shared operators for all the    *)
(* format / rule modules.  Everything is written so that TLC can evaluate   *)
(* it on sequences of a few thousand bytes (tail recursion over indices).   *)
EXTENDS Naturals, Integers, Sequences, FiniteSets

Byte == 0..255

Min2(a, b) == IF a <= b THEN a ELSE b
Max2(a, b) == IF a >= b THEN a ELSE b

StartsWith(s, t) == Len(s) >= Len(t) /\ SubSeq(s, 1, Len(t)) = t
EndsWith(s, t)   == Len(s) >= Len(t) /\ SubSeq(s, Len(s) - Len(t) + 1, Len(s)) = t
Drop(s, n) == SubSeq(s, n + 1, Len(s))
Take(s, n) == SubSeq(s, 1, Min2(n, Len(s)))
Last(s) == s[Len(s)]
Front(s) == SubSeq(s, 1, Len(s) - 1)

RECURSIVE FlatSeq(_)
FlatSeq(ss) == IF ss = <<>> THEN <<>> ELSE Head(ss) \o FlatSeq(Tail(ss))

\* first index >= i at which byte b occurs, 0 if none
RECURSIVE FindByteFrom(_, _, _)
FindByteFrom(s, b, i) ==
  IF i > Len(s) THEN 0 ELSE IF s[i] = b THEN i ELSE FindByteFrom(s, b, i + 1)
FindByte(s, b) == FindByteFrom(s, b, 1)
HasByte(s, b) == \E i \in 1..Len(s) : s[i] = b

\* last index at which byte b occurs, 0 if none
RECURSIVE RFindByteFrom(_, _, _)
RFindByteFrom(s, b, i) ==
  IF i < 1 THEN 0 ELSE IF s[i] = b THEN i ELSE RFindByteFrom(s, b, i - 1)
RFindByte(s, b) == RFindByteFrom(s, b, Len(s))

\* first index i such that t occurs in s at i, 0 if none
RECURSIVE FindSubFrom(_, _, _)
FindSubFrom(s, t, i) ==
  IF i + Len(t) - 1 > Len(s) THEN 0
  ELSE IF SubSeq(s, i, i + Len(t) - 1) = t THEN i
  ELSE FindSubFrom(s, t, i + 1)
FindSub(s, t) == FindSubFrom(s, t, 1)
Contains(s, t) == FindSub(s, t) # 0

\* components of s separated by byte sep (empty components kept; Split(<<>>) = << <<>> >>)
RECURSIVE SplitFrom(_, _, _, _)
SplitFrom(s, sep, i, acc) ==
  IF i > Len(s) THEN <<acc>>
  ELSE IF s[i] = sep THEN <<acc>> \o SplitFrom(s, sep, i + 1, <<>>)
  ELSE SplitFrom(s, sep, i + 1, Append(acc, s[i]))
Split(s, sep) == SplitFrom(s, sep, 1, <<>>)

RECURSIVE Join(_, _)
Join(parts, sep) ==
  IF parts = <<>> THEN <<>>
  ELSE IF Len(parts) = 1 THEN parts[1]
  ELSE parts[1] \o sep \o Join(Tail(parts), sep)

\* three-way lexicographic comparison on bytes: -1, 0, 1 (memcmp, then length)
RECURSIVE CmpFrom(_, _, _)
CmpFrom(a, b, i) ==
  IF i > Len(a) /\ i > Len(b) THEN 0
  ELSE IF i > Len(a) THEN -1
  ELSE IF i > Len(b) THEN 1
  ELSE IF a[i] < b[i] THEN -1
  ELSE IF a[i] > b[i] THEN 1
  ELSE CmpFrom(a, b, i + 1)
Cmp(a, b) == CmpFrom(a, b, 1)
Less(a, b) == Cmp(a, b) < 0

IsUpper(b) == b >= 65 /\ b <= 90
IsLower(b) == b >= 97 /\ b <= 122
IsDigit(b) == b >= 48 /\ b <= 57
IsAlpha(b) == IsUpper(b) \/ IsLower(b)
IsAlnum(b) == IsAlpha(b) \/ IsDigit(b)
ToLower(b) == IF IsUpper(b) THEN b + 32 ELSE b
ToUpper(b) == IF IsLower(b) THEN b - 32 ELSE b
LowerSeq(s) == [i \in 1..Len(s) |-> ToLower(s[i])]

HexDigit(n) == IF n < 10 THEN 48 + n ELSE 87 + n          \* lower-case
HexVal(b) == IF IsDigit(b) THEN b - 48
             ELSE IF b >= 97 /\ b <= 102 THEN b - 87
             ELSE IF b >= 65 /\ b <= 70 THEN b - 55
             ELSE -1

\* decimal rendering of a natural number (fits TLC's 32-bit ints)
RECURSIVE DecNat(_)
DecNat(n) == IF n < 10 THEN <<48 + n>> ELSE DecNat(n \div 10) \o <<48 + (n % 10)>>

\* sequence without its elements satisfying Test
SeqRange(s) == {s[i] : i \in 1..Len(s)}
=============================================================================
