------------------------------ MODULE TraceIO ------------------------------
(* Shared head of every *_Trace module: the recorded events, one JSON object *)
(* per line, from the file named by the environment variable TRACE.          *)
EXTENDS Naturals, Sequences, Json, IOUtils, TLC

Rec == ndJsonDeserialize(IOEnv.TRACE)
NRec == Len(Rec)
=============================================================================
