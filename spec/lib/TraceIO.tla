------------------------------ MODULE TraceIO ------------------------------
(* Shared head of every *_Trace module: the recorded events, one JSON object *)
(* per line, from the file named by the environment variable TRACE.          *)
EXTENDS Naturals, Sequences, Json, IOUtils, TLC

Rec == ndJsonDeserialize(IOEnv.TRACE)
NRec == Len(Rec)

\* POSTCONDITION for acceptor-style trace specs (one state per consumed event plus the initial
\* state, CHECK_DEADLOCK FALSE): the run must have consumed every event; otherwise the 1-based
\* index of the first event that no action of the specification explains is printed.
TraceAccepted ==
  LET d == TLCGet("stats").diameter IN
  IF d - 1 = NRec THEN TRUE ELSE PrintT(<<"REJECTED-AT", d>>)
=============================================================================
