"""Shared pieces of the reference-transaction checks C16 / C17 / C20 (spec/ref/RefStore*.tla)."""
import os
import subprocess
from vf import *

NAMES = ["HEAD", "refs/heads/main", "refs/heads/dir/b", "refs/tags/t"]


def template(ctx):
    """a bare repository with two commits o1, o2 (objects only; refs are materialised per case)"""
    d = os.path.join(ctx.work, "template.git")
    git(["init", "-q", "--bare", d], check=True)
    tree = git(["mktree"], cwd=d, input=b"", check=True).stdout.decode().strip()
    o1 = git(["commit-tree", "-m", "one", tree], cwd=d, check=True).stdout.decode().strip()
    o2 = git(["commit-tree", "-m", "two", "-p", o1, tree], cwd=d, check=True).stdout.decode().strip()
    for p in ("HEAD",):
        try:
            os.remove(os.path.join(d, p))
        except OSError:
            pass
    shim = os.path.join(HARNESS, "target", "libcrash.so")
    src = os.path.join(HARNESS, "shim", "crash.c")
    if not os.path.exists(shim) or os.path.getmtime(shim) < os.path.getmtime(src):
        os.makedirs(os.path.dirname(shim), exist_ok=True)
        p = subprocess.run(["gcc", "-shared", "-fPIC", "-O1", "-o", shim, src, "-ldl"], stdout=subprocess.PIPE, stderr=subprocess.STDOUT, text=True)
        if p.returncode != 0:
            raise ToolError("cannot build crash shim: " + p.stdout)
    return {"VERIF_C16_TEMPLATE": d, "VERIF_C16_OIDS": "o1=%s,o2=%s" % (o1, o2), "VERIF_C16_SHIM": shim}


def expected_view(case, ok):
    return case["after"] if ok else case["before"]


def tkey(t):
    return (t["k"], t["v"])


def view_diff(want, got):
    return {n: {"want": want[n], "got": got.get(n)} for n in want if got.get(n) is None or tkey(want[n]) != tkey(got[n])}


def judge_tx(case, res, held=()):
    """returns list of problem strings for one executed transaction against the spec's prediction"""
    if "got" not in res:
        return ["transaction crashed/hung: %s" % json.dumps(res)[:300]]
    g = res["got"]
    bad = []
    v = case["verdict"]
    if v == "ok" and not g["ok"]:
        bad.append("model: transaction succeeds; implementation failed: %s" % g["err"])
    if v == "err" and g["ok"]:
        bad.append("model: transaction must fail and change nothing; implementation succeeded")
    want = expected_view(case, g["ok"])
    for which in ("same", "fresh", "git"):
        if g.get(which) is None:
            continue
        w = want
        if which == "git":
            # limits of the git observer: without HEAD git does not see a repository at all, and
            # for-each-ref does not list symbolic refs whose target chain ends nowhere
            if want["HEAD"]["k"] == "none":
                continue
            def dangling(n, depth=0):
                t = want.get(n)
                if t is None or t["k"] == "none":
                    return True
                if t["k"] == "sym":
                    return depth > 5 or dangling(t["v"], depth + 1)
                return False
            def final(n, depth=0):
                t = want.get(n)
                if t is not None and t["k"] == "sym" and depth < 6:
                    return final(t["v"], depth + 1)
                return n
            # for-each-ref's %(symref) prints the end of a chain of symbolic refs
            w = {n: (t if n == "HEAD" or t["k"] != "sym" else {"k": "sym", "v": final(t["v"])})
                 for n, t in want.items() if n == "HEAD" or not (t["k"] == "sym" and dangling(n))}
        d = view_diff(w, g[which])
        if d:
            bad.append("%s view differs from the model after %s: %s" % (which, "commit" if g["ok"] else "failure", json.dumps(d, sort_keys=True)))
    # iteration: every ref under refs/ exactly once, ascending, with the model's value
    want_iter = sorted((n, tkey(t)) for n, t in want.items() if n != "HEAD" and t["k"] != "none")
    got_iter = [(e[0], tkey(e[1]) if isinstance(e[1], dict) else ("error", e[1])) for e in g["iter"]]
    if got_iter != want_iter:
        bad.append("iteration differs: got %s want %s" % (got_iter, want_iter))
    want_locks = sorted(h + ".lock" for h in held)
    if g["locks"] != want_locks:
        bad.append("lock files left behind: %s (expected %s)" % (g["locks"], want_locks))
    if held and not g["held_intact"]:
        bad.append("a lock file held by another party was modified or removed")
    return bad


def classes(bad):
    return sorted({b.split(":")[0].split(";")[0][:60] for b in bad})
