"""C09 - Pack and multi-pack index lookups agree with a linear scan.

spec/pack/PackIdx.tla: the .idx v2 and multi-pack-index byte formats (fan-out, id table, CRCs, 31-bit offsets
with the escape into the 64-bit table / large-offset chunk, pack ids, pack names) and the answers a lookup must
give, defined by a linear scan over the id table: Lookup, LookupPrefix (none / unique / ambiguous + candidate
range). Design level: a transcription of index::access::{lookup, lookup_prefix} (fan-out bucket, bisection,
neighbour checks, candidate range), model-checked against the scan by PackIdx_Gen (`Design`).
 A : PackIdx_Gen enumerates id sets over byte classes (buckets 00/01/ff, differences at hex digit 5/6/40) x offset
     patterns (small / around 2^31 and 2^32 / above 2^32) with the scan's answers for full and prefix lookups
     (4,5,6,39,40 digits). The driver materialises each set as .idx (own writer) and as multi-pack-index (own writer,
     gitoxide's writer, `git multi-pack-index write`); PackIdx_Rand makes TLC read every file back (entry table +
     answers), also for seeded random sets up to 2000 ids and for indices git wrote for real packs
     (`git index-pack`, also with --index-version=2,<limit> to force the 64-bit table).
 B : PackIdx_Trace judges the recorded answers of index::File / multi_index::File against its own parse of the file.
 C : the spec's reading of every .idx = `git show-index`; multi-index entries = the entries of the member indices.
"""
import concurrent.futures
import hashlib
import os
import struct
from vf import *

LEVEL = "exploration"
META = {
    "technique": "TLA+ specification of .idx v2 / multi-pack-index formats and of lookup answers by linear scan; TLC model-checks a transcription of gix-pack's fan-out+bisection+neighbour-check lookup against the scan, enumerates id sets with expected answers, and reads back every materialised index file; replay through gix_pack::index::File and multi_index::File; observations re-judged by a TLC trace module; files audited with git show-index",
    "note": "Offsets beyond 2 GiB / 4 GiB are reached with the driver's own .idx writer and, for multi-pack-index, also with gitoxide's writer and `git multi-pack-index write` over those .idx files (dummy packs). git index-pack itself only reaches the 64-bit table through --index-version=2,<limit> (small values in the 64-bit table); real >2 GiB packs are not built. .idx v1 is not covered.",
}
JUDGE_EMPTY_MIDX = False      # see report: a multi-pack-index with zero objects is written but cannot be opened


# ------------------------------------------------------------------ materialising worlds (file writers)
def write_idx(path, entries, pack_sha, force64=False):
    """independent .idx v2 writer; entries: [(id bytes, offset int, crc int)]"""
    entries = sorted(entries)
    fan = [0] * 256
    for i, _o, _c in entries:
        fan[i[0]] += 1
    for b in range(1, 256):
        fan[b] += fan[b - 1]
    out = b"\xfftOc" + struct.pack(">I", 2) + b"".join(struct.pack(">I", f) for f in fan)
    out += b"".join(i for i, _, _ in entries)
    out += b"".join(struct.pack(">I", c) for _, _, c in entries)
    big = []
    for _, o, _ in entries:
        if o > 0x7fffffff or force64:
            out += struct.pack(">I", 0x80000000 | len(big))
            big.append(o)
        else:
            out += struct.pack(">I", o)
    out += b"".join(struct.pack(">Q", o) for o in big)
    out += pack_sha
    out += hashlib.sha1(out).digest()
    with open(path, "wb") as f:
        f.write(out)


def write_dummy_pack(path):
    p = b"PACK" + struct.pack(">II", 2, 0)
    with open(path, "wb") as f:
        f.write(p + hashlib.sha1(p).digest())


def write_midx(path, names, entries):
    """independent multi-pack-index writer; names: sorted index file names; entries: [(id, pack number, offset)]"""
    entries = sorted(entries)
    pnam = b"".join(n.encode() + b"\0" for n in names)
    pnam += b"\0" * (-len(pnam) % 4)
    fan = [0] * 256
    for i, _p, _o in entries:
        fan[i[0]] += 1
    for b in range(1, 256):
        fan[b] += fan[b - 1]
    oidf = b"".join(struct.pack(">I", f) for f in fan)
    oidl = b"".join(i for i, _, _ in entries)
    need_large = any(o > 0xffffffff for _, _, o in entries)
    ooff, loff = b"", b""
    nlarge = 0
    for _i, p, o in entries:
        if need_large and o > 0x7fffffff:
            ooff += struct.pack(">II", p, 0x80000000 | nlarge)
            loff += struct.pack(">Q", o)
            nlarge += 1
        else:
            ooff += struct.pack(">II", p, o)
    chunks = [(b"PNAM", pnam), (b"OIDF", oidf), (b"OIDL", oidl), (b"OOFF", ooff)] + ([(b"LOFF", loff)] if need_large else [])
    head = b"MIDX" + bytes([1, 1, len(chunks), 0]) + struct.pack(">I", len(names))
    pos = len(head) + 12 * (len(chunks) + 1)
    table = b""
    for cid, data in chunks:
        table += cid + struct.pack(">Q", pos)
        pos += len(data)
    table += b"\0\0\0\0" + struct.pack(">Q", pos)
    out = head + table + b"".join(d for _, d in chunks)
    out += hashlib.sha1(out).digest()
    with open(path, "wb") as f:
        f.write(out)


def o8(n):
    return b2l(struct.pack(">Q", n))


# ------------------------------------------------------------------ queries (inputs only)
def queries_for(rng, ids, limit):
    qs = []
    pick = list(ids)
    rng.shuffle(pick)
    pick = pick[:limit]
    if ids:
        s = sorted(ids)
        pick += [s[0], s[-1]]
    for k, i in enumerate(pick):
        qs.append((i, 40))
        for d in (-1, 1):                                    # neighbours by last byte and by first byte
            qs.append((i[:-1] + bytes([(i[-1] + d) % 256]), 40))
            qs.append((bytes([(i[0] + d) % 256]) + i[1:], 40))
        lens = range(4, 41) if k < 2 else rng.sample(range(4, 41), 4)
        for h in lens:
            qs.append((i, h))
    for _ in range(6):
        r = rng.randbytes(20)
        qs.append((r, 40))
        qs.append((r, rng.randint(4, 40)))
    for fb in (0, 255):
        qs.append((bytes([fb]) * 20, 40))
        qs.append((bytes([fb]) * 20, 4))
    return [{"id": b2l(i), "hexlen": h} for i, h in qs]


def random_ids(rng, n, style):
    ids = set()
    while len(ids) < n:
        r = rng.randbytes(20)
        if style == "bucket00":
            r = b"\x00" + r[1:]
        elif style == "bucketff":
            r = b"\xff" + r[1:]
        elif style == "middle":
            r = b"\x7f" + r[1:]
        elif style == "shared":                               # long common prefixes, differing at a random nibble
            base = b"\xab\xcd\xef" + b"\x01" * 17
            k = rng.randrange(4, 40)
            nib = rng.randrange(16)
            bb = bytearray(base)
            if k % 2 == 0:
                bb[k // 2] = (nib << 4) | (bb[k // 2] & 15)
            else:
                bb[k // 2] = (bb[k // 2] & 240) | nib
            bb[19] = rng.randrange(256)
            r = bytes(bb)
        elif style == "edges":
            r = bytes([rng.choice([0, 0, 1, 254, 255, 255])]) + r[1:]
        ids.add(r)
    return sorted(ids)


def random_offset(rng):
    c = rng.randrange(8)
    if c < 3:
        return rng.randrange(12, 1 << 20)
    if c == 3:
        return rng.choice([0x7fffffff, 0x80000000, 0x80000001, 0xffffffff, 0x100000000, 0x100000001, 0x7ffffffe])
    if c == 4:
        return rng.randrange(0x7fffff00, 0x80000100)
    if c == 5:
        return rng.randrange(0xffffff00, 0x100000100)
    return rng.randrange(1 << 32, 1 << 63)


# ------------------------------------------------------------------ the specification reads files (PackIdx_Rand)
def tlc_lanes(ctx, module, path, timeout=3000):
    r = ctx._tlc("pack", module, ctx.cfg("pack", module + ".cfg"), 8, timeout, env={"TRACE": path})
    if r.violated or r.error:
        ctx._dump(module + ".tlc.out", r.out)
        raise ToolError("%s: violated=%s error=%s" % (module, r.violated, r.error))
    ctx.cov["states"] += r.distinct
    ctx.cov["transitions"] += r.generated
    return r


def spec_read(ctx, files):
    path = os.path.join(ctx.work, "files-%d.ndjson" % len(ctx.cov["tlc_runs"]))
    with open(path, "w") as f:
        for x in files:
            f.write(json.dumps({"kind": x["kind"], "file": b2l(open(x["path"], "rb").read()), "queries": x["queries"],
                                "full": x["full"]}, separators=(",", ":")) + "\n")
    r = tlc_lanes(ctx, "PackIdx_Rand", path)
    out = sorted(r.cases(), key=lambda c: c["n"])
    ctx.log("TLC PackIdx_Rand: %d files read, %.1fs" % (len(out), r.wall))
    if len(out) != len(files):
        ctx._dump("PackIdx_Rand.tlc.out", r.out)
        raise ToolError("PackIdx_Rand read %d of %d files" % (len(out), len(files)))
    return out


def judge_file(x, spec, res):
    """harness answers vs the specification's answers for one file"""
    if "got" not in res:
        return ["index handling crashed: %s" % json.dumps(res)[:200]]
    g = res["got"]
    if not g["ok"]:
        return ["cannot open a well-formed %s file: %s" % (x["kind"], g["err"][:100])]
    bad = []
    if g["n"] != spec["count"]:
        bad.append("num_objects: got %d, file has %d" % (g["n"], spec["count"]))
    if x["kind"] == "midx" and g["names"] != spec["names"]:
        bad.append("index names differ")
    for q, a, r in zip(x["queries"], spec["answers"], g["results"]):
        what = "%s/%d" % (bytes(q["id"]).hex()[:q["hexlen"]], q["hexlen"])
        if a["lookup"] != r["lookup"]:
            bad.append("lookup: %s got %d, linear scan %d" % (what, r["lookup"], a["lookup"]))
        elif r["lookup"] >= 0 and spec["ids"]:
            i = r["lookup"]
            if r["at"]["id"] != spec["ids"][i] or r["at"]["ofs"] != spec["ofs"][i]:
                bad.append("entry data: %s id/offset at index %d differ from the file's tables (offset got %s, file %s)"
                           % (what, i, bytes(r["at"]["ofs"]).hex(), bytes(spec["ofs"][i]).hex()))
            if x["kind"] == "idx" and r["at"]["crc"] != spec["crcs"][i]:
                bad.append("entry data: %s crc at index %d differs" % (what, i))
            if x["kind"] == "midx" and r["at"]["pack"] != spec["packs"][i]:
                bad.append("entry data: %s pack at index %d differs" % (what, i))
        w = a["prefix"]
        for key, with_range in (("prefix", False), ("prefix_c", True)):
            p = r[key]
            if p["kind"] != w["kind"] or (w["kind"] == "unique" and p["index"] != w["index"]):
                bad.append("%s: %s got %s/%d, linear scan %s/%d" % ("lookup_prefix" + ("+candidates" if with_range else ""), what,
                                                                     p["kind"], p["index"], w["kind"], w["index"]))
            elif with_range and (p["start"], p["end"]) != (w["start"], w["end"]):
                bad.append("candidate range: %s got %d..%d, linear scan %d..%d" % (what, p["start"], p["end"], w["start"], w["end"]))
    if x["full"] and spec["ids"] is not None:
        for name in ("list", "iter"):
            got = [(e["id"], e["ofs"]) for e in g[name]]
            want = list(zip(spec["ids"], spec["ofs"]))
            if got != want:
                bad.append("%s: %d entries differ from the file's %d" % ("iteration" if name == "iter" else "entry access", len(got), len(want)))
    return bad


def classify(bad):
    return sorted({b.split(":")[0] for b in bad})


def event_of(x, res):
    g = res["got"]
    results = []
    for q, r in zip(x["queries"], g["results"]):
        results.append({"id": q["id"], "hexlen": q["hexlen"], "lookup": r["lookup"], "at_id": r["at"]["id"], "at_ofs": r["at"]["ofs"],
                        "at_crc": r["at"]["crc"], "at_pack": r["at"]["pack"], "p_kind": r["prefix"]["kind"], "p_index": r["prefix"]["index"],
                        "c_kind": r["prefix_c"]["kind"], "c_index": r["prefix_c"]["index"], "c_start": r["prefix_c"]["start"],
                        "c_end": r["prefix_c"]["end"]})
    return {"kind": x["kind"], "file": b2l(open(x["path"], "rb").read()), "listed": x["full"], "results": results, "list": g["list"]}


def show_index(path):
    out = git(["show-index"], input=open(path, "rb").read(), check=True).stdout.decode().splitlines()
    res = []
    for ln in out:
        p = ln.split()
        res.append((b2l(bytes.fromhex(p[1])), o8(int(p[0])), b2l(bytes.fromhex(p[2].strip("()")))))
    return res


# ------------------------------------------------------------------ building the files of one abstract world
def materialise(ctx, binary, tag, entries, queries, writers, files, gix_jobs):
    """entries: [(id, ofs int, crc int, pack 0/1)] -> .idx of all entries, and (per writer) a multi-pack-index over two
    member indices. Returns nothing; appends file records."""
    d = os.path.join(ctx.work, "w", tag)
    os.makedirs(d, exist_ok=True)
    sha = hashlib.sha1(tag.encode()).digest()
    p = os.path.join(d, "all.idx")
    write_idx(p, [(i, o, c) for i, o, c, _ in entries], sha)
    abstract = sorted((b2l(i), o8(o), b2l(struct.pack(">I", c))) for i, o, c, _ in entries)
    files.append({"kind": "idx", "path": p, "queries": queries, "full": True, "origin": "own-writer/" + tag, "abstract": abstract})
    if not writers:
        return
    names = ["pack-%s.idx" % (ch * 40) for ch in "ab"]
    members = {}
    for k, nm in enumerate(names):
        sub = [(i, o, c) for i, o, c, pk in entries if pk == k]
        members[nm] = {(bytes(i), struct.pack(">Q", o)) for i, o, _ in sub}
    mq = queries[::3]
    for w in writers:
        pd = os.path.join(d, w, "pack")
        os.makedirs(pd, exist_ok=True)
        for k, nm in enumerate(names):
            write_idx(os.path.join(pd, nm), [(i, o, c) for i, o, c, pk in entries if pk == k], hashlib.sha1(nm.encode()).digest())
            write_dummy_pack(os.path.join(pd, nm[:-4] + ".pack"))
        out = os.path.join(pd, "multi-pack-index")
        rec = {"kind": "midx", "path": out, "queries": mq, "full": True, "origin": "%s/%s" % (w, tag), "members": members,
               "count": len(entries)}
        if w == "own-midx":
            write_midx(out, names, [(i, pk, o) for i, o, _c, pk in entries])
        elif w == "git-midx":
            # git only opens an .idx v2 with at most nr-1 entries in its 64-bit table (the first object of a pack sits at offset 12)
            if any(sub and all(o > 0x7fffffff for _i, o, _c in sub)
                   for sub in ([(i, o, c) for i, o, c, pk in entries if pk == k] for k in range(2))):
                continue
            scratch = os.path.join(ctx.work, "midx-scratch-repo")
            if not os.path.exists(scratch):
                git(["init", "-q", scratch], check=True)
            r = git(["multi-pack-index", "write"], cwd=scratch, env={"GIT_OBJECT_DIRECTORY": os.path.join(d, w)})
            if r.returncode != 0 or not os.path.exists(out):
                raise ToolError("git multi-pack-index write failed for %s: %s" % (tag, r.stderr.decode()[-200:]))
        else:
            gix_jobs.append(({"op": "midx_write", "indices": [os.path.join(pd, nm) for nm in names], "out": out}, rec))
            continue
        files.append(rec)


def real_pack_world(ctx, idx, nblobs, npacks):
    """packs and indices written by git for real objects; multi-pack-index by git"""
    rng = ctx.rng
    repo = os.path.join(ctx.work, "real-%d" % idx)
    git(["init", "-q", repo], check=True)
    pd = os.path.join(repo, ".git", "objects", "pack")
    recs = []
    for k in range(npacks):
        paths = []
        for j in range(nblobs):
            p = os.path.join(repo, "b%d_%d" % (k, j))
            with open(p, "wb") as f:
                f.write(rng.randbytes(rng.randint(1, 400)))
            paths.append(p)
        ids = git(["hash-object", "-w", "--"] + paths, cwd=repo, check=True).stdout
        name = git(["pack-objects", "-q", os.path.join(pd, "pack")], cwd=repo, input=ids, check=True).stdout.decode().strip()
        pack = os.path.join(pd, "pack-%s.pack" % name)
        oids = sorted(bytes.fromhex(x) for x in ids.decode().split())
        recs.append({"kind": "idx", "path": pack[:-5] + ".idx", "queries": queries_for(rng, oids, 8), "full": True,
                     "origin": "git pack-objects/%d" % len(oids)})
        # the same pack indexed again with a tiny 31-bit limit: every offset beyond it goes through the 64-bit table
        alt = os.path.join(repo, "alt-%d.idx" % k)
        git(["index-pack", "--index-version=2,0x40", "-o", alt, pack], cwd=repo, check=True)
        recs.append({"kind": "idx", "path": alt, "queries": queries_for(rng, oids, 8), "full": True,
                     "origin": "git index-pack --index-version=2,0x40/%d" % len(oids)})
    if npacks > 1:
        git(["multi-pack-index", "write"], cwd=repo, check=True)
        v = git(["multi-pack-index", "verify"], cwd=repo)
        if v.returncode != 0:
            raise ToolError("git multi-pack-index verify failed on its own file: %s" % v.stderr.decode()[-200:])
        members = {}
        allids = []
        for r in recs:
            if r["origin"].startswith("git pack-objects"):
                members[os.path.basename(r["path"])] = {(bytes(i), bytes(o)) for i, o, _c in show_index(r["path"])}
                allids += [i for i, _o in members[os.path.basename(r["path"])]]
        recs.append({"kind": "midx", "path": os.path.join(pd, "multi-pack-index"), "queries": queries_for(rng, allids, 10), "full": True,
                     "origin": "git multi-pack-index write/%d packs" % npacks, "members": members, "count": len(set(allids))})
    return recs


def run(ctx):
    binary = ctx.build("vh-c09")
    files, gix_jobs = [], []
    # ---------------------------------------------------------------- enumerated worlds (PackIdx_Gen; Design checked in the same run)
    gens = [({"MaxIds": 2, "Wide": "FALSE"}, 1)] if not ctx.thorough else [({"MaxIds": 3, "Wide": "FALSE"}, 3), ({"MaxIds": 2, "Wide": "TRUE"}, 2)]
    cases = []
    for consts, _ in gens:
        cases += ctx.tlc_gen("pack", "PackIdx_Gen", consts=consts)
    ctx.cov["exhaustive"] = True
    if ctx.thorough:
        # self-test of the design check: without the look at the previous neighbour the transcription must fail
        ctx.tlc_mc("pack", "PackIdx_Gen", consts={"MaxIds": 2, "Bug_NoPrevNeighbour": "TRUE"}, expect_violation="Design", coverage=False)
    for k, c in enumerate(cases):
        entries = [(bytes(i), struct.unpack(">Q", bytes(o))[0], struct.unpack(">I", bytes(cr))[0], pk)
                   for i, o, cr, pk in zip(c["ids"], c["ofs"], c["crcs"], c["packs"])]
        queries = [{"id": q["id"], "hexlen": q["hexlen"]} for q in c["queries"]]
        writers = []
        if len(entries) >= 1 or JUDGE_EMPTY_MIDX:
            if k % 2 == 0:
                writers.append("own-midx")
            if k % 4 == 1:
                writers.append("gix-midx")
            if k % 8 == 3 or (ctx.thorough and k % 4 == 3):
                writers.append("git-midx")
        n0 = len(files)
        materialise(ctx, binary, "g%d" % k, entries, queries, writers, files, gix_jobs)
        files[n0]["gen"] = c
    ctx.log("materialised %d enumerated id sets" % len(cases))

    # ---------------------------------------------------------------- seeded random sets
    plan = [(0, "uniform"), (1, "uniform"), (2, "edges"), (5, "bucket00"), (50, "bucketff"), (50, "shared"), (300, "uniform"),
            (300, "middle"), (2000, "uniform"), (600, "edges")]
    if ctx.thorough:
        plan = plan * 3 + [(2000, "shared"), (2000, "bucket00"), (1000, "edges"), (3, "bucketff"), (17, "shared")]
    for k, (n, style) in enumerate(plan):
        ids = random_ids(ctx.rng, n, style)
        entries = [(i, random_offset(ctx.rng), ctx.rng.getrandbits(32), ctx.rng.randrange(2)) for i in ids]
        qs = queries_for(ctx.rng, ids, 12)
        materialise(ctx, binary, "r%d" % k, entries, qs, ["own-midx", "gix-midx", "git-midx"] if n else [], files, gix_jobs)
        if n and k % 2 == 0:                       # every offset through the 64-bit table, like git's --index-version=2,0
            p = os.path.join(ctx.work, "w", "r%d" % k, "force64.idx")
            write_idx(p, [(i, o, c) for i, o, c, _ in entries], b"\x22" * 20, force64=True)
            files.append({"kind": "idx", "path": p, "queries": qs, "full": True, "origin": "own-writer force64/r%d" % k,
                          "abstract": sorted((b2l(i), o8(o), b2l(struct.pack(">I", c))) for i, o, c, _ in entries)})
    # ---------------------------------------------------------------- indices git wrote for real packs
    for k, (nb, npk) in enumerate([(30, 3), (1, 1)] if not ctx.thorough else [(30, 3), (1, 1), (200, 4), (3, 2)]):
        files += real_pack_world(ctx, k, nb, npk)

    # gitoxide's multi-index writer
    wres = ctx.harness(binary, [j for j, _ in gix_jobs])
    for (job, rec), r in zip(gix_jobs, wres):
        if "got" not in r or not r["got"]["ok"]:
            ctx.violation({"kind": "midx-writer", "case": {"op": "midx_write", "origin": rec["origin"], "count": rec["count"]},
                           "mismatch": ["write_from_index_paths failed: %s" % json.dumps(r)[:200]], "classes": ["midx writer fails"]})
        else:
            files.append(rec)
    by_origin = {}
    for x in files:
        o = x["origin"].split("/")[0]
        by_origin[o] = by_origin.get(o, 0) + 1
    ctx.cov["files_by_writer"] = by_origin
    ctx.log("%d index files: %s" % (len(files), ", ".join("%s %d" % kv for kv in sorted(by_origin.items()))))

    # ---------------------------------------------------------------- the specification reads every file
    specs = spec_read(ctx, files)
    audited = 0
    with concurrent.futures.ThreadPoolExecutor(8) as ex:                 # git's reading of every .idx (binding C)
        shown = dict(zip([x["path"] for x in files if x["kind"] == "idx"],
                         ex.map(show_index, [x["path"] for x in files if x["kind"] == "idx"])))
    for x, s in zip(files, specs):
        by_gix = x["origin"].startswith("gix-midx")
        if not s["ok"] or not s["wellformed"] or (x["kind"] == "midx" and s["count"] != x.get("count", s["count"])):
            if by_gix:
                ctx.violation({"kind": "midx-writer", "case": {"op": "midx_write", "origin": x["origin"]},
                               "mismatch": ["gitoxide wrote a multi-pack-index that is not well-formed (ids ascending, fan-out, chunk table)"],
                               "classes": ["midx writer output"]})
                x["skip"] = True
                continue
            audit_mismatch(ctx, "PackIdx parse of a %s file (%s)" % (x["kind"], x["origin"]), {"ok": s["ok"], "wellformed": s["wellformed"], "count": s["count"]})
        table = list(zip(s["ids"], s["ofs"], s["crcs"])) if x["kind"] == "idx" else None
        if x["kind"] == "idx":
            if "abstract" in x and table != [tuple(t) for t in x["abstract"]]:
                raise ToolError("own .idx writer and PackIdx.ParseIdx disagree on %s" % x["origin"])
            if table != shown[x["path"]]:                                     # binding C
                audit_mismatch(ctx, "PackIdx.ParseIdx vs git show-index", {"file": x["origin"]})
            audited += len(table)
            if "gen" in x:
                c = x["gen"]
                if s["answers"] != [{"lookup": q["lookup"], "prefix": q["prefix"]} for q in c["queries"]]:
                    raise ToolError("PackIdx_Gen and PackIdx_Rand disagree on the answers for %s" % x["origin"])
        else:
            names = [bytes(n).decode() for n in s["names"]]
            bad = None
            seen = set()
            for i, o, pk in zip(s["ids"], s["ofs"], s["packs"]):
                if pk >= len(names) or (bytes(i), bytes(o)) not in x["members"].get(names[pk], ()):
                    bad = "entry %s not in member index %s" % (bytes(i).hex(), names[pk] if pk < len(names) else pk)
                    break
                seen.add(bytes(i))
            want = {i for m in x["members"].values() for i, _o in m}
            if bad is None and seen != want:
                bad = "multi-index has %d ids, the member indices %d" % (len(seen), len(want))
            if bad:
                if by_gix:
                    ctx.violation({"kind": "midx-writer", "case": {"op": "midx_write", "origin": x["origin"]}, "mismatch": [bad],
                                   "classes": ["midx writer output"]})
                    x["skip"] = True
                    continue
                audit_mismatch(ctx, "multi-pack-index vs member indices (%s)" % x["origin"], {"what": bad})
            audited += len(s["ids"])
    ctx.log("audit: %d entries of .idx files agree with git show-index / of multi-pack-index files with their member indices" % audited)
    ctx.cov["git_audited"] = audited

    # ---------------------------------------------------------------- binding A: gitoxide's answers vs the spec's
    live = [(x, s) for x, s in zip(files, specs) if not x.get("skip")]
    hres = ctx.harness(binary, [{"op": x["kind"], "path": x["path"], "queries": x["queries"], "list": x["full"]} for x, _ in live], timeout=1200)
    events, owner = [], []
    empty_midx = 0
    for (x, s), r in zip(live, hres):
        if x["kind"] == "midx" and s["count"] == 0 and not JUDGE_EMPTY_MIDX:
            empty_midx += 1
            continue
        bad = judge_file(x, s, r)
        if s["count"] >= 2:
            ctx.nontrivial(hashlib.sha1(open(x["path"], "rb").read()).hexdigest())
        if bad:
            ctx.violation({"kind": x["kind"], "case": {"op": x["kind"], "origin": x["origin"], "count": s["count"],
                                                       "file": b2l(open(x["path"], "rb").read()) if s["count"] <= 40 else "<%d entries>" % s["count"],
                                                       "queries": x["queries"] if s["count"] <= 40 else "<seeded>"},
                           "mismatch": bad[:6], "classes": classify(bad)})
        if "got" in r and r["got"]["ok"]:
            events.append((x, r))
    big = max(live, key=lambda t: t[1]["count"])
    ctx.sample({"file": big[0]["origin"], "entries": big[1]["count"], "queries": len(big[0]["queries"])})

    # ---------------------------------------------------------------- binding B: PackIdx_Trace
    step = 2 if ctx.thorough else 3
    chosen = [e for k, e in enumerate(events) if not e[0]["origin"].startswith(("own-writer/g", "own-midx/g", "gix-midx/g", "git-midx/g")) or k % step == 0]
    path = os.path.join(ctx.work, "events.ndjson")
    with open(path, "w") as f:
        for x, r in chosen:
            f.write(json.dumps(event_of(x, r), separators=(",", ":")) + "\n")
    tr = tlc_lanes(ctx, "PackIdx_Trace", path)
    rejects = sorted({int(v) - 1 for v in re.findall(r'^<<"REJECT", (\d+)>>', tr.out, re.M)})
    ctx.log("TLC PackIdx_Trace: %d events, %d rejected, %.1fs" % (len(chosen), len(rejects), tr.wall))
    if tr.distinct != max(len(chosen), 8):
        raise ToolError("PackIdx_Trace judged %d of %d events" % (tr.distinct, len(chosen)))
    if not rejects:
        ctx.cov["traces_validated_against_impl"] += 1
    for bi in rejects:
        x = chosen[bi][0]
        ctx.violation({"kind": "trace", "case": {"op": x["kind"], "origin": x["origin"]}, "mismatch": ["event rejected by PackIdx_Trace"],
                       "classes": ["trace"]})
    if empty_midx:
        ctx.cov["empty_multi_index_files_not_judged"] = empty_midx
    ctx.cov["files"] = len(files)
    ctx.cov["rule"] = ("Design: transcribed fan-out+bisection lookup vs linear scan on every enumerated id set. A: PackIdx_Gen id sets (<= %s ids "
                       "of an 18/36-id universe, whole buckets, whole universe) x 3 offset patterns, 115 queries each; seeded random sets "
                       "(0..2000 ids; uniform, one bucket, edge buckets, shared prefixes) with offsets across 2^31 / 2^32; indices git wrote "
                       "for real packs. Files: %d (.idx by the driver's writer and git; multi-pack-index by the driver's writer, gitoxide's "
                       "writer and git). B: PackIdx_Trace on the recorded answers. Non-trivial = file with >= 2 entries; distinct by file content."
                       % ("3" if ctx.thorough else "2", len(files)))
    ctx.assumptions += ["SHA-1 / CRC32 values are uninterpreted data (hashlib for file checksums)",
                        "prefix lengths 4..40 (gix_hash::Prefix::MIN_HEX_LEN = 4)",
                        "multi-pack-index files with zero objects are not judged (git writes them, `git multi-pack-index verify` rejects them, gitoxide cannot open them)" if not JUDGE_EMPTY_MIDX else "empty multi-pack-index files are judged",
                        "offsets > 2 GiB come from index files written by the driver (dummy packs); no real pack of that size is built"]


def replay(ctx, rec):
    binary = ctx.build("vh-c09")
    c = rec["case"]
    if isinstance(c.get("file"), list):
        p = os.path.join(ctx.work, "replay." + c["op"])
        with open(p, "wb") as f:
            f.write(l2b(c["file"]))
        x = {"kind": c["op"], "path": p, "queries": c["queries"], "full": True, "origin": c.get("origin", "replay")}
        s = spec_read(ctx, [x])[0]
        r = ctx.harness(binary, [{"op": x["kind"], "path": p, "queries": x["queries"], "list": True}])[0]
        bad = judge_file(x, s, r) if s["wellformed"] else []
        if bad:
            ctx.violation({"kind": rec.get("kind", c["op"]), "case": c, "mismatch": bad[:6], "classes": classify(bad)})
        return
    # findings on large seeded files or writer findings: re-run the seeded check
    run(ctx)
