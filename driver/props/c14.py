"""C14 - Commit-graph data agrees with the commits it describes.

spec/odb/CommitGraph.tla: a history is a topologically numbered list of commits with ordered parent lists, root trees
and committer times; Gens = topological levels (1 for roots, 1 + max over parents). ReaderOk: for every commit covered
by the commit-graph a reader reports exactly its parents in order, root tree, time and generation, finds it by id at a
unique graph position, and finds nothing else. DecodeFile / ChainOk read the .graph files (header, chunk table, OIDF,
OIDL, CDAT, EDGE, BASE, trailer) byte by byte.
 A:  CommitGraph_Gen enumerates every history of <= N commits (ordered parent lists incl. octopus merges, several
     roots) with its generation numbers (GenLaw checked on each); the driver builds them with `git fast-import`, reads
     them back with `git cat-file --batch` (world check), writes commit-graphs with
     `git commit-graph write --reachable [--split=no-merge | --split]` in 1..4 increments, and runs gix-commitgraph:
     Graph::at, commit_by_id, iter_parents + id_at, root_tree_id, committer_timestamp, generation, lookup, iter_ids,
     verify_integrity.
 B:  the observations - also on seeded random histories of up to 200 commits with octopus merges, many roots and
     timestamps beyond 32 bits - are judged by CommitGraph_Trace (ReaderOk).
 C:  for a sample of worlds TLC reads git's .graph files itself (ChainOk): the files must say what the history says
     (audit of the format transcription; also `git commit-graph verify`).
"""
import hashlib
import os
from vf import *

LEVEL = "exploration"
META = {
    "technique": "TLC-enumerated small histories and seeded random large ones built with git; commit-graphs written by git (single file, split chains); gix-commitgraph's answers judged by a TLC trace spec against the abstract history; TLC as byte-level reference reader of git's .graph files",
    "note": "Exhaustive for histories of <= N commits with <= MaxParents ordered parents and <= 3 roots (constants in the evidence), one or three write plans each; larger histories are sampled. Generation numbers are the topological levels of the CDAT chunk (generation data v2 chunks are not read by gix-commitgraph and not judged). Trusted: TLC, git 2.39.5 (fast-import, commit-graph write), Python hashlib for the file checksums.",
}


def compositions(n, rng, kmax=4):
    """a random composition of n into 1..kmax positive parts"""
    k = rng.randint(1, min(kmax, n))
    cuts = sorted(rng.sample(range(1, n), k - 1)) if k > 1 else []
    parts, prev = [], 0
    for c in cuts + [n]:
        parts.append(c - prev)
        prev = c
    return parts


def random_history(rng, n):
    parents = []
    for i in range(1, n + 1):
        r = rng.random()
        if i == 1 or r < 0.06:
            ps = []
        elif r < 0.6:
            ps = [i - 1] if rng.random() < 0.7 else [rng.randint(1, i - 1)]
        elif r < 0.9:
            ps = rng.sample(range(1, i), min(2, i - 1))
        else:
            ps = rng.sample(range(1, i), min(rng.randint(3, 9), i - 1))
        parents.append(ps)
    return parents


def times_for(rng, n):
    ts = []
    for i in range(n):
        r = rng.random()
        if r < 0.8:
            ts.append(1000000000 + rng.randint(0, 10 ** 8))
        elif r < 0.9:
            ts.append(rng.choice([0, 1, 2 ** 31 - 1, 2 ** 31, 2 ** 32 - 1]))
        else:
            ts.append(rng.choice([2 ** 32, 2 ** 32 + 12345, 2 ** 33 + 5, 2 ** 34 - 1]))
    return ts


def build_worlds(ctx, hists, base):
    """hists: [{"parents": [[..]..], "times": [..]}] -> adds ids, trees (one fast-import for all), checks them with git"""
    os.makedirs(base, exist_ok=True)
    shared = os.path.join(base, "shared.git")
    git(["init", "-q", "--bare", shared], check=True)
    s = [b"blob\nmark :1\ndata 2\nx\n"]
    mark = 10
    for hi, h in enumerate(hists):
        h["marks"] = []
        for i, ps in enumerate(h["parents"], 1):
            mark += 1
            h["marks"].append(mark)
            msg = b"h%d c%d\n" % (hi, i)
            s.append(b"commit refs/w/h%d/c%d\nmark :%d\ncommitter C <c@x> %d +0000\ndata %d\n%s" % (hi, i, mark, h["times"][i - 1], len(msg), msg))
            if ps:
                s.append(b"from :%d\n" % h["marks"][ps[0] - 1])
                for p in ps[1:]:
                    s.append(b"merge :%d\n" % h["marks"][p - 1])
            s.append(b"deleteall\nM 100644 :1 f%d\n" % i)
    marks_file = os.path.join(base, "marks")
    git(["-c", "core.fsync=none", "fast-import", "--quiet", "--export-marks=" + marks_file], cwd=shared, input=b"".join(s), check=True, timeout=1200)
    marks = {}
    for line in open(marks_file):
        m, i = line.split()
        marks[int(m[1:])] = i
    allids = []
    for h in hists:
        h["ids"] = [marks[m] for m in h["marks"]]
        allids += h["ids"]
    # world check (rule 10): git's own reading of every commit is the abstract history
    p = git(["cat-file", "--batch"], cwd=shared, input=("\n".join(allids) + "\n").encode(), check=True, timeout=1200)
    data, pos = p.stdout, 0
    seen = {}
    for i in allids:
        nl = data.find(b"\n", pos)
        head = data[pos:nl].decode().split(" ")
        size = int(head[2])
        body = data[nl + 1:nl + 1 + size].decode()
        pos = nl + 1 + size + 1
        hdr = body.split("\n\n", 1)[0].split("\n")
        seen[i] = {"tree": [l[5:] for l in hdr if l.startswith("tree ")][0],
                   "parents": [l[7:] for l in hdr if l.startswith("parent ")],
                   "time": [l.split(" ")[-2] for l in hdr if l.startswith("committer ")][0]}
    for h in hists:
        h["trees"] = [seen[i]["tree"] for i in h["ids"]]
        for k, i in enumerate(h["ids"]):
            if seen[i]["parents"] != [h["ids"][p - 1] for p in h["parents"][k]] or seen[i]["time"] != str(h["times"][k]):
                raise ToolError("C14: git built a different history than requested: %s vs %s" % (seen[i], h["parents"][k]))
    return shared


def write_graphs(ctx, shared, h, wi, base):
    """materialise the world of history h according to h['plan'] = {"mode": single|nomerge|split, "parts": [..], "covered": m}"""
    w = os.path.join(base, "w", "%d" % wi)
    os.makedirs(os.path.join(w, "objects", "info"))
    os.makedirs(os.path.join(w, "refs", "heads"))
    with open(os.path.join(w, "HEAD"), "w") as f:
        f.write("ref: refs/heads/main\n")
    with open(os.path.join(w, "config"), "w") as f:
        f.write("[core]\n\trepositoryformatversion = 0\n\tbare = true\n")
    with open(os.path.join(w, "objects", "info", "alternates"), "w") as f:
        f.write(os.path.join(shared, "objects") + "\n")
    plan = h["plan"]
    upto = 0
    for part in plan["parts"]:
        for i in range(upto, upto + part):
            with open(os.path.join(w, "refs", "heads", "c%d" % (i + 1)), "w") as f:
                f.write(h["ids"][i] + "\n")
        upto += part
        args = ["commit-graph", "write", "--reachable"]
        if plan["mode"] == "nomerge":
            args.append("--split=no-merge")
        elif plan["mode"] == "split":
            args.append("--split")
        git(["-c", "core.fsync=none"] + args, cwd=w, check=True)
    # commits that arrive after the last write are not covered
    for i in range(upto, len(h["ids"])):
        with open(os.path.join(w, "refs", "heads", "c%d" % (i + 1)), "w") as f:
            f.write(h["ids"][i] + "\n")
    h["world"] = w
    return w


def graph_files(w):
    info = os.path.join(w, "objects", "info")
    single = os.path.join(info, "commit-graph")
    if os.path.exists(single):
        return [single]
    chain = os.path.join(info, "commit-graphs", "commit-graph-chain")
    return [os.path.join(info, "commit-graphs", "graph-%s.graph" % l.strip()) for l in open(chain) if l.strip()]


def reader_event(h, g):
    n = len(h["parents"])
    obs = {"num": g["num"], "commits": [{k: v for k, v in c.items()} for c in g["commits"]], "positions": g["positions"],
           "iter_ids": g["iter_ids"], "by_pos_ok": g["by_pos_ok"], "iter_agree": g["iter_agree"], "verify_ok": g["verify"] == "ok"}
    return {"kind": "reader", "h": {"parents": h["parents"], "ids": h["ids"], "trees": h["trees"], "times": [str(t) for t in h["times"]]},
            "gens": h.get("gens", []), "covered": h["plan"]["covered"], "obs": obs}


def chain_event(h):
    files = graph_files(h["world"])
    raw = [open(f, "rb").read() for f in files]
    return {"kind": "chain", "covered": h["plan"]["covered"],
            "h": {"parents": h["parents"], "ids": [b2l(i.encode()) for i in h["ids"]], "trees": [b2l(t.encode()) for t in h["trees"]],
                  "time5": [b2l(t.to_bytes(5, "big")) for t in h["times"]]},
            "files": [b2l(r) for r in raw], "hcontent": [b2l(hashlib.sha1(r[:-20]).hexdigest().encode()) for r in raw]}


def public_case(h):
    return {"parents": h["parents"], "times": h["times"], "plan": h["plan"], "gens": h.get("gens", [])}


def run_histories(ctx, binary, hists, chain_sample, tag):
    base = os.path.join(ctx.work, tag)
    shared = build_worlds(ctx, hists, base)
    for wi, h in enumerate(hists):
        write_graphs(ctx, shared, h, wi, base)
    res = ctx.harness(binary, [{"path": os.path.join(h["world"], "objects", "info"), "ids": h["ids"]} for h in hists], timeout=1800)
    events, owner = [], []
    for h, r in zip(hists, res):
        if "got" not in r:
            ctx.violation({"kind": "crash", "case": public_case(h), "classes": ["crash"], "result": r, "what": "reading the commit-graph panicked"})
            continue
        g = r["got"]
        if g["open"] != "ok":
            ctx.violation({"kind": "open", "case": public_case(h), "classes": ["open"], "result": g, "what": "the commit-graph git wrote could not be opened"})
            continue
        h["files"] = len(graph_files(h["world"]))
        events.append(reader_event(h, g))
        owner.append(h)
    for bi in ctx.tlc_trace("odb", "CommitGraph_Trace", events):
        h = owner[bi]
        ctx.violation({"kind": "reader", "case": public_case(h), "classes": ["reader", h["plan"]["mode"]], "files": h["files"],
                       "observed": events[bi]["obs"], "ids": h["ids"],
                       "what": "gix-commitgraph's answers differ from the history the commit-graph was written for"})
    # binding C: TLC reads git's files itself
    cand = [h for h in hists if len(h["parents"]) <= 8 and "files" in h]
    ctx.rng.shuffle(cand)       # prefer chains of several files and octopus merges (EDGE chunk, BASE chunk)
    cand.sort(key=lambda h: (h["files"] < 2, not any(len(p) > 2 for p in h["parents"])))
    sample = cand[:chain_sample]
    if sample:
        cev = [chain_event(h) for h in sample]
        rej = ctx.tlc_trace("odb", "CommitGraph_Trace", cev)
        if rej:
            h = sample[rej[0]]
            audit_mismatch(ctx, "CommitGraph.ChainOk vs git's files", {"parents": h["parents"], "plan": h["plan"], "files": graph_files(h["world"])})
        for h in sample[:10]:
            p = git(["commit-graph", "verify"], cwd=h["world"])
            if p.returncode != 0:
                audit_mismatch(ctx, "git commit-graph verify", {"parents": h["parents"], "plan": h["plan"], "stderr": p.stderr.decode()[:300]})
        ctx.cov["chains_read_by_tlc"] = ctx.cov.get("chains_read_by_tlc", 0) + len(sample)
    return hists


def plans_for(rng, n, which):
    out = []
    for mode in which:
        covered = n if n < 2 or rng.random() < 0.7 else n - 1
        if mode == "single":
            out.append({"mode": "single", "parts": [covered], "covered": covered})
        else:
            out.append({"mode": mode, "parts": compositions(covered, rng), "covered": covered})
    return out


def run(ctx):
    binary = ctx.build("vh-c14")
    consts = {"N": 5, "MaxParents": 4, "MaxRoots": 3, "MinN": 1} if ctx.thorough else {"N": 4, "MaxParents": 3, "MaxRoots": 3, "MinN": 1}
    cases = ctx.tlc_gen("odb", "CommitGraph_Gen", consts=consts, workers=4)
    cases.sort(key=lambda c: json.dumps(c["parents"]))
    if ctx.thorough and len(cases) > 4000:      # every history of <= 4 commits, a seeded sample of the 5-commit ones
        small = [c for c in cases if len(c["parents"]) <= 4]
        big = [c for c in cases if len(c["parents"]) > 4]
        cases = small + ctx.rng.sample(big, 3500)
    ctx.cov["exhaustive"] = True
    ctx.cov["instance"] = consts
    hists = []
    modes = ["single", "nomerge", "split"]
    for ci, c in enumerate(cases):
        n = len(c["parents"])
        which = modes if ctx.thorough and n <= 4 else [modes[ci % 3]]
        for plan in plans_for(ctx.rng, n, which):
            hists.append({"parents": c["parents"], "gens": c["gens"], "times": times_for(ctx.rng, n), "plan": plan})
    run_histories(ctx, binary, hists, 160 if ctx.thorough else 24, "small")
    for h in hists:
        if any(len(p) >= 2 for p in h["parents"]) or len(h["plan"]["parts"]) > 1:
            ctx.nontrivial(json.dumps([h["parents"], h["plan"]]))
    ctx.cov["shapes"] = {"octopus": sum(1 for h in hists if any(len(p) > 2 for p in h["parents"])),
                         "chains_of_2_or_more_files": sum(1 for h in hists if h.get("files", 1) > 1),
                         "with_uncovered_commit": sum(1 for h in hists if h["plan"]["covered"] < len(h["parents"]))}
    pick = next(h for h in hists if any(len(p) > 2 for p in h["parents"]) and h.get("files", 1) > 1)
    ctx.sample({"parents": pick["parents"], "gens": pick["gens"], "plan": pick["plan"], "files": pick["files"]})

    # binding B: random large histories
    big = []
    for k in range(12 if ctx.thorough else 3):
        n = ctx.rng.choice([40, 90, 200])
        parents = random_history(ctx.rng, n)
        plan = plans_for(ctx.rng, n, [ctx.rng.choice(["nomerge", "split", "nomerge"])])[0]
        big.append({"parents": parents, "times": times_for(ctx.rng, n), "plan": plan})
    run_histories(ctx, binary, big, 0, "big")
    for h in big:
        ctx.nontrivial(json.dumps([h["parents"], h["plan"]]))
    ctx.cov["random_histories"] = [{"commits": len(h["parents"]), "files": h.get("files"), "max_parents": max(len(p) for p in h["parents"])} for h in big]
    ctx.cov["rule"] = ("A: every history of <= %(N)s commits with ordered lists of <= %(MaxParents)s distinct parents and <= %(MaxRoots)s roots "
                       "(TLC; the thorough tier samples the 5-commit ones), each written as single file / --split=no-merge / --split in 1..4 "
                       "increments, sometimes with a commit arriving after the last write. B: seeded random histories of 40..200 commits "
                       "with octopus merges of up to 9 parents. Non-trivial = a history with a merge or a graph of several files; distinct "
                       "by parent lists and write plan." % consts)
    ctx.assumptions += ["generation = topological level as stored in CDAT (documented by gix-commitgraph); corrected commit dates (GDA2) are not judged",
                        "committer times are below 2^34 (the width of the CDAT field)",
                        "git 2.39.5 builds the histories and writes the graphs; its .graph files are re-read by TLC for a sample (audit)"]


def replay(ctx, rec):
    binary = ctx.build("vh-c14")
    c = rec["case"]
    h = {"parents": c["parents"], "times": c["times"], "plan": c["plan"], "gens": c.get("gens", [])}
    run_histories(ctx, binary, [h], 1 if len(c["parents"]) <= 8 else 0, "replay")
