"""C07 - Pack entry headers and deltas encode and decode losslessly.

spec/pack/Varint.tla: the size varint (type + 4 bits, then 7-bit groups, least significant first) and the
offset varint (7-bit groups, most significant first, +1 per continuation) over BigNat bit strings (64-bit values
do not fit TLC's integers); EncHeader/DecHeader for all six entry kinds. spec/pack/Delta.tla: Apply(base, delta).
 A : Varint_Gen enumerates headers (sizes/distances 2^k-1, 2^k, 2^k+1 for every k, first value of every length of the
     offset encoding +-1, mixed patterns) with the bytes to be written, and byte strings (continuation patterns of every
     length) with the values to be read; replayed through Header::write_to / Header::size / Entry::from_bytes /
     Entry::from_read (with trailing bytes; the stream reader must stop exactly at the end of the header).
     TLC checks on the spec itself that decoding inverts encoding and re-encoding canonical bytes is the identity.
 B : seeded random 64-bit headers, and the headers of all entries of packs written by git, judged by Varint_Trace;
     every delta entry of those packs: decode_entry's object judged by Delta_Trace against Apply(base, delta).
 C : the spec's reading of real pack entry headers vs `git verify-pack -v` (type, size, base offset / base id), and
     Apply(base, delta) = target for every delta git produced (Delta_Audit.cfg). zlib and SHA-1 are uninterpreted
     (Python zlib inflates the delta streams from the offset the spec computes).
"""
import os
import zlib
from vf import *

LEVEL = "exploration"
META = {
    "technique": "TLA+ specification of pack entry header varints (BigNat bit strings) and of delta application; TLC enumerates boundary headers/byte strings with expected results and checks the round-trip laws on the spec; replay through gix_pack Header/Entry/decode_entry; git-written packs are read by the spec and judged by TLC trace modules; spec audited against git verify-pack / cat-file",
    "note": "Headers: every 7-bit boundary below 2^64 for all six kinds. Deltas: those git pack-objects chose for seeded base/target pairs (60 B .. 200 KiB, chains, OFS and REF deltas). Out of domain: values >= 2^64, objects >= 2 GiB in the delta spec.",
}
TAILS = [[], [128, 255], [0]]
TYPE_NAMES = {1: "commit", 2: "tree", 3: "blob", 4: "tag", 6: "ofs-delta", 7: "ref-delta"}


def same(d, want, stream):
    bad = []
    if not d["ok"]:
        return ["reader fails: %s" % d["err"][:80]]
    for k in ("type", "size", "consumed"):
        if d[k] != want[k]:
            bad.append("%s differs: got %s, spec %s" % (k, json.dumps(d[k])[:80], json.dumps(want[k])[:80]))
    if want["type"] == 6 and d["dist"] != want["dist"]:
        bad.append("base distance differs: got %s, spec %s" % (json.dumps(d["dist"])[:80], json.dumps(want["dist"])[:80]))
    if want["type"] == 7 and d["base"] != want["base"]:
        bad.append("base id differs")
    if stream and d.get("pos") != want["consumed"]:
        bad.append("stream reader consumed %s bytes, header has %s" % (d.get("pos"), want["consumed"]))
    return bad


def judge_hdr(case, res):
    if "got" not in res:
        return ["header code crashed: %s" % json.dumps(res)[:200]]
    g = res["got"]
    bad = []
    if case["op"] == "enc":
        if g["bytes"] != case["bytes"]:
            bad.append("written bytes differ: got %s, spec %s" % (g["bytes"], case["bytes"]))
        if g["written"] != case["consumed"]:
            bad.append("write_to returned %d, spec length %d" % (g["written"], case["consumed"]))
        if g["hsize"] != case["consumed"]:
            bad.append("Header::size returned %d, spec length %d" % (g["hsize"], case["consumed"]))
    elif not case["indomain"]:
        return []
    bad += ["from_bytes " + b for b in same(g["mem"], case, False)]
    bad += ["from_read " + b for b in same(g["read"], case, True)]
    # the same stream through readers that return 1, 2, 3, 7, 19 or 21 bytes per call must decode identically
    for d in g["read"].get("chunked_differs", []):
        bad.append("from_read through a reader that returns at most %d bytes per call differs from reading the whole buffer: %s" % (d["k"], json.dumps({k: d[k] for k in ("ok", "type", "consumed", "pos", "base", "err")})[:200]))
    if case["canonical"] and g["mem"]["ok"] and g["mem"]["hsize"] != case["consumed"]:
        bad.append("header_size of the decoded entry is %d, it occupies %d" % (g["mem"]["hsize"], case["consumed"]))
    return bad


def classify(bad):
    return sorted({b.split(":")[0].split(" differs")[0] for b in bad})


def bits(n):
    out = []
    while n:
        out.append(n & 1)
        n >>= 1
    return out


def unbits(b):
    return sum(1 << i for i, x in enumerate(b) if x)


def enc_event(case, res):
    g = res["got"]
    strip = lambda d: {k: d[k] for k in ("ok", "type", "size", "dist", "base", "consumed")}
    return {"op": "enc", "type": case["type"], "size": case["size"], "dist": case["dist"], "base": case["base"],
            "bytes": g["bytes"], "written": g["written"], "hsize": g["hsize"], "mem": strip(g["mem"]), "read": strip(g["read"])}


def dec_event(raw, res):
    g = res["got"]
    strip = lambda d: {k: d[k] for k in ("ok", "type", "size", "dist", "base", "consumed")}
    return {"op": "dec", "type": 0, "size": [], "dist": [], "base": [], "bytes": raw, "written": 0, "hsize": 0,
            "mem": strip(g["mem"]), "read": strip(g["read"])}


# ------------------------------------------------------------------ git worlds
def edit(rng, data):
    """a target that shares blocks with `data`: delete / insert / move / duplicate blocks"""
    out = bytearray(data)
    for _ in range(rng.randint(1, 4)):
        op = rng.randrange(5)
        n = len(out)
        if n < 8:
            break
        a = rng.randrange(n)
        ln = rng.randint(1, max(1, min(n - a, rng.choice([3, 20, 130, 400, 70000]))))
        if op == 0:
            del out[a:a + ln]
        elif op == 1:
            out[a:a] = rng.randbytes(rng.choice([1, 5, 126, 127, 128, 300]))
        elif op == 2:
            blk = out[a:a + ln]
            del out[a:a + ln]
            b = rng.randrange(len(out) + 1)
            out[b:b] = blk
        elif op == 3:
            out += out[a:a + ln]
        else:
            out[a:a + 1] = bytes([out[a] ^ 0x55])
    return bytes(out)


def make_pack(ctx, idx, sizes, ofs):
    rng = ctx.rng
    repo = os.path.join(ctx.work, "packrepo-%d" % idx)
    git(["init", "-q", repo], check=True)
    blobs = []
    for gi, size in enumerate(sizes):
        base = rng.randbytes(size)
        fam = [base]
        for _ in range(rng.randint(1, 3)):
            fam.append(edit(rng, rng.choice(fam)))
        for k, b in enumerate(fam):
            path = os.path.join(repo, "f%d_%d" % (gi, k))
            with open(path, "wb") as f:
                f.write(b)
            blobs.append(("f%d" % gi, path, b))
    ids = git(["hash-object", "-w", "--"] + [p for _, p, _ in blobs], cwd=repo, check=True).stdout.decode().split()
    content = {}
    lines = b""
    for oid, (name, _p, b) in zip(ids, blobs):
        if oid not in content:
            lines += ("%s %s\n" % (oid, name)).encode()
        content[oid] = b
    args = ["pack-objects", "--window=50", "--depth=6", "-q"] + (["--delta-base-offset"] if ofs else []) + ["pk"]
    name = git(args, cwd=repo, input=lines, check=True).stdout.decode().strip()
    pack = os.path.join(repo, "pk-%s.pack" % name)
    listing = git(["verify-pack", "-v", pack[:-5] + ".idx"], cwd=repo, check=True).stdout.decode().splitlines()
    entries = []
    for ln in listing:
        p = ln.split()
        if len(p) >= 5 and len(p[0]) == 40 and p[1] in ("blob", "tree", "commit", "tag"):
            entries.append({"id": p[0], "kind": p[1], "size": int(p[2]), "offset": int(p[4]),
                            "depth": int(p[5]) if len(p) > 6 else 0, "base_id": p[6] if len(p) > 6 else None})
    if sorted(e["id"] for e in entries) != sorted(content):
        raise ToolError("pack %d does not contain exactly the objects that were written" % idx)
    # the world as git reads it back
    for e in entries:
        back = git(["cat-file", e["kind"], e["id"]], cwd=repo, check=True).stdout
        if back != content[e["id"]]:
            raise ToolError("git cat-file disagrees with the written blob %s" % e["id"])
        e["content"] = back
    return pack, entries


def run(ctx):
    binary = ctx.build("vh-c07")
    # ---------------------------------------------------------------- A: enumerated headers
    cases = ctx.tlc_gen("pack", "Varint_Gen")
    ctx.cov["exhaustive"] = True
    for i, c in enumerate(cases):
        c["tail"] = TAILS[i % 3]
    results = ctx.harness(binary, cases)
    for c, r in zip(cases, results):
        bad = judge_hdr(c, r)
        if c["consumed"] >= 3:
            ctx.nontrivial(bytes(c["bytes"]))
        if bad:
            ctx.violation({"kind": "header", "case": c, "mismatch": bad[:6], "classes": classify(bad), "result": r,
                           "what": "%s size=%d dist=%d" % (TYPE_NAMES.get(c["type"], c["type"]), unbits(c["size"]), unbits(c["dist"]))})
    big = [c for c in cases if c["op"] == "enc" and c["type"] == 6 and len(c["dist"]) == 64][0]
    ctx.sample({"header": "ofs-delta size=%d distance=%d" % (unbits(big["size"]), unbits(big["dist"])), "bytes": big["bytes"]})

    # ---------------------------------------------------------------- B: random 64-bit headers, judged by TLC
    rnd = []
    for _ in range(1500 if not ctx.thorough else 20000):
        t = ctx.rng.choice([1, 2, 3, 4, 6, 6, 6, 7])
        size = ctx.rng.getrandbits(ctx.rng.randint(0, 64))
        dist = ctx.rng.getrandbits(ctx.rng.randint(0, 64)) if t == 6 else 0
        base = b2l(ctx.rng.randbytes(20)) if t == 7 else []
        rnd.append({"op": "enc", "type": t, "size": bits(size), "dist": bits(dist), "base": base,
                    "tail": b2l(ctx.rng.randbytes(ctx.rng.randint(0, 3)))})
    rres = ctx.harness(binary, rnd)
    events, owner = [], []
    for c, r in zip(rnd, rres):
        if "got" not in r:
            ctx.violation({"kind": "header", "case": c, "mismatch": ["header code crashed"], "classes": ["header code crashed"], "result": r})
            continue
        events.append(enc_event(c, r))
        owner.append(c)
        if len(r["got"]["bytes"]) >= 3:
            ctx.nontrivial(bytes(r["got"]["bytes"]))
    for c, r in list(zip(cases, results))[::3]:
        if c["op"] == "enc" and "got" in r:
            events.append(enc_event(c, r))
            owner.append(c)

    # ---------------------------------------------------------------- packs written by git
    plans = [([60, 90, 200, 400, 3000, 70000], True), ([80, 300, 1200, 140000], False)]
    if ctx.thorough:
        plans += [([ctx.rng.choice([60, 100, 300, 1000, 5000]) for _ in range(80)], True),
                  ([ctx.rng.choice([60, 100, 300, 1000, 5000]) for _ in range(80)], False),
                  ([200000, 66000, 131100, 70, 70], True), ([64, 65, 127, 128, 129, 255, 256, 257, 16383, 16384, 16385], True)]
    heads, pack_cases = [], []
    for idx, (sizes, ofs) in enumerate(plans):
        pack, entries = make_pack(ctx, idx, sizes, ofs)
        raw = open(pack, "rb").read()
        for e in entries:
            heads.append({"bytes": b2l(raw[e["offset"]:e["offset"] + 48])})
        pack_cases.append({"op": "pack", "pack": pack, "offsets": [e["offset"] for e in entries],
                           "ids": {e["id"]: e["offset"] for e in entries}, "_entries": entries, "_raw": raw})
    # the specification reads the entry headers (Varint_Rand)
    path = os.path.join(ctx.work, "heads.ndjson")
    with open(path, "w") as f:
        for h in heads:
            f.write(json.dumps(h, separators=(",", ":")) + "\n")
    r = ctx._tlc("pack", "Varint_Rand", ctx.cfg("pack", "Varint_Rand.cfg"), 1, 1800, env={"TRACE": path}, dfs=True)
    if r.violated or r.error:
        ctx._dump("Varint_Rand.tlc.out", r.out)
        raise ToolError("Varint_Rand: violated=%s error=%s" % (r.violated, r.error))
    decoded = sorted(r.cases(), key=lambda c: c["n"])
    ctx.cov["states"] += r.distinct
    ctx.log("TLC Varint_Rand: %d entry headers read, %.1fs" % (len(decoded), r.wall))
    if len(decoded) != len(heads):
        raise ToolError("Varint_Rand read %d of %d headers" % (len(decoded), len(heads)))
    # binding C for headers + inflate the delta streams at the offset the specification computed
    k = 0
    audited = 0
    delta_events, delta_owner = [], []
    ndelta = {6: 0, 7: 0}
    pres = ctx.harness(binary, [{kk: v for kk, v in pc.items() if not kk.startswith("_")} for pc in pack_cases], timeout=1200)
    for pc, pr in zip(pack_cases, pres):
        by_id = {e["id"]: e for e in pc["_entries"]}
        got_entries = pr["got"]["entries"] if "got" in pr else None
        if got_entries is None:
            ctx.violation({"kind": "pack", "case": {"op": "pack", "sizes": "see plans"}, "mismatch": ["pack decoding crashed"],
                           "classes": ["pack decoding crashed"], "result": pr})
        for j, e in enumerate(pc["_entries"]):
            d = decoded[k]
            k += 1
            is_delta = e["base_id"] is not None
            if not d["ok"] or not d["canonical"] or unbits(d["size"]) != e["size"] or (d["type"] in (6, 7)) != is_delta \
                    or (not is_delta and TYPE_NAMES[d["type"]] != e["kind"]):
                audit_mismatch(ctx, "Varint.DecHeader vs git verify-pack", {"entry": {x: e[x] for x in ("id", "kind", "size", "offset", "base_id")}, "spec": d})
            if d["type"] == 6 and e["offset"] - unbits(d["dist"]) != by_id[e["base_id"]]["offset"]:
                audit_mismatch(ctx, "Varint.DecOfs vs git verify-pack", {"entry": e["id"], "spec_distance": unbits(d["dist"]),
                                                                         "git_base_offset": by_id[e["base_id"]]["offset"], "offset": e["offset"]})
            if d["type"] == 7 and bytes(d["base"]).hex() != e["base_id"]:
                audit_mismatch(ctx, "Varint ref-delta base vs git verify-pack", {"entry": e["id"]})
            audited += 1
            if got_entries is None:
                continue
            g = got_entries[j]
            # header as gitoxide read it from the real pack vs the specification's reading
            want = dict(d)
            hb = same(g["hdr"], want, False) if g["ok"] or g["hdr"]["ok"] else ["entry unreadable: " + g["err"][:80]]
            if hb:
                ctx.violation({"kind": "pack-header", "case": {"op": "dec", "bytes": heads[k - 1]["bytes"], "type": d["type"], "size": d["size"],
                                                               "dist": d["dist"], "base": d["base"], "consumed": d["consumed"],
                                                               "indomain": True, "canonical": True},
                               "mismatch": hb, "classes": classify(hb)})
            if not is_delta:
                if not g["ok"] or bytes(g["data"]) != e["content"]:
                    ctx.violation({"kind": "full-object", "case": {"op": "pack", "plan": "git pack", "id": e["id"]},
                                   "mismatch": ["decode_entry of a non-delta entry differs from git cat-file: " + g["err"][:80]],
                                   "classes": ["full-object"]})
                continue
            ndelta[d["type"]] += 1
            stream = zlib.decompressobj().decompress(pc["_raw"][e["offset"] + d["consumed"]:])
            if len(stream) != e["size"]:
                raise ToolError("inflated delta of %s has %d bytes, header says %d" % (e["id"], len(stream), e["size"]))
            delta_events.append({"base": b2l(by_id[e["base_id"]]["content"]), "delta": b2l(stream), "target": b2l(e["content"]),
                                 "ok": g["ok"], "got": g["data"]})
            delta_owner.append({"id": e["id"], "depth": e["depth"], "type": TYPE_NAMES[d["type"]], "err": g["err"],
                                "base_len": len(by_id[e["base_id"]]["content"]), "delta": b2l(stream) if len(stream) < 400 else "<%d bytes>" % len(stream)})
            ctx.nontrivial(bytes(stream))
    ctx.log("audit: git verify-pack agreed with the specification on %d entry headers; %d ofs-deltas, %d ref-deltas"
            % (audited, ndelta[6], ndelta[7]))
    if ndelta[6] == 0 or ndelta[7] == 0:
        raise ToolError("vacuity: git produced no ofs-delta or no ref-delta (%s)" % ndelta)

    # headers found in real packs + random ones: Varint_Trace
    hres = ctx.harness(binary, [{"op": "dec", "bytes": h["bytes"]} for h in heads])
    for h, r in zip(heads, hres):
        if "got" in r:
            events.append(dec_event(h["bytes"], r))
            owner.append({"op": "dec", "bytes": h["bytes"]})
    for bi in ctx.tlc_trace("pack", "Varint_Trace", events):
        ctx.violation({"kind": "header-trace", "case": owner[bi], "mismatch": ["event rejected by Varint_Trace"], "classes": ["trace"],
                       "event": events[bi]})

    # deltas: binding C first (git's deltas obey the spec), then binding B (gitoxide's result is Apply(base, delta))
    bad_audit = ctx.tlc_trace("pack", "Delta_Trace", delta_events, cfg="Delta_Audit.cfg", xmx="8g")
    if bad_audit:
        audit_mismatch(ctx, "Delta.Apply vs git (delta produced by git does not yield the target)", delta_owner[bad_audit[0]])
    for bi in ctx.tlc_trace("pack", "Delta_Trace", delta_events, xmx="8g"):
        ctx.violation({"kind": "delta", "case": {"op": "delta", "base": delta_events[bi]["base"] if len(delta_events[bi]["base"]) < 2000 else "<large>",
                                                  "delta": delta_owner[bi]["delta"], "info": delta_owner[bi]},
                       "mismatch": ["decode_entry result differs from Apply(base, delta): " + delta_owner[bi]["err"][:80]], "classes": ["delta"]})
    ctx.cov["git_audited"] = audited + len(delta_events)
    ctx.cov["deltas_judged"] = len(delta_events)
    small = [o for o in delta_owner if isinstance(o["delta"], list)]
    if small:
        ctx.sample({"delta_entry": small[0]})
    ctx.cov["rule"] = ("A: Varint_Gen: 6 entry kinds x sizes/distances {2^k-1, 2^k, 2^k+1 : k <= 64} + offset-length boundaries + byte-string "
                       "patterns of every length (exhaustive over that alphabet). B: seeded random 64-bit headers and all entry headers of "
                       "git-written packs judged by Varint_Trace; all %d delta entries of those packs judged by Delta_Trace. "
                       "Non-trivial = header of >= 3 bytes, or a delta entry; distinct by header bytes / delta bytes." % len(delta_events))
    ctx.assumptions += ["zlib and SHA-1 are uninterpreted: delta streams are inflated by Python zlib at the offset the specification computes",
                        "values are below 2^64 (the implementation computes in u64; overflow behaviour beyond is not part of C07)",
                        "deltas are the ones git pack-objects chose for the seeded blobs (bases up to 200 KiB); git cat-file is the reference for object contents"]


def replay(ctx, rec):
    binary = ctx.build("vh-c07")
    c = rec["case"]
    if c.get("op") in ("enc", "dec") and "consumed" in c:
        c.setdefault("tail", [])
        r = ctx.harness(binary, [c])[0]
        bad = judge_hdr(c, r)
        if bad:
            ctx.violation({"kind": rec.get("kind", "header"), "case": c, "mismatch": bad[:6], "classes": classify(bad), "result": r})
        return
    if c.get("op") in ("enc", "dec"):
        r = ctx.harness(binary, [dict(c, tail=c.get("tail", []))])[0]
        if "got" not in r:
            ctx.violation(dict(rec, result=r))
            return
        ev = enc_event(c, r) if c["op"] == "enc" else dec_event(c["bytes"], r)
        if ctx.tlc_trace("pack", "Varint_Trace", [ev]):
            ctx.violation({"kind": "header-trace", "case": c, "mismatch": ["event rejected by Varint_Trace"], "classes": ["trace"], "event": ev})
        return
    # delta / pack findings depend on a pack git has to write again: re-run the seeded pack section
    run(ctx)
