"""C49 - Status agrees with git status.

spec/worktree/Status.tla: index entries (mode, blob id, stat data, intent-to-add) against work tree nodes (type, exec
bit, content id, stat data, ignored flag): per tracked path D / A / T / M / clean with git's racy-git rule (matching
stat data are only believed for files older than the index file; smudged entries), and the untracked / ignored listing
for --untracked-files=no|normal|all with and without --ignored (directory collapsing, the replaced-file quirk).
SHA-1 and the ignore rules are uninterpreted here (ids from git hash-object, flags from git check-ignore; C37 owns
the ignore rules).
 A: Status_Gen enumerates scenarios (family "stat": every kind of tracked-path mutation x mtime class under
    core.checkStat=minimal/core.trustCtime=false; family "collapse": directories with absent / tracked / deleted /
    untracked / ignored children, ignored directories, a file replaced by a directory) with the expected reports for
    five queries.  All scenarios of a family are packed into one repository built with git (update-index, add -N,
    commit), mutated, the index file's mtime set; the world is read back (ls-files --debug, lstat, hash-object,
    check-ignore) and compared with the abstract one; gix::Repository::status runs once per query.
 B: the read-back worlds (real stat data, including a third repository with the "stat" recipes under the DEFAULT stat
    configuration) are judged by Status_Trace: what gix reported per scenario must be Report(W, q).
 C: `git status --porcelain=v2 [--ignored] --untracked-files=<m>` (GIT_OPTIONAL_LOCKS=0) audits the specification:
    against the Gen's expectation and, through Status_Trace, against the read-back worlds.
"""
import hashlib
import stat as statmod
from vf import *

LEVEL = "exploration"
META = {
    "technique": "TLA+ specification of index-vs-worktree status incl. racy-git and untracked/ignored collapsing; TLC enumerates mutation scenarios with expected reports; scenarios packed into git-built repositories, read back and compared; real read-back worlds judged by a TLC trace spec; git status --porcelain=v2 audit",
    "note": "Ignore matching (C37) and SHA-1 are data here. Conflicts, submodules, renames, filters/autocrlf, sparse index and fsmonitor are outside the model. Trusted: TLC, git 2.39.5 as reference.",
}
QUERIES = [("no", False), ("normal", False), ("all", False), ("normal", True), ("all", True)]
BUGS = ["no_racy_check", "replacing_dir_listed", "ignored_hidden_in_untracked_dir", "ignored_dirs_stay_collapsed", "deleted_entries_do_not_keep_dir",
        "dirwalk_several"]


def g(args, cwd, input=b"", env=None):
    p = git(["-c", "core.fsync=none", "-c", "init.defaultBranch=main"] + args, cwd=cwd, input=input, env=env)
    if p.returncode != 0:
        raise ToolError("git %s failed: %s" % (" ".join(args), p.stderr.decode("utf-8", "replace")[-300:]))
    return p.stdout


def blob_id(data):
    return hashlib.sha1(b"blob %d\0" % len(data) + data).hexdigest()


def content(tok, size):
    return (tok.encode() * size)[:size] if tok else b""


def rel(i, path):
    """abstract path <<"S", ...>> of scenario i -> repository-relative text"""
    return "/".join(["s%d" % i] + path[1:])


def put(world, p, st, tidx):
    full = os.path.join(world, p)
    os.makedirs(os.path.dirname(full), exist_ok=True)
    if st["t"] == "link":
        os.symlink(st["tok"], full)
    else:
        with open(full, "wb") as f:
            f.write(content(st["tok"], st["size"]))
        os.chmod(full, 0o755 if st["exec"] else 0o644)
    t = tidx + st["mtime"] - 100
    os.utime(full, ns=(t * 10**9, t * 10**9), follow_symlinks=False)


def build_world(ctx, name, scenarios, minimal):
    """one repository holding scenario i below s<i>/; returns (path, real time of the index file)"""
    world = os.path.join(ctx.work, name)
    g(["init", "-q", "--template=", world], cwd=ctx.work)
    if minimal:
        g(["config", "core.checkStat", "minimal"], cwd=world)
        g(["config", "core.trustCtime", "false"], cwd=world)
    tidx = int(time.time()) - 100000
    with open(world + "/.gitignore", "w") as f:
        f.write("*.o\nig/\n")
    add, ita = [".gitignore"], []
    for i, sc in scenarios:
        for f in sc["files"]:
            if f["before"]["present"]:
                put(world, rel(i, f["path"]), f["before"], tidx)
            if f["how"] in ("add", "force"):
                add.append(rel(i, f["path"]))
            elif f["how"] == "ita":
                ita.append(rel(i, f["path"]))
    g(["update-index", "--add", "--stdin"], cwd=world, input=("\n".join(add) + "\n").encode())
    if ita:
        g(["add", "-N", "--pathspec-from-file=-"], cwd=world, input=("\n".join(ita) + "\n").encode())
    g(["commit", "-q", "-m", "c"], cwd=world)
    # the mutations: only paths whose state changes are touched
    for i, sc in scenarios:
        for f in sorted(sc["files"], key=lambda f: len(f["path"])):
            b, a, p = f["before"], f["after"], os.path.join(world, rel(i, f["path"]))
            if b == a:
                continue
            if b["present"] and (not a["present"] or a["t"] != b["t"]):
                os.unlink(p)
            if not a["present"]:
                continue
            if b["present"] and a["t"] == b["t"] == "file":
                if (a["tok"], a["size"]) != (b["tok"], b["size"]):
                    with open(p, "r+b") as fh:          # in place: the inode stays
                        fh.write(content(a["tok"], a["size"]))
                        fh.truncate(a["size"])
                os.chmod(p, 0o755 if a["exec"] else 0o644)
                t = tidx + a["mtime"] - 100
                os.utime(p, ns=(t * 10**9, t * 10**9))
            else:
                if b["present"] and a["t"] == b["t"] == "link":
                    os.unlink(p)
                put(world, rel(i, f["path"]), a, tidx)
    for root, dirs, names in os.walk(world, topdown=False):      # directories emptied by deletions go away
        if "/.git" not in root + "/" and root != world and not os.listdir(root):
            os.rmdir(root)
    os.utime(world + "/.git/index", ns=(tidx * 10**9, tidx * 10**9))
    return world, tidx


def read_back(ctx, world, tidx):
    """the repository in the specification's vocabulary: (entries, nodes) with repository-relative text paths"""
    entries = []
    cur = None
    for line in g(["ls-files", "--stage", "--debug"], cwd=world).decode().splitlines():
        if not line.startswith("  "):
            meta, path = line.split("\t")
            mode, oid, stage = meta.split()
            if stage != "0":
                raise ToolError("unexpected stage in " + line)
            cur = {"path": path, "mode": {"100644": "file", "100755": "exec", "120000": "link"}[mode], "oid": oid}
            entries.append(cur)
        else:
            for k, v in re.findall(r"(\w+): (\S+)", line):
                if k in ("ctime", "mtime"):
                    cur[k] = int(v.split(":")[0]) - tidx + 100 if int(v.split(":")[0]) else 0
                elif k in ("ino", "size"):
                    cur[k] = int(v) % 2000000011
                elif k == "flags":
                    cur["ita"] = bool(int(v, 16) & 0x20000000)
    empty = blob_id(b"")
    for e in entries:
        e["emptyblob"] = e["oid"] == empty
        if e["ita"]:
            e["oid"] = ""
    nodes, files, asks = [], [], []
    for root, dirs, names in os.walk(world):
        if ".git" in dirs:
            dirs.remove(".git")
        for d in list(dirs):
            full = os.path.join(root, d)
            if os.path.islink(full):
                dirs.remove(d)
                names.append(d)
        for n in dirs + names:
            full = os.path.join(root, n)
            st = os.lstat(full)
            p = os.path.relpath(full, world)
            node = {"path": p, "exec": False, "oid": "", "size": 0, "mtime": 0, "ctime": 0, "ino": 0, "ign": False}
            if statmod.S_ISDIR(st.st_mode):
                node["t"] = "dir"
                asks.append(p + "/")
            else:
                node["t"] = "link" if statmod.S_ISLNK(st.st_mode) else "file"
                node["exec"] = node["t"] == "file" and bool(st.st_mode & 0o100)
                node["size"], node["mtime"], node["ctime"], node["ino"] = st.st_size, int(st.st_mtime) - tidx + 100, int(st.st_ctime) - tidx + 100, st.st_ino % 2000000011
                if node["t"] == "link":
                    node["oid"] = blob_id(os.readlink(full).encode())
                else:
                    files.append(node)
                asks.append(p)
            nodes.append(node)
    for node, oid in zip(files, g(["hash-object", "--no-filters", "--stdin-paths"], cwd=world, input=("\n".join(n["path"] for n in files) + "\n").encode()).decode().split()):
        node["oid"] = oid
    p = git(["check-ignore", "--no-index", "--stdin"], cwd=world, input=("\n".join(asks) + "\n").encode())
    ignored = set(x.rstrip("/") for x in p.stdout.decode().splitlines())
    for node in nodes:
        node["ign"] = node["path"] in ignored
    return entries, nodes


def split(items, what):
    """text path records -> {scenario index: records with abstract paths}"""
    out = {}
    for it in items:
        parts = it["path"].rstrip("/").split("/")
        if not re.fullmatch(r"s\d+", parts[0]):
            if it["path"] == ".gitignore" and what != "report":
                continue
            raise ToolError("unexpected top-level path in %s: %r" % (what, it))
        out.setdefault(int(parts[0][1:]), []).append(dict(it, path=["S"] + parts[1:]))
    return out


def key(x):
    return json.dumps(x, sort_keys=True)


def canon(report):
    return sorted(key({"code": r["code"], "path": r["path"], "dir": r["dir"]}) for r in report)


def git_status(world, untracked, ignored):
    # (renames are off: an intent-to-add path would otherwise be paired with a deleted path of another scenario)
    args = ["-c", "status.renames=false", "status", "--porcelain=v2", "--untracked-files=" + untracked] + (["--ignored"] if ignored else [])
    out = g(args, cwd=world, env={"GIT_OPTIONAL_LOCKS": "0"}).decode().splitlines()
    items = []
    for line in out:
        if line[0] == "1":
            f = line.split(" ", 8)
            if f[1][0] != ".":
                raise ToolError("index differs from HEAD: " + line)
            items.append({"code": f[1][1], "path": f[8], "dir": False})
        elif line[0] in "?!":
            items.append({"code": line[0], "path": line[2:].rstrip("/"), "dir": line.endswith("/")})
        else:
            raise ToolError("unexpected porcelain line: " + line)
    return items


def check_world(ctx, name, scenarios, entries, nodes, minimal):
    """rule 10: what was materialised is what the Gen described (stat identity fields are not part of the description)"""
    tok_oid = lambda st: "" if not st["present"] else blob_id(st["tok"].encode() if st["t"] == "link" else content(st["tok"], st["size"]))
    se, sn = split(entries, "index"), split(nodes, "work tree")
    for i, sc in scenarios:
        want_e = sorted(key({k: (tok_oid({"present": True, "t": "link" if e["mode"] == "link" else "file", "tok": e["oid"], "size": e["size"]}) if k == "oid" and not e["ita"] else e[k])
                             for k in ("path", "mode", "oid", "ita", "size", "mtime", "emptyblob")}) for e in sc["world"]["entries"])
        have_e = sorted(key({k: e[k] for k in ("path", "mode", "oid", "ita", "size", "mtime", "emptyblob")}) for e in se.get(i, []))
        want_n = sorted(key(dict({k: n[k] for k in ("path", "t", "exec", "size", "mtime", "ign")},
                                 oid="" if n["t"] == "dir" else tok_oid({"present": True, "t": n["t"], "tok": n["oid"], "size": n["size"]}))) for n in sc["world"]["nodes"])
        have_n = sorted(key({k: n[k] for k in ("path", "t", "exec", "size", "mtime", "ign", "oid")}) for n in sn.get(i, []))
        if want_e != have_e or want_n != have_n:
            raise ToolError("world %s scenario %d differs from its description: index %s / %s ; work tree %s / %s" % (
                name, i, [x for x in have_e if x not in want_e][:2], [x for x in want_e if x not in have_e][:2],
                [x for x in have_n if x not in want_n][:2], [x for x in want_n if x not in have_n][:2]))


def classify(ans, got):
    for name in BUGS:
        if canon(ans["bugs"][name]) == got and got != canon(ans["report"]):
            return [name]
    return ["other"]


def run_world(ctx, binary, name, scenarios, minimal, judged_by_gen):
    world, tidx = build_world(ctx, name, scenarios, minimal)
    entries, nodes = read_back(ctx, world, tidx)
    if judged_by_gen:
        check_world(ctx, name, scenarios, entries, nodes, minimal)
    ctx.log("world %s: %d scenarios, %d index entries, %d work tree nodes built with git and read back" % (name, len(scenarios), len(entries), len(nodes)))
    res = ctx.harness(binary, [{"repo": world, "untracked": u, "ignored": ig} for u, ig in QUERIES], timeout=3000)
    gits = [split(git_status(world, u, ig), "report") for u, ig in QUERIES]
    se, sn = split(entries, "index"), split(nodes, "work tree")
    bad = {}
    events_gix, events_git, owner = [], [], []
    for qi, (u, ig) in enumerate(QUERIES):
        r = res[qi]
        if "got" not in r:
            ctx.violation({"kind": "crash", "classes": ["crash"], "case": {"world": name, "query": [u, ig]}, "result": r})
            continue
        r["got"]["items"] = [it for it in r["got"]["items"] if it["code"] != "N"]      # stat refreshes are not part of the status
        if any(it["code"] in "EPKRSU" for it in r["got"]["items"]):
            ctx.violation({"kind": "crash", "classes": ["unexpected-item"], "case": {"world": name, "query": [u, ig]},
                           "items": [it for it in r["got"]["items"] if it["code"] in "EPKRSU"][:5]})
        gix = split([{"code": it["code"], "path": it["path"], "dir": it["dir"]} for it in r["got"]["items"]], "report")
        for i, sc in scenarios:
            ans = [a for a in sc["answers"] if a["q"] == {"untracked": u, "ignored": ig}][0]
            got, gg = canon(gix.get(i, [])), canon(gits[qi].get(i, []))
            if judged_by_gen:
                if gg != canon(ans["report"]):
                    ctx._dump("audit.json", json.dumps({"world": name, "files": sc["files"], "query": [u, ig], "git": gg, "spec": canon(ans["report"])}, indent=1))
                    audit_mismatch(ctx, "Status vs git status", {"world": name, "scenario": [["/".join(f["path"]), f["how"], f["after"]["present"]] for f in sc["files"]], "query": [u, ig],
                                                                        "git": [json.loads(x) for x in gg], "spec": [json.loads(x) for x in canon(ans["report"])]})
                if got != canon(ans["report"]):
                    cl = classify(ans, got)
                    rec = {"kind": "gen", "classes": cl, "case": {"fam": sc["fam"], "files": sc["files"], "query": {"untracked": u, "ignored": ig}, "minimal": minimal},
                           "observed": [json.loads(x) for x in got], "expected": [json.loads(x) for x in canon(ans["report"])]}
                    bad.setdefault((cl[0], u, ig), []).append(rec)
            base = {"entries": se.get(i, []), "nodes": sn.get(i, []), "trustctime": not minimal, "checkstat": not minimal, "filemode": True, "indexTs": 100,
                    "q": {"untracked": u, "ignored": ig}}
            if qi in (0, 3, 4):
                events_gix.append(dict(base, report=[json.loads(x) for x in got]))
                events_git.append(dict(base, report=[json.loads(x) for x in gg]))
                owner.append((i, qi))
            if ans["report"]:
                ctx.nontrivial(key([name, sc["files"], u, ig]))
    for k in sorted(bad):
        recs = sorted(bad[k], key=lambda r: len(key(r["case"])))
        ctx.log("DISAGREEMENT %s: class %s for -u%s%s in %d scenarios, e.g. %s -> observed %s expected %s" % (
            name, k[0], k[1], " --ignored" if k[2] else "", len(recs), [(("/".join(f["path"])), f["how"], f["after"]["present"]) for f in recs[0]["case"]["files"]],
            [(x["code"], "/".join(x["path"])) for x in recs[0]["observed"]], [(x["code"], "/".join(x["path"])) for x in recs[0]["expected"]]))
        ctx.violation(dict(recs[0], count=len(recs)))
    # binding C and B on the worlds as read back (real stat data)
    consts = {"BugNoRacy": "FALSE"}
    rej = ctx.tlc_trace("worktree", "Status_Trace", events_git, consts=consts)
    if rej:
        ev = events_git[rej[0]]
        audit_mismatch(ctx, "Status_Trace (git) on world " + name, {"q": ev["q"], "git": ev["report"], "entries": ev["entries"], "nodes": ev["nodes"]})
    ctx.cov["git_audited"] = ctx.cov.get("git_audited", 0) + len(events_git)
    rej = ctx.tlc_trace("worktree", "Status_Trace", events_gix, consts=consts)
    if rej:
        ctx.log("%s: Status_Trace rejects %d of %d gix reports" % (name, len(rej), len(events_gix)))
        rej = rej[:120]        # classification of a sample; every rejection is a violation of the same kind of record
        sub = [events_gix[k] for k in rej]
        expl = {}
        for cname, sw in (("no_racy_check", {"BugNoRacy": "TRUE"}), ("replacing_dir_listed", {"BugShowReplacing": "TRUE"}),
                          ("ignored_hidden_in_untracked_dir", {"BugHideIgnored": "TRUE"}), ("ignored_dirs_stay_collapsed", {"BugKeepDirs": "TRUE"}),
                          ("deleted_entries_do_not_keep_dir", {"BugDeleted": "TRUE"}),
                          ("dirwalk_several", {"BugShowReplacing": "TRUE", "BugHideIgnored": "TRUE", "BugKeepDirs": "TRUE", "BugDeleted": "TRUE"})):
            still = set(ctx.tlc_trace("worktree", "Status_Trace", sub, consts=sw))
            for j, k in enumerate(rej):
                if j not in still and k not in expl:
                    expl[k] = cname
        seen = {}
        for k in rej:
            seen.setdefault(expl.get(k, "other"), []).append(k)
        by_idx = dict(scenarios)
        for cname in sorted(seen):
            k = seen[cname][0]
            i, qi = owner[k]
            ctx.log("DISAGREEMENT %s (read-back world judged by Status_Trace): class %s, %d events" % (name, cname, len(seen[cname])))
            ctx.violation({"kind": "trace", "classes": [cname], "count": len(seen[cname]), "world_config": {"minimal": minimal},
                           "case": {"fam": by_idx[i]["fam"], "files": by_idx[i]["files"], "query": events_gix[k]["q"], "minimal": minimal},
                           "event": events_gix[k]})
    return len(scenarios)


def run(ctx):
    binary = ctx.build("vh-c49")
    cases = ctx.tlc_gen("worktree", "Status_Gen", consts={"Wide": "TRUE" if ctx.thorough else "FALSE"}, workers=6, timeout=3000)
    cases.sort(key=lambda c: key([c["fam"], c["files"]]))
    stat = [(i, c) for i, c in enumerate(cases) if c["fam"] == "stat"]
    coll = [(i, c) for i, c in enumerate(cases) if c["fam"] == "collapse"]
    n = run_world(ctx, binary, "stat-minimal", stat, True, True)
    n += run_world(ctx, binary, "collapse", coll, False, True)
    # the same recipes under the default stat configuration: ctime / inode take part, judged from the read-back world only
    n += run_world(ctx, binary, "stat-default", stat, False, False)
    mid = cases[len(cases) // 2]
    ctx.sample({"fam": mid["fam"], "files": [["/".join(f["path"]), f["how"], f["before"]["present"], f["after"]["present"]] for f in mid["files"]],
                "reports": [{"q": a["q"], "report": [(r["code"], "/".join(r["path"])) for r in a["report"]]} for a in mid["answers"]][:3]})
    ctx.cov["exhaustive"] = True
    ctx.cov["rule"] = ("%d scenarios enumerated by Status_Gen (stat: %d kinds of tracked-path mutation x mtime classes; collapse: children kinds of a "
                       "directory and its (ignored) subdirectory), x 5 queries (untracked no/normal/all, --ignored), materialised in 3 repositories; "
                       "the read-back worlds are judged again by Status_Trace. Non-trivial = the expected report of the scenario for the query is "
                       "not empty; distinct by (world, scenario, query)." % (len(cases), len({c["files"][0]["path"][-1] for c in cases})))
    ctx.assumptions += ["git 2.39.5 status --porcelain=v2 is the reference for the transcription (audited on every scenario and query)",
                        "ignore matching and SHA-1 are inputs (git check-ignore --no-index, git hash-object)",
                        "gix options: untracked_files(None|Collapsed|Files); --ignored = dirwalk emit_ignored(CollapseDirectory for normal, Matching for all)",
                        "git runs with GIT_OPTIONAL_LOCKS=0 after gix so that the index is not refreshed in between"]


def replay(ctx, rec):
    binary = ctx.build("vh-c49")
    c = rec["case"]
    cases = ctx.tlc_gen("worktree", "Status_Gen", consts={"Wide": "TRUE"}, workers=6, timeout=3000)
    match = [x for x in cases if x["fam"] == c["fam"] and key(sorted(x["files"], key=key)) == key(sorted(c["files"], key=key))]
    if not match:
        raise ToolError("replay: scenario not generated")
    run_world(ctx, binary, "replay", [(0, match[0])], c["minimal"], rec.get("kind") == "gen")
