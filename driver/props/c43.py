"""C43 - Content filters agree with git.

spec/worktree/Filter.tla transcribes git 2.39's convert.c: text statistics (gather_stats incl. the
trailing ^Z rule), convert_is_binary, the crlf_action resolved from text/crlf/eol/binary and
core.autocrlf/core.eol, crlf_to_git (auto rules, "index already has CRLF"), the core.safecrlf
round-trip verdict, crlf_to_worktree, ident collapse/expansion (count_ident, ident_to_git,
ident_to_worktree), pipeline order.
 A: Filter_Gen (all contents of <= N tokens x scenarios) and FilterAttr_Gen (every attribute/config
    combination x probe contents) print the spec's results; replayed through gix_filter::Pipeline
    (convert_to_git with round-trip check skipped and failing, convert_to_worktree) and eol::Stats.
 B: seeded random longer contents (crossing the printable/non-printable ratio) judged by Filter_Trace.
 C: the same cases are pushed through the installed git (`git add` with the index pre-seeded,
    core.safecrlf=warn warnings, `git checkout-index` of raw blobs) and must equal the spec.
Blob ids for $Id$ come from hashlib (SHA-1 is uninterpreted in the spec; placeholder digits 256).
"""
import collections
import hashlib
import os
import re
import shutil
from vf import *

LEVEL = "exploration"
META = {
    "technique": "TLA+ transcription of git's convert.c as executable operators; TLC enumerates contents x attribute/config scenarios with expected bytes (binding A), judges recorded conversions of random contents (binding B); audited against git add / checkout-index (binding C)",
    "note": "Judged: eol conversion both ways, safecrlf verdict, ident both ways, statistics. Worktree direction with ident is judged where git's streaming and in-memory ident code coincide and where gix-filter's documented deviation (no clean-up of stray expansions) is not involved. Not covered: external drivers, working-tree-encoding, Windows (native eol = LF assumed).",
}


def blob_hex(content):
    b = bytes(content)
    return hashlib.sha1(b"blob %d\0" % len(b) + b).hexdigest().encode()


def subst(seq, hexd):
    """replace the placeholder digits (256) of a spec result by the real hex digits"""
    out, k = [], 0
    for v in seq:
        if v == 256:
            out.append(hexd[k % 40])
            k += 1
        else:
            out.append(v)
    return out


def case_key(c):
    return json.dumps([c["content"], c["words"], c["cfg"], c["idx"]], sort_keys=True)


def exec_case(c):
    return {"content": c["content"], "words": c["words"], "cfg": c["cfg"], "idx": c["idx"]}


def judge(c, r):
    """binding A: executor observation vs the fields TLC printed for the case"""
    if "got" not in r:
        return ["conversion crashed: %s" % json.dumps(r)[:200]]
    g, bad = r["got"], []
    if "to_git_error" in g:
        bad.append("to_git: error " + g["to_git_error"])
    elif g["to_git"] != c["to_git"]:
        bad.append("to_git: got %r want %r" % (show_bytes(g["to_git"]), show_bytes(c["to_git"])))
    if g["verdict"] != c["verdict"]:
        bad.append("safecrlf: got %s want %s" % (g["verdict"], c["verdict"]))
    elif c["verdict"] == "none" and g["to_git_checked"] != c["to_git"]:
        bad.append("to_git(checked): got %r want %r" % (show_bytes(g["to_git_checked"]), show_bytes(c["to_git"])))
    if "to_wt_error" in g:
        bad.append("to_worktree: error " + g["to_wt_error"])
    elif c["wt_dom"]:
        want = subst(c["to_wt"], blob_hex(c["content"]))
        if g["to_wt"] != want:
            bad.append("to_worktree: got %r want %r" % (show_bytes(g["to_wt"]), show_bytes(want)))
    return bad


def event_of(c, r):
    g = r["got"]
    return {"content": c["content"], "attrs": c["attrs"], "cfg": c["cfg"], "idx": c["idx"],
            "hex": list(blob_hex(c["content"])), "to_git": g.get("to_git", [999]),
            "verdict": g["verdict"], "to_wt": g.get("to_wt", [999])}


def classify(ctx, events):
    """class of each rejected event = the Bug_* switch set of Filter.tla under which the specification
    explains it ('other' if none does). Only used to label violations; the verdict is the strict spec's."""
    if not events:
        return []
    path = os.path.join(ctx.work, "classify-%d.ndjson" % len(ctx.cov["tlc_runs"]))
    with open(path, "w") as f:
        for ev in events:
            f.write(json.dumps(ev, separators=(",", ":")) + "\n")
    out = ctx.tlc_gen("worktree", "Filter_Classify", tag="CLASS", workers=1, env={"TRACE": path}, timeout=3000)
    cls = ["other"] * len(events)
    for o in out:
        cls[o["i"] - 1] = o["class"]
    return cls


# ------------------------------------------------------------------ binding C
def audit(ctx, cases, label):
    """every spec result printed for the cases must be what the installed git does"""
    obs = git_observe(ctx, cases, label)
    n_smudge = 0
    for c, o in zip(cases, obs):
        ident = {"content": show_bytes(c["content"]), "words": c["words"], "cfg": c["cfg"], "idx": c["idx"]}
        if o["to_git"] != c["to_git"]:
            audit_mismatch(ctx, "Filter.ToGit", dict(ident, git=show_bytes(o["to_git"]), spec=show_bytes(c["to_git"])))
        if o["verdict"] != c["verdict"]:
            audit_mismatch(ctx, "Filter.SafeCrlf", dict(ident, git=o["verdict"], spec=c["verdict"]))
        if c["git_dom"]:
            want = subst(c["to_wt_git"], blob_hex(c["content"]))
            if o["to_wt"] != want:
                audit_mismatch(ctx, "Filter.ToWorktree", dict(ident, git=show_bytes(o["to_wt"]), spec=show_bytes(want)))
            n_smudge += 1
    ctx.log("audit %s: git agreed with the specification on %d stored contents and safecrlf verdicts, %d checkouts"
            % (label, len(cases), n_smudge))
    ctx.cov["git_audited"] = ctx.cov.get("git_audited", 0) + len(cases)


# ------------------------------------------------------------------ random contents (binding B)
TOKENS = [b"a", b"\n", b"\r\n", b"\r", b"\0", b"\x1a", b"$Id$", b"$Id: x $", b"$", b"Id", b":", b" ", b"\t", b"\x7f", b"\x01",
          b"$Id: a b c $", b"$Id:", b"line of text", b"\xc3\xa9", b"\x1b"]


def random_content(rng):
    kind = rng.random()
    parts = []
    if kind < 0.5:
        for _ in range(rng.randint(0, 14)):
            parts.append(rng.choice(TOKENS))
    else:
        # long mostly printable text, so that (printable >> 7) vs non-printable is decided near the boundary
        blocks = rng.randint(1, 2)
        for _ in range(blocks):
            parts.append(b"x" * rng.choice([120, 126, 127, 128, 129, 200]))
            parts.append(rng.choice([b"\n", b"\r\n", b"\n", b"$Id$\n"]))
            for _ in range(rng.randint(0, 3)):
                parts.append(rng.choice([b"\x01", b"\x7f", b"\x1a", b"\t", b"\n", b"\r\n"]))
        if rng.random() < 0.3:
            parts.append(b"\x1a")
    return b"".join(parts)


def run(ctx):
    binary = ctx.build("vh-c43")
    w = 6
    if ctx.thorough:
        cases = ctx.tlc_gen("worktree", "Filter_Gen", consts={"MaxToks": 4, "Scen": '"all"'}, workers=w)
        cases += ctx.tlc_gen("worktree", "Filter_Gen", consts={"MaxToks": 5, "Scen": '"core"'}, workers=w, timeout=3000)
        acases = ctx.tlc_gen("worktree", "FilterAttr_Gen", consts={"Wide": "TRUE"}, workers=w)
    else:
        cases = ctx.tlc_gen("worktree", "Filter_Gen", consts={"MaxToks": 3, "Scen": '"all"'}, workers=w)
        acases = ctx.tlc_gen("worktree", "FilterAttr_Gen", consts={"Wide": "FALSE"}, workers=w)
    seen, uniq = set(), []
    for c in cases + acases:
        k = case_key(c)
        if k not in seen:
            seen.add(k)
            uniq.append(c)
    cases = uniq
    ctx.cov["exhaustive"] = True
    results = ctx.harness(binary, [exec_case(c) for c in cases], timeout=1800)
    failing = []
    for c, r in zip(cases, results):
        bad = judge(c, r)
        if c["to_git"] != c["content"] or c["verdict"] != "none" or c["to_wt_git"] != c["content"] or (c["binary"] and c["action"].startswith("AUTO")):
            ctx.nontrivial(case_key(c))
        if bad:
            failing.append((c, r, bad))
    ctx.log("binding A: %d cases replayed, %d disagree with the specification" % (len(cases), len(failing)))
    ctx.sample({"content": show_bytes(cases[len(cases) // 2]["content"]), "words": cases[len(cases) // 2]["words"],
                "cfg": cases[len(cases) // 2]["cfg"], "spec_to_git": show_bytes(cases[len(cases) // 2]["to_git"]),
                "spec_verdict": cases[len(cases) // 2]["verdict"]})

    # binding C on the enumerated cases (small contents) ...
    small = [c for c in cases if len(c["content"]) <= (24 if ctx.thorough else 16)]
    limit = 40000 if ctx.thorough else 3000
    if len(small) > limit:
        small = ctx.rng.sample(small, limit)
    audit(ctx, small, "gen")

    # binding B: random contents under random attribute/config combinations (the words of an attribute
    # record are taken from the cases FilterAttr_Gen printed)
    combos = {}
    for c in acases:
        combos[json.dumps(c["attrs"], sort_keys=True)] = (c["attrs"], c["words"])
    combos = [combos[k] for k in sorted(combos)]
    idxs = [{"present": False, "data": []}, {"present": True, "data": list(b"x\r\ny\r\n")}, {"present": True, "data": list(b"x\n")},
            {"present": True, "data": list(b"x\r\n\0")}, {"present": True, "data": list(b"x\ry\r\n")}]
    n = 5000 if ctx.thorough else 300
    rnd = []
    for _ in range(n):
        attrs, words = ctx.rng.choice(combos)
        if ctx.rng.random() < 0.6:   # prefer the converting ones
            attrs, words = ctx.rng.choice([x for x in combos if x[0]["text"] in ("auto", "set") or x[0]["ident"] == "set"])
        rnd.append({"content": list(random_content(ctx.rng)), "attrs": attrs, "words": words,
                    "cfg": {"autocrlf": ctx.rng.choice(["false", "true", "input"]), "eol": ctx.rng.choice(["unset", "lf", "crlf"])},
                    "idx": ctx.rng.choice(idxs)})
    res = ctx.harness(binary, [exec_case(c) for c in rnd])
    events, owners = [], []
    for c, r in zip(rnd, res):
        if "got" not in r:
            ctx.violation({"kind": "crash", "case": c, "result": r, "classes": ["crash"], "content_text": show_bytes(c["content"])})
            continue
        events.append(event_of(c, r))
        owners.append((c, r))
    rejected = ctx.tlc_trace("worktree", "Filter_Trace", events, timeout=3000)
    ctx.log("binding B: %d random conversions judged by Filter_Trace, %d rejected" % (len(events), len(rejected)))
    for e in events:
        if e["to_git"] != e["content"] or e["to_wt"] != e["content"] or e["verdict"] != "none":
            ctx.nontrivial(json.dumps([e["content"], e["attrs"], e["cfg"], e["idx"]], sort_keys=True))

    # label and report the disagreements
    fevents = [event_of(c, r) for c, r, _ in failing if "got" in r] + [events[i] for i in rejected]
    labels = classify(ctx, fevents) if fevents else []
    li = 0
    for c, r, bad in failing:
        if "got" in r:
            cls = labels[li]
            li += 1
        else:
            cls = "crash"
        ctx.violation({"kind": "gen", "case": c, "content_text": show_bytes(c["content"]), "mismatch": bad, "classes": [cls],
                       "fields": sorted({b.split(":")[0] for b in bad}), "result": r})
    for i in rejected:
        c, r = owners[i]
        ctx.violation({"kind": "trace", "case": c, "content_text": show_bytes(c["content"]), "classes": [labels[li]],
                       "mismatch": ["event rejected by Filter_Trace"], "event": events[i]})
        li += 1
    counts = collections.Counter(v["classes"][0] for v in ctx.violations)
    for cls in sorted(counts):
        smallest = min((v for v in ctx.violations if v["classes"][0] == cls), key=lambda v: (len(v["case"]["content"]), len(v["case"]["words"])))
        ctx.log("class %s: %d disagreements; smallest: content=%r attrs=%s cfg=%s idx=%s -> %s" % (
            cls, counts[cls], smallest["content_text"], " ".join(smallest["case"]["words"]), json.dumps(smallest["case"]["cfg"]),
            show_bytes(smallest["case"]["idx"]["data"]) if smallest["case"]["idx"]["present"] else None, smallest["mismatch"]))
    ctx.cov["disagreement_classes"] = dict(counts)

    # ... and binding C on a part of the random ones: needs the spec's results, which the trace module judged
    # only for the implementation; so ask TLC for them through the acceptance of git's own observations.
    gsub = rnd[: (1500 if ctx.thorough else 150)]
    audit_random(ctx, gsub)

    ctx.cov["rule"] = ("A: every content of <= %d tokens over {a, LF, CRLF, CR, NUL, ^Z, $Id$, $Id: x $} under 15 scenarios (<= %d tokens under "
                       "the 6 core scenarios), and every attribute/config combination of FilterAttr_Gen x 4 probe contents; B: seeded random "
                       "contents (token soup and 120..600 byte texts). Non-trivial = some conversion changes the bytes, a safecrlf verdict is "
                       "raised, or auto-detection calls the content binary; distinct by (content, attributes, config, index blob)."
                       % ((4, 5) if ctx.thorough else (3, 3)))
    ctx.assumptions += ["git 2.39.5 (`git update-index --add`, `git checkout-index`, core.safecrlf=warn) is the reference for the transcription, audited on every run",
                        "native end of line is LF (not Windows)",
                        "worktree direction with `ident`: judged where git's streaming and in-memory ident filters coincide (auto actions, or every '$' opens a literal $Id$) and where gix-filter's documented deviation (stray expansions are not cleaned up) does not change the result",
                        "external filter drivers and working-tree-encoding are outside the property"]


def audit_random(ctx, rnd):
    """git's own observations on random cases are turned into events and judged by the same trace module
    (with stray clean-up = git's behaviour this is done by Filter_GitTrace)."""
    if not rnd:
        return
    obs = git_observe(ctx, rnd, "rnd")
    rej = ctx.tlc_trace("worktree", "Filter_GitTrace", obs, timeout=3000)
    ctx.cov["traces_validated_against_impl"] = max(0, ctx.cov["traces_validated_against_impl"] - 1)
    if rej:
        audit_mismatch(ctx, "Filter (random)", {"event": {k: (show_bytes(v) if isinstance(v, list) else v) for k, v in obs[rej[0]].items()}})
    ctx.log("audit random: Filter_GitTrace accepted git's results for %d random contents" % len(obs))
    ctx.cov["git_audited"] = ctx.cov.get("git_audited", 0) + len(obs)


def git_observe(ctx, cases, label):
    """what git stores / warns / checks out for the cases, as events for Filter_GitTrace"""
    bycfg = collections.defaultdict(list)
    for i, c in enumerate(cases):
        bycfg[json.dumps(c["cfg"], sort_keys=True)].append(i)
    out = [None] * len(cases)
    for ci, (cfgkey, members) in enumerate(sorted(bycfg.items())):
        cfg = json.loads(cfgkey)
        cs = [cases[i] for i in members]
        repo = os.path.join(ctx.work, "audit-%s-%d" % (label, ci))
        shutil.rmtree(repo, ignore_errors=True)
        os.makedirs(os.path.join(repo, "raw"))
        git(["init", "-q", "."], cwd=repo, check=True, timeout=1800)
        conf = ["-c", "core.autocrlf=" + cfg["autocrlf"], "-c", "core.safecrlf=warn", "-c", "core.fsync=none"]
        if cfg["eol"] != "unset":
            conf += ["-c", "core.eol=" + cfg["eol"]]
        groups, names = {}, []
        with open(os.path.join(repo, ".gitattributes"), "w") as f:
            for k, c in enumerate(cs):
                gk = " ".join(c["words"])
                if gk not in groups:
                    groups[gk] = len(groups)
                    f.write("[fg]%d_* %s\n" % (groups[gk], gk))
                names.append("%d_%d" % (groups[gk], k))
        rawlist = []
        for k, c in enumerate(cs):
            with open(os.path.join(repo, "raw", "c%d" % k), "wb") as f:
                f.write(bytes(c["content"]))
            rawlist.append("raw/c%d" % k)
            if c["idx"]["present"]:
                with open(os.path.join(repo, "raw", "i%d" % k), "wb") as f:
                    f.write(bytes(c["idx"]["data"]))
                rawlist.append("raw/i%d" % k)
        p = git(conf + ["hash-object", "-w", "--no-filters", "--stdin-paths"], cwd=repo, input=("\n".join(rawlist) + "\n").encode(), check=True, timeout=1800)
        ids = dict(zip(rawlist, p.stdout.decode().split()))
        info = []
        for k, c in enumerate(cs):
            info.append("100644 %s\tg%s\n" % (ids["raw/c%d" % k], names[k]))
            if c["idx"]["present"]:
                info.append("100644 %s\tf%s\n" % (ids["raw/i%d" % k], names[k]))
        git(conf + ["update-index", "--index-info"], cwd=repo, input="".join(info).encode(), check=True, timeout=1800)
        git(conf + ["checkout-index", "-f", "--stdin"], cwd=repo, input="".join("g%s\n" % n for n in names).encode(), check=True, timeout=1800)
        for k, c in enumerate(cs):
            with open(os.path.join(repo, "f" + names[k]), "wb") as f:
                f.write(bytes(c["content"]))
        p = git(conf + ["update-index", "--add", "--stdin"], cwd=repo, input="".join("f%s\n" % n for n in names).encode(), check=True, timeout=1800)
        warn = {}
        for m in re.finditer(r"in the working copy of 'f(\d+_\d+)', (CRLF|LF) will be replaced by (CRLF|LF)", p.stderr.decode("utf-8", "replace")):
            warn[m.group(1)] = "crlf_to_lf" if m.group(2) == "CRLF" else "lf_to_crlf"
        staged = {}
        for line in git(conf + ["ls-files", "-s"], cwd=repo, check=True, timeout=1800).stdout.decode().splitlines():
            meta, path = line.split("\t", 1)
            staged[path] = meta.split()[1]
        want_ids = [staged["f" + n] for n in names]
        batch = git(conf + ["cat-file", "--batch"], cwd=repo, input=("\n".join(want_ids) + "\n").encode(), check=True, timeout=1800).stdout
        pos = 0
        for k, c in enumerate(cs):
            nl = batch.index(b"\n", pos)
            size = int(batch[pos:nl].split()[2])
            stored = batch[nl + 1: nl + 1 + size]
            pos = nl + 1 + size + 1
            with open(os.path.join(repo, "g" + names[k]), "rb") as f:
                wt = f.read()
            out[members[k]] = ({"content": c["content"], "attrs": c["attrs"], "cfg": c["cfg"], "idx": c["idx"], "hex": list(blob_hex(c["content"])),
                        "to_git": list(stored), "verdict": warn.get(names[k], "none"), "to_wt": list(wt)})
        shutil.rmtree(repo, ignore_errors=True)
    return out


def replay(ctx, rec):
    binary = ctx.build("vh-c43")
    c = rec["case"]
    r = ctx.harness(binary, [exec_case(c)])[0]
    if "got" not in r:
        ctx.violation(dict(rec, result=r))
        return
    ev = event_of(c, r)
    if ctx.tlc_trace("worktree", "Filter_Trace", [ev]):
        cls = classify(ctx, [ev])
        ctx.violation({"kind": rec.get("kind", "trace"), "case": c, "content_text": show_bytes(c["content"]), "classes": cls,
                       "mismatch": rec.get("mismatch", ["event rejected by Filter_Trace"]), "event": ev})
