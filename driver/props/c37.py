"""C37 - Ignore decisions agree with git check-ignore.

spec/match/Ignore.tla (on Wildmatch.tla) transcribes dir.c: reading of ignore files (BOM, CRLF, comments,
trailing spaces), parse_path_pattern, match_basename / match_pathname (literal-prefix cut, ENDSWITH
shortcut), last-match-wins per file, precedence (.gitignore deepest first, info/exclude, core.excludesFile),
directory-only patterns, and the directory walk of prep_exclude (an ignored directory decides for all
below it; cannot re-include).  Result per path: (undecided | ignored | negated, file, line).
 A: Ignore_Gen enumerates every world of <= LMax lines over two families of files on a fixed tree and
    prints the spec's decision for 7 query paths x {case-sensitive, ignoreCase}; each world is
    materialised by the executor and asked through gix_worktree::Stack::at_entry().matching_exclude_pattern().
 B: seeded random worlds (random trees, random pattern lines incl. escapes, trailing spaces, CRLF, BOM,
    `**`, brackets); gitoxide's answers are judged by TLC (Ignore_Trace).
 C: the same worlds are materialised for the installed git and `git check-ignore -v -n --no-index`
    answers are judged by the same TLC module; a rejected git event is a tool error.
"""
import os
from vf import *

LEVEL = "exploration"
META = {
    "technique": "TLA+ transcription of git's exclude machinery (dir.c) on top of the wildmatch transcription, evaluated by TLC "
                 "(generator + trace judge); gix_worktree::Stack replayed on all enumerated and on seeded random worlds; "
                 "transcription audited against git check-ignore on every run",
    "note": "Lines using gitoxide's `$` precious-file syntax are outside the domain (documented extension). POSIX classes and "
            "case-folded bracket expressions are left to C36. Trusted: TLC, git 2.39.5.",
}


# ------------------------------------------------------------------ binding C: observe git
def tree_of(queries):
    """directories and files to create so that every query has the stated kind"""
    dirs, files = set(), set()
    for q in queries:
        p = bytes(q["p"])
        parts = p.split(b"/")
        for i in range(1, len(parts)):
            dirs.add(b"/".join(parts[:i]))
        (dirs if q["d"] else files).add(p)
    if dirs & files:
        raise ToolError("inconsistent tree: %r" % (dirs & files))
    return dirs, files


def materialise(root, world):
    dirs, files = tree_of(world["queries"])
    rootb = os.fsencode(root)
    os.makedirs(rootb, exist_ok=True)
    for d in sorted(dirs):
        os.makedirs(os.path.join(rootb, d), exist_ok=True)
    for f in files:
        open(os.path.join(rootb, f), "wb").close()
    for s in world["srcs"]:
        if s["kind"] == "dir" and s["content"]:
            d = os.path.join(rootb, bytes(s["base"])) if s["base"] else rootb
            os.makedirs(d, exist_ok=True)
            with open(os.path.join(d, b".gitignore"), "wb") as f:
                f.write(bytes(s["content"]))


def parse_check_ignore(out, npaths):
    f = out.split(b"\0")
    if len(f) != 4 * npaths + 1:
        raise ToolError("git check-ignore: %d fields for %d paths" % (len(f), npaths))
    return [f[4 * i:4 * i + 4] for i in range(npaths)]


def observe_git(ctx, worlds):
    """"git" events (two per world: core.ignoreCase off/on).  Worlds made of per-directory files only share
    one repository (world k lives below w<k>/) and two git processes; worlds with info/exclude or
    core.excludesFile get their own worktree and two processes each."""
    top = os.path.join(ctx.work, "audit-%d" % len(os.listdir(ctx.work)))
    os.makedirs(top)
    events = []
    batch = [w for w in worlds if all(s["kind"] == "dir" for s in w["srcs"])]
    single = [w for w in worlds if not all(s["kind"] == "dir" for s in w["srcs"])]
    if batch:
        repo = os.path.join(top, "batch")
        git(["init", "-q", repo], check=True)
        paths, owner = [], []
        for k, w in enumerate(batch):
            materialise(os.path.join(repo, "w%d" % k), w)
            for qi, q in enumerate(w["queries"]):
                paths.append(b"w%d/" % k + bytes(q["p"]))
                owner.append((k, qi))
        for icase in (False, True):
            r = git(["-c", "core.ignorecase=%s" % ("true" if icase else "false"), "check-ignore", "--no-index", "-z", "--stdin", "-v", "-n"],
                    cwd=repo, input=b"".join(p + b"\0" for p in paths), timeout=900)
            if r.returncode not in (0, 1):
                raise ToolError("git check-ignore failed: %s" % r.stderr.decode("utf-8", "replace")[-400:])
            res = [[None] * len(w["queries"]) for w in batch]
            for (k, qi), (src, line, _pat, path), p in zip(owner, parse_check_ignore(r.stdout, len(paths)), paths):
                if path != p:
                    raise ToolError("git check-ignore echoed %r for %r" % (path, p))
                res[k][qi] = decode_answer(batch[k], src, line, _pat, b"w%d/" % k)
            events += [{"k": "git", "srcs": w["srcs"], "queries": w["queries"], "icase": icase, "r": res[k]} for k, w in enumerate(batch)]
    if single:
        gd = os.path.join(top, "single.git")
        git(["init", "-q", "--bare", gd], check=True)
        for k, w in enumerate(single):
            wt = os.path.join(top, "s%d" % k)
            materialise(wt, w)
            info = b"".join(bytes(s["content"]) for s in w["srcs"] if s["kind"] == "info")
            with open(os.path.join(gd, "info", "exclude"), "wb") as f:
                f.write(info)
            glob = os.path.join(top, "s%d.global" % k)
            with open(glob, "wb") as f:
                f.write(b"".join(bytes(s["content"]) for s in w["srcs"] if s["kind"] == "global"))
            paths = [bytes(q["p"]) for q in w["queries"]]
            for icase in (False, True):
                r = git(["--git-dir=" + gd, "--work-tree=" + wt, "-c", "core.excludesFile=" + glob,
                         "-c", "core.ignorecase=%s" % ("true" if icase else "false"),
                         "check-ignore", "--no-index", "-z", "--stdin", "-v", "-n"], cwd=wt,
                        input=b"".join(p + b"\0" for p in paths))
                if r.returncode not in (0, 1):
                    raise ToolError("git check-ignore failed: %s" % r.stderr.decode("utf-8", "replace")[-400:])
                res = []
                for (src, line, _pat, path), p in zip(parse_check_ignore(r.stdout, len(paths)), paths):
                    if path != p:
                        raise ToolError("git check-ignore echoed %r for %r" % (path, p))
                    res.append(decode_answer(w, src, line, _pat, b"", glob=os.fsencode(glob)))
                events.append({"k": "git", "srcs": w["srcs"], "queries": w["queries"], "icase": icase, "r": res})
    shutil.rmtree(top, ignore_errors=True)
    return events


def decode_answer(world, src, line, pat, prefix, glob=None):
    """check-ignore -v fields -> [m, src index, line] (pure decoding of git's output)"""
    if not src:
        return [0, 0, 0]
    if glob is not None and src == glob:
        want = ("global", b"")
    elif src.endswith(b"info/exclude"):
        want = ("info", b"")
    else:
        if not src.startswith(prefix) or not (src == prefix + b".gitignore" or src.endswith(b"/.gitignore")):
            raise ToolError("git check-ignore: unexpected source %r" % src)
        base = src[len(prefix):-len(b".gitignore")].rstrip(b"/")
        want = ("dir", base)
    for i, s in enumerate(world["srcs"]):
        if s["kind"] == want[0] and bytes(s["base"]) == want[1]:
            return [2 if pat.startswith(b"!") else 1, i + 1, int(line)]
    raise ToolError("git check-ignore named a source that is not part of the world: %r" % src)


# ------------------------------------------------------------------ random worlds (binding B)
NAMES = [b"a", b"b", b"c", b"A", b"ab", b"a.c", b"#a", b"!a", b"a ", b"b.c", b"B"]
COMPS = [b"a", b"b", b"c", b"A", b"ab", b"a.c", b"*", b"**", b"a*", b"*b", b"?", b"[ab]", b"*.c", b"a?", b"B", b"[!a]", b"\\a", b"\\*"]
SPECIAL = [b"#a", b"\\#a", b"\\!a", b"!", b"/", b"a ", b"a\\ ", b"a  ", b"a \\", b"**", b"/**", b"**/", b"a**/b", b"a/**/b", b"**/a/**",
           b"a**", b"*", b"!*", b"*/", b"/*", b"!/*/", b"a/", b"!a/", b" ", b"", b"\\", b"a\\", b"ab/**c", b"a*/b", b"a/b**/c", b"!!a", b"a\t"]


def rnd_line(rng):
    if rng.random() < 0.3:
        return rng.choice(SPECIAL)
    s = b""
    if rng.random() < 0.2:
        s += b"!"
    if rng.random() < 0.25:
        s += b"/"
    s += b"/".join(rng.choice(COMPS) for _ in range(rng.choice([1, 1, 1, 2, 2, 3])))
    if rng.random() < 0.2:
        s += b"/"
    if rng.random() < 0.05:
        s += b" "
    return s


def rnd_world(rng, allow_global):
    # a random tree: every node is a directory or a file
    dirs = [b""]
    nodes = {}
    for _ in range(rng.randint(3, 7)):
        parent = rng.choice(dirs)
        if parent.count(b"/") >= 2 and parent:
            continue
        name = rng.choice(NAMES)
        p = (parent + b"/" + name) if parent else name
        if p in nodes:
            continue
        isdir = rng.random() < 0.5
        nodes[p] = isdir
        if isdir:
            dirs.append(p)
    if not nodes:
        nodes[b"a"] = False
    bases = [(("dir", d)) for d in dirs]
    if allow_global:
        bases += [("info", b""), ("global", b"")]
    chosen = rng.sample(bases, min(len(bases), rng.randint(1, 3)))
    if ("dir", b"") not in chosen and rng.random() < 0.5:
        chosen.append(("dir", b""))
    srcs = []
    for kind, base in chosen:
        eol = b"\r\n" if rng.random() < 0.1 else b"\n"
        content = b"".join(rnd_line(rng) + eol for _ in range(rng.randint(1, 4)))
        if rng.random() < 0.05:
            content = b"\xef\xbb\xbf" + content
        if rng.random() < 0.1:
            content = content.rstrip(b"\r\n")
        srcs.append({"kind": kind, "base": b2l(base), "content": b2l(content)})
    queries = [{"p": b2l(p), "d": d} for p, d in sorted(nodes.items())]
    rng.shuffle(queries)
    return {"srcs": srcs, "queries": queries}


# ------------------------------------------------------------------ the check
def got_vectors(world, r):
    """executor result -> (answers case-sensitive, answers ignoreCase) or None"""
    if "got" not in r:
        return None
    g = r["got"]
    if any(isinstance(x, dict) for x in g["cs"] + g["ic"]):
        return None
    return g["cs"], g["ic"]


class Collector:
    """keeps, per class signature, the smallest disagreeing (world, query) and counts the rest"""

    def __init__(self):
        self.by_sig = {}

    def add(self, kind, world, icase, qi, want, got, cs_agrees):
        q = world["queries"][qi]
        classes = ["decision" if (want[0] == 1) != (got[0] == 1) else "attribution", "spec-m%d-gix-m%d" % (want[0], got[0])]
        if icase and cs_agrees:
            classes.append("ignorecase-only")
        if any(s["kind"] != "dir" and s["content"] for s in world["srcs"]):
            classes.append("with-info-or-global")
        sig = tuple(classes)
        size = sum(len(s["content"]) for s in world["srcs"]) + len(q["p"])
        cur = self.by_sig.get(sig)
        if cur is None or size < cur[0]:
            rec = {"kind": kind, "case": {"srcs": world["srcs"], "queries": world["queries"]}, "query_index": qi, "icase": icase,
                   "path": show_bytes(q["p"]), "is_dir": q["d"],
                   "files": [{"kind": s["kind"], "base": show_bytes(s["base"]), "content": show_bytes(s["content"])}
                             for s in world["srcs"] if s["content"]],
                   "spec [m,src,line]": want, "gitoxide [m,src,line]": got, "classes": classes,
                   "count": cur[1]["count"] if cur else 0}
            self.by_sig[sig] = (size, rec)
            cur = self.by_sig[sig]
        cur[1]["count"] += 1

    def records(self):
        return [r for _s, r in sorted(self.by_sig.values(), key=lambda x: x[0])]


def run(ctx):
    binary = ctx.build("vh-c37")
    coll = Collector()
    fams = [{"LMax": 2, "Family": '"dirs"', "Small": "FALSE"}, {"LMax": 2, "Family": '"global"', "Small": "FALSE"}]
    if ctx.thorough:
        fams += [{"LMax": 3, "Family": '"dirs"', "Small": "TRUE"}, {"LMax": 3, "Family": '"global"', "Small": "TRUE"}]
    audit_worlds = []
    ctx.cov["exhaustive"] = True
    for consts in fams:
        cases = ctx.tlc_gen("match", "Ignore_Gen", consts=consts, timeout=3000)
        results = ctx.harness(binary, [{"srcs": c["srcs"], "queries": c["queries"]} for c in cases], timeout=3000)
        for c, r in zip(cases, results):
            gv = got_vectors(c, r)
            if gv is None:
                ctx.violation({"kind": "crash", "case": {"srcs": c["srcs"], "queries": c["queries"]}, "classes": ["crash"], "result": r})
                continue
            for icase in (0, 1):
                for qi, want in enumerate(c["res"][icase]):
                    w = [want["m"], want["src"], want["line"]]
                    if gv[icase][qi] != w:
                        w0 = c["res"][0][qi]
                        coll.add("gen", c, bool(icase), qi, w, gv[icase][qi], gv[0][qi] == [w0["m"], w0["src"], w0["line"]])
            ms = {x["m"] for x in c["res"][0]} | {x["m"] for x in c["res"][1]}
            if len(ms) > 1:
                ctx.nontrivial(json.dumps(c["lines"]))
        ctx.cov["queries"] = ctx.cov.get("queries", 0) + 2 * sum(len(c["queries"]) for c in cases)
        k = (250 if consts["Family"] == '"dirs"' else 40) if not ctx.thorough else (3000 if consts["Family"] == '"dirs"' else 250)
        audit_worlds += cases if len(cases) <= k else ctx.rng.sample(cases, k)
        mid = cases[len(cases) // 2]
        ctx.sample({"lines": [[x["f"], show_bytes(x["t"])] for x in mid["lines"]], "family": consts["Family"],
                    "spec": [[[r["m"], r["src"], r["line"]] for r in rr] for rr in mid["res"]]})

    # binding B: random worlds
    n = 160 if not ctx.thorough else 3000
    rnd = [rnd_world(ctx.rng, allow_global=(i % 4 == 0)) for i in range(n)]
    res = ctx.harness(binary, rnd, timeout=3000)
    events, owner = [], []
    for w, r in zip(rnd, res):
        gv = got_vectors(w, r)
        if gv is None:
            ctx.violation({"kind": "crash", "case": w, "classes": ["crash"], "result": r})
            continue
        for icase in (0, 1):
            events.append({"k": "gix", "srcs": w["srcs"], "queries": w["queries"], "icase": bool(icase), "r": gv[icase]})
            owner.append((w, icase, gv[icase], gv[0]))
        if any(x[0] for x in gv[0]):
            ctx.nontrivial(json.dumps(w["srcs"]))
    ctx.cov["queries"] += sum(len(e["queries"]) for e in events)
    ngix = len(events)
    gitev = observe_git(ctx, [{"srcs": c["srcs"], "queries": c["queries"]} for c in audit_worlds] + rnd)
    events += gitev
    rejected = ctx.tlc_trace("match", "Ignore_Trace", events, timeout=3000)
    gitbad = [i for i in rejected if i >= ngix]
    if gitbad:
        e = events[gitbad[0]]
        audit_mismatch(ctx, "Ignore", {"files": [[s["kind"], show_bytes(s["base"]), show_bytes(s["content"])] for s in e["srcs"]],
                                      "queries": [[show_bytes(q["p"]), q["d"]] for q in e["queries"]], "icase": e["icase"],
                                      "git": e["r"], "rejected": len(gitbad)})
    ctx.cov["git_audited"] = sum(len(e["queries"]) for e in gitev)
    ctx.log("audit: git check-ignore agreed with the specification on %d (world, path, case) observations" % ctx.cov["git_audited"])
    # a rejected gitoxide event: git's answers for the same world (just shown to equal the spec) locate the query
    gitans = {(json.dumps(e["srcs"]), json.dumps(e["queries"]), e["icase"]): e["r"] for e in gitev}
    for bi in rejected:
        if bi >= ngix:
            continue
        w, icase, got, got_cs = owner[bi]
        want = gitans.get((json.dumps(w["srcs"]), json.dumps(w["queries"]), bool(icase)))
        want_cs = gitans.get((json.dumps(w["srcs"]), json.dumps(w["queries"]), False))
        if want is None or want_cs is None:
            raise ToolError("no git observation for a rejected random world")
        hit = False
        for qi, (a, b) in enumerate(zip(want, got)):
            if a != b:
                coll.add("random", w, bool(icase), qi, a, b, want_cs[qi] == got_cs[qi])
                hit = True
        if not hit:
            raise ToolError("judge rejected a random world that agrees with git")
    for r in coll.records():
        ctx.violation(r)
    ctx.cov["rule"] = ("A: every world of <= LMax lines (runs: %s) x 7 query paths x 2 case modes; B: %d seeded random worlds x their "
                       "paths x 2 case modes. evaluations = worlds executed in gitoxide; queries = path decisions compared. "
                       "Non-trivial = a world in which paths get different decisions; distinct by content." % (json.dumps(fams), n))
    ctx.assumptions += ["git 2.39.5 is the reference: judged against `git check-ignore -v -n --no-index` on every run",
                        "lines with gitoxide's `$` (precious) syntax are outside the domain",
                        "is_dir is given to gitoxide as the entry mode; git takes it from the materialised tree"]


def replay(ctx, rec):
    binary = ctx.build("vh-c37")
    w = rec["case"]
    r = ctx.harness(binary, [w])[0]
    gv = got_vectors(w, r)
    if gv is None:
        ctx.violation(dict(rec, result=r))
        return
    evs = [{"k": "gix", "srcs": w["srcs"], "queries": w["queries"], "icase": bool(i), "r": gv[i]} for i in (0, 1)]
    if ctx.tlc_trace("match", "Ignore_Trace", evs):
        ctx.violation(dict(rec, gitoxide=gv, replayed=True))
