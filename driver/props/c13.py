"""C13 - Alternate object databases are resolved like git.

spec/odb/Alternates.tla: a world of object directories at different directory depths, each with an info/alternates
file of absolute / relative / ansi-c-quoted / commented lines. GitResolve transcribes git's link_alt_odb_entries
(depth first in file order, duplicates and the main directory skipped silently, relative entries joined to the
directory whose file names them, nesting limit 5). Verdict is what C13 demands of an implementation that reports
cycles: a true cycle reachable from the main directory is reported; otherwise the returned list contains git's list in
git's order, nothing that is not reachable through alternates, and the objects of the main directory and of git's
alternates (and of no unreachable directory) are readable through a store opened on the main directory.
 MC: Alternates_Gen checks the design on every enumerated world: the reference traversal Model (DFS with an ancestor
     chain) satisfies Verdict; with each Bug_* switch (the three slips of gix_odb::alternate::resolve at the pinned
     commit) TLC must refute it (self-test).
 A:  every enumerated world (graphs over 4 directories, fan-out <= 2, <= MaxEdges links, x layouts x writing styles) is
     materialised; gix_odb::alternate::resolve and gix_odb::at + lookups of one object per directory are observed.
 B:  the observations, and those on seeded random larger worlds (<= 8 directories, depth <= 5, fan-out <= 3, mixed
     styles), are judged by Alternates_Trace (Verdict evaluated by TLC from the world).
 C:  `git count-objects -v` (alternate: lines) and `git cat-file --batch-check` on the same worlds must be exactly
     GitResolve / its readable set (mismatch = tool error).
"""
import concurrent.futures
import hashlib
import os
import zlib
from vf import *

LEVEL = "exploration"
META = {
    "technique": "TLA+ transcription of git's alternates linking + design check of a cycle-reporting traversal by TLC; all enumerated worlds materialised and run through gix-odb; observations judged by a TLC trace spec; spec audited against git on every world",
    "note": "Exhaustive for alternates graphs over 4 directories (fan-out <= 2, bounded number of links) x 3 layouts x 4 entry styles as recorded in the evidence; larger worlds are sampled. Symlinked object directories and broken quoting are not generated. Trusted: TLC, git 2.39.5 as reference, the executor's mapping of returned paths to directories (std::fs::canonicalize).",
}


def blob(k):
    body = b"object of directory %d\n" % k
    raw = b"blob %d\x00" % len(body) + body
    return {"id": hashlib.sha1(raw).hexdigest(), "loose": b2l(zlib.compress(raw))}


OBJS = [blob(k) for k in range(1, 17)]


def obs_of(r, n):
    g = r["got"]
    res, st = g["resolve"], g["store"]
    kind = "ok" if "ok" in res else "cycle" if "cycle" in res else "err"
    return {"kind": kind, "list": res.get("ok", []), "opened": "readable" in st,
            "readable": st.get("readable", [False] * n)}


def labels(c, obs):
    """descriptive classes of a rejected observation (the verdict itself is TLC's)"""
    out = []
    req, allowed = c["required"], set(c["allowed"])
    if c["truecycle"]:
        return ["cycle-not-reported"]
    if obs["kind"] == "cycle":
        return ["cycle-reported-without-cycle"]
    if obs["kind"] == "err":
        return ["error"]
    lst = obs["list"]
    if any(x not in allowed for x in lst):
        out.append("directory-outside-alternates")
    if any(x not in lst for x in req):
        out.append("required-missing")
    elif [x for x in lst if x in req] != req and len([x for x in lst if x in req]) == len(req):
        out.append("order")
    rd = obs["readable"]
    if any(not rd[d - 1] for d in [c["root"]] + req):
        out.append("object-unreadable")
    if any(rd[d - 1] and d != c["root"] and d not in allowed for d in range(1, len(rd) + 1)):
        out.append("object-of-unreachable-directory-readable")
    return out or ["other"]


def to_harness(c, i, keep):
    return {"id": i, "root": c["root"], "paths": c["paths"], "files": c["lines"], "objs": OBJS[:len(c["paths"])], "keep": keep}


def event_of(c, obs):
    return {"paths": c["paths"], "files": c["files"], "root": c["root"], "obs": obs}


def git_view(ctx, tmpl, world, c):
    """binding C: git's alternates list and readable objects in the materialised world"""
    n = len(c["paths"])
    dirs = [os.path.join(world, *p) for p in c["paths"]]
    env = {"GIT_DIR": tmpl, "GIT_OBJECT_DIRECTORY": dirs[c["root"] - 1]}
    p = git(["count-objects", "-v"], env=env)
    alts = []
    for line in p.stdout.decode("utf-8", "replace").splitlines():
        if line.startswith("alternate: "):
            path = line[len("alternate: "):]
            if path.startswith('"'):
                raise ToolError("C13: quoted alternate path in git output: %s" % line)
            real = os.path.realpath(path)
            alts.append(dirs.index(real) + 1 if real in dirs else 0)
    q = git(["cat-file", "--batch-check"], env=env, input=("\n".join(o["id"] for o in OBJS[:n]) + "\n").encode())
    readable = [not l.endswith(" missing") for l in q.stdout.decode().splitlines()]
    return alts, readable


def run_worlds(ctx, binary, tmpl, cases, tag, audit=True, audit_share=1.0):
    """materialise, observe, judge by TLC, audit against git. cases carry paths/files/lines/root (+ expected fields or None)"""
    sample = set(range(len(cases)))
    if audit_share < 1.0:      # a process start costs up to 100 ms on a loaded machine: the quick tier audits a seeded sample
        sample = set(ctx.rng.sample(range(len(cases)), max(1, int(len(cases) * audit_share))))
    hc = [to_harness(c, i + (0 if tag == "a" else 1000000), audit and i in sample) for i, c in enumerate(cases)]
    results = ctx.harness(binary, hc, timeout=1800)
    events, owner = [], []
    for i, (c, r) in enumerate(zip(cases, results)):
        if "got" not in r:
            ctx.violation({"kind": "crash", "case": c, "classes": ["crash"], "result": r, "what": "resolve/open panicked or hung"})
            continue
        c["_obs"] = obs_of(r, len(c["paths"]))
        c["_world"] = r["got"]["world"]
        c["_raw"] = r["got"]["resolve"]
        events.append(event_of(c, c["_obs"]))
        owner.append(i)
    rejected = ctx.tlc_trace("odb", "Alternates_Trace", events)
    bad = {owner[bi] for bi in rejected}
    if audit:
        def one(i):
            c = cases[i]
            return i, git_view(ctx, tmpl, c["_world"], c)
        todo = [i for i, c in enumerate(cases) if "_world" in c and i in sample]
        with concurrent.futures.ThreadPoolExecutor(8) as ex:
            views = list(ex.map(one, todo))
        # git's view is judged by the same specification: it must be exactly GitResolve
        gev = []
        for i, (alts, readable) in views:
            c = cases[i]
            c["_git"] = {"alternates": alts, "readable": readable}
            if "required" in c:
                want_rd = [d == c["root"] or d in c["required"] for d in range(1, len(c["paths"]) + 1)]
                if alts != c["required"] or readable != want_rd:
                    audit_mismatch(ctx, "Alternates.GitResolve", {"graph": c.get("graph"), "layout": c.get("layout"), "style": c.get("style"),
                                                                  "git": c["_git"], "spec_required": c["required"]})
            gev.append({"paths": c["paths"], "files": c["files"], "root": c["root"], "alternates": alts, "readable": readable})
        if tag != "a" and gev:       # (gev holds the audited sample)
            rej = ctx.tlc_trace("odb", "Alternates_GitAudit", gev)
            if rej:
                i = views[rej[0]][0]
                audit_mismatch(ctx, "Alternates.GitResolve (random world)", {"paths": cases[i]["paths"], "files": cases[i]["files"], "git": cases[i]["_git"]})
        ctx.cov["git_audited"] = ctx.cov.get("git_audited", 0) + len(views)
    for i in sorted(bad):
        c = cases[i]
        pub = {k: v for k, v in c.items() if not k.startswith("_")}
        lab = labels(c, c["_obs"]) if "required" in c else ["random-world"]
        ctx.violation({"kind": "world", "case": pub, "classes": lab, "observed": c["_obs"], "resolve_raw": c["_raw"],
                       "git": c.get("_git"), "what": "gix_odb::alternate::resolve / store lookups disagree with the specification: %s" % ", ".join(lab)})
    return bad


# ------------------------------------------------------------------ random worlds (binding B)
def random_world(rng):
    import posixpath
    n = rng.randint(3, 8)
    names = ["r%d" % i for i in range(1, n + 1)]
    names[1] = "r 2"
    paths = []
    for i in range(n):
        depth = rng.randint(0, 3)
        paths.append([rng.choice(["n", "m", "k"]) for _ in range(depth)] + [names[i], "objects"])
    shape = rng.choice(["dag", "dag", "any", "chain"])
    files, lines = [], []
    for d in range(1, n + 1):
        es, ls = [], []
        if shape == "chain":
            targets = [d + 1] if d < n else []
        else:
            k = rng.choice([0, 1, 1, 2, 2, 3])
            pool = list(range(d + 1, n + 1)) if shape == "dag" else list(range(1, n + 1))
            targets = [rng.choice(pool) for _ in range(k)] if pool else []
        for t in targets:
            if rng.random() < 0.25:
                raw = rng.choice(["# comment", "", "#"])
                es.append({"t": 0, "rel": False, "q": False, "slash": False, "raw": raw})
                ls.append({"abs": False, "comps": [], "q": False, "slash": False, "raw": raw})
            rel, q, slash = rng.random() < 0.6, rng.random() < 0.3, rng.random() < 0.2
            es.append({"t": t, "rel": rel, "q": q, "slash": slash, "raw": ""})
            comps = paths[t - 1]
            if rel:
                comps = posixpath.relpath("/".join(paths[t - 1]), "/".join(paths[d - 1])).split("/")
            ls.append({"abs": not rel, "comps": comps, "q": q, "slash": slash, "raw": ""})
        files.append(es)
        lines.append(ls)
    return {"root": 1, "paths": paths, "files": files, "lines": lines, "shape": shape}


def run(ctx):
    binary = ctx.build("vh-c13")
    tmpl = os.path.join(ctx.work, "tmpl.git")
    git(["init", "-q", "--bare", tmpl], check=True)
    for bug in ("Bug_RelativeToRoot", "Bug_DupIsCycle", "Bug_ReverseOrder"):
        ctx.tlc_mc("odb", "Alternates_Gen", consts={bug: "TRUE", "MaxEdges": 2}, workers=2, expect_violation="InvDesign", coverage=False)
    consts = {"N": 4, "FanOut": 2, "MaxEdges": 5, "Full": "FALSE"} if ctx.thorough else {"N": 4, "FanOut": 2, "MaxEdges": 4, "Full": "FALSE"}
    cases = ctx.tlc_gen("odb", "Alternates_Gen", consts=consts, workers=6, timeout=3000)
    ctx.cov["exhaustive"] = True
    ctx.cov["instance"] = consts
    if ctx.thorough:    # every layout x style on the graphs of <= 4 links, six combinations on those of 5
        seen = {json.dumps([c["graph"], c["layout"], c["style"]]) for c in cases}
        more = ctx.tlc_gen("odb", "Alternates_Gen", consts={"N": 4, "FanOut": 2, "MaxEdges": 4, "Full": "TRUE"}, workers=6, timeout=3000)
        cases += [c for c in more if json.dumps([c["graph"], c["layout"], c["style"]]) not in seen]
    bad = run_worlds(ctx, binary, tmpl, cases, "a", audit_share=0.08 if ctx.thorough else 0.05)
    for c in cases:
        # non-trivial: more than one link is followed, or a cycle / duplicate has to be recognised
        if len(c["required"]) >= 2 or c["truecycle"] or sum(len(x) for x in c["graph"]) > len(c["required"]):
            ctx.nontrivial(json.dumps([c["graph"], c["layout"], c["style"]]))
    ctx.cov["shapes"] = {"true_cycle": sum(1 for c in cases if c["truecycle"]),
                         "acyclic_with_duplicates": sum(1 for c in cases if not c["truecycle"] and sum(len(x) for x in c["graph"]) > len(c["required"])),
                         "rejected": len(bad)}
    ok = next((c for c in cases if len(c["required"]) == 3 and not c["truecycle"]), cases[0])
    ctx.sample({"graph": ok["graph"], "layout": ok["layout"], "style": ok["style"], "git_list": ok["required"], "gix": ok.get("_obs")})

    nrand = 800 if ctx.thorough else 150
    rnd = [random_world(ctx.rng) for _ in range(nrand)]
    bad2 = run_worlds(ctx, binary, tmpl, rnd, "b", audit_share=0.5 if ctx.thorough else 1.0)
    for c in rnd:
        ctx.nontrivial(json.dumps([c["paths"], c["files"]]))
    ctx.cov["random_worlds"] = {"n": nrand, "rejected": len(bad2)}
    ctx.cov["rule"] = ("A: every alternates graph over 4 directories with fan-out <= %(FanOut)s and <= %(MaxEdges)s links whose files are reachable "
                       "from the main directory, x layouts x entry styles (Full=%(Full)s), enumerated by TLC. B: seeded random worlds of 3..8 "
                       "directories (DAGs, arbitrary graphs, chains beyond git's nesting limit). Non-trivial = at least two alternates "
                       "are linked, or a duplicate / cycle has to be recognised; distinct by graph, layout and style." % consts)
    ctx.assumptions += ["git 2.39.5 (`count-objects -v`, `cat-file --batch-check`) is the reference; it is compared with GitResolve on every world",
                        "a directed cycle reachable from the main directory must be reported as alternate::Error::Cycle (C13: 'reported rather than followed')",
                        "no symlinked object directories, no broken quoting, every named directory exists"]


def replay(ctx, rec):
    binary = ctx.build("vh-c13")
    tmpl = os.path.join(ctx.work, "tmpl.git")
    git(["init", "-q", "--bare", tmpl], check=True)
    run_worlds(ctx, binary, tmpl, [rec["case"]], "a")
