"""C48 - Revision specs resolve like git rev-parse.

spec/history/RevSpec.tla: semantics of revision specifications over an abstract repository (objects with
kinds/parents/trees/tag targets/message words/commit times, refs with git's DWIM rule list, reflogs, HEAD's
checkout log, index stages, abbreviation table): ref names, full and abbreviated hex (git's disambiguation by
operator hint), describe names, ~n ^n ^0 ^{type} ^{} ^{object} ^{/text} ^{/!-text} :path, @{n} @{-n}, :path
:n:path :/text, A..B A...B ^A A^@ A^! A^-n; result = rev | not | range | merge | parents | noparents | failure.
 A: the driver materialises a family of repositories with git (fast-import, hash-object for objects whose ids
    collide on 4 hex digits with a commit, update-ref transactions for reflogs, symbolic-ref for the checkout
    log, read-tree/update-index for index stages), reads them back with git plumbing into the abstract form,
    RevSpec_Gen enumerates base x nav x nav specs plus range forms with the expected result, vh-c48 runs
    gix::Repository::rev_parse on every text.
 C: `git cat-file --batch-check` resolves every single-revision text in one process, `git rev-parse <text> --` a
    sample of the multi-output forms; a disagreement with the specification is a tool error.
"""
import hashlib
from vf import *

LEVEL = "exploration"
META = {
    "technique": "TLA+ semantics of revision specifications over an abstract repository; TLC enumerates specs per base token with expected results; repositories built with git and read back with plumbing; git cat-file --batch-check / rev-parse audit",
    "note": "^{/text} and :/text are judged for plain words (substring semantics); @{date}, @{upstream}, @{push} are outside the domain. Trusted: TLC, git 2.39.5 as reference for the transcription.",
}
ENVBASE = {"GIT_AUTHOR_DATE": "1600009000 +0000", "GIT_COMMITTER_DATE": "1600009000 +0000"}


def g(args, cwd, input=b"", env=None):
    e = dict(ENVBASE)
    if env:
        e.update(env)
    p = git(["-c", "core.fsync=none", "-c", "init.defaultBranch=main", "-c", "core.abbrev=7"] + args, cwd=cwd, input=input, env=e)
    if p.returncode != 0:
        raise ToolError("git %s failed: %s" % (" ".join(args), p.stderr.decode("utf-8", "replace")[-300:]))
    return p.stdout


def obj_id(kind, body):
    return hashlib.sha1(b"%s %d\0" % (kind.encode(), len(body)) + body).hexdigest()


def collide(kind, make_body, prefix):
    """an object body of the given kind whose id starts with prefix (SHA-1 from hashlib, uninterpreted in the spec)"""
    for n in range(5000000):
        body = make_body(n)
        if obj_id(kind, body).startswith(prefix):
            return body
    raise ToolError("no colliding object found")


FAST_IMPORT = b"""blob
mark :1
data 4
one

blob
mark :2
data 4
two

blob
mark :3
data 6
three

commit refs/heads/main
mark :10
author A <a@x> 1600001000 +0000
committer C <c@x> 1600001000 +0000
data 8
add one

M 100644 :1 f
M 100644 :2 d/g

commit refs/heads/main
mark :11
author A <a@x> 1600002000 +0000
committer C <c@x> 1600002000 +0000
data 8
fix two

from :10
M 100644 :3 f

commit refs/heads/dev
mark :12
author A <a@x> 1600002500 +0000
committer C <c@x> 1600002500 +0000
data 10
add three

from :10
M 100644 :2 h

commit refs/heads/main
mark :13
author A <a@x> 1600003000 +0000
committer C <c@x> 1600003000 +0000
data 9
zap four

from :11
merge :12

commit refs/heads/main
mark :14
author A <a@x> 1600004000 +0000
committer C <c@x> 1600004000 +0000
data 9
fix five

from :13
M 100644 :1 d/k

tag v1
from :11
tagger T <t@x> 1600002100 +0000
data 7
tag v1

reset refs/tags/lt
from :10

reset refs/heads/x
from :12

reset refs/tags/x
from :10

reset refs/remotes/origin/main
from :13

"""


def build_repo(ctx, name, variant):
    """variant 'attached': HEAD on main, loose refs; 'detached': HEAD detached at dev's commit, refs packed"""
    d = os.path.join(ctx.work, name)
    g(["init", "-q", "--template=", d], cwd=ctx.work)
    marks = os.path.join(ctx.work, name + ".marks")
    g(["fast-import", "--quiet", "--export-marks=" + marks], cwd=d, input=FAST_IMPORT)
    m = dict(l.split() for l in open(marks).read().splitlines())
    c1, c2, c3, c4, c5 = (m[":%d" % i] for i in range(10, 15))
    b1 = m[":1"]
    t1 = g(["rev-parse", "refs/tags/v1"], cwd=d).decode().strip()
    # objects written from bytes whose SHA-1 was computed here
    tree1 = g(["rev-parse", c1 + "^{tree}"], cwd=d).decode().strip()
    bodies = [
        ("tag", b"object %s\ntype tag\ntag vv\ntagger T <t@x> 1600002200 +0000\n\ntag of tag\n" % t1.encode()),
        ("tag", b"object %s\ntype blob\ntag bt\ntagger T <t@x> 1600002300 +0000\n\ntag of blob\n" % b1.encode()),
        ("tag", b"object %s\ntype tree\ntag tt\ntagger T <t@x> 1600002400 +0000\n\ntag of tree\n" % tree1.encode()),
        # a blob sharing 4 hex digits with commit c3, a commit sharing 4 with c2, a blob sharing 4 with the tag object v1,
        # a blob sharing 4 with tree1
        ("blob", collide("blob", lambda n: b"collide-c3 %d\n" % n, c3[:4])),
        ("commit", collide("commit", lambda n: b"tree %s\nauthor A <a@x> 1600000500 +0000\ncommitter C <c@x> 1600000500 +0000\n\nnonce %d\n" % (tree1.encode(), n), c2[:4])),
        ("blob", collide("blob", lambda n: b"collide-t1 %d\n" % n, t1[:4])),
        ("blob", collide("blob", lambda n: b"collide-tree %d\n" % n, tree1[:4])),
    ]
    ids = []
    for kind, body in bodies:
        got = g(["hash-object", "-t", kind, "-w", "--stdin"], cwd=d, input=body).decode().strip()
        if got != obj_id(kind, body):
            raise ToolError("hash-object disagrees with hashlib")
        ids.append(got)
    vv, bt, tt, bx, cz, by, bz = ids
    hexname = c2[:6]
    tx = b""
    for ref, val in (("refs/tags/vv", vv), ("refs/tags/bt", bt), ("refs/tags/tt", tt), ("refs/heads/" + hexname, c3), ("refs/heads/zz", cz)):
        tx += b"create %s %s\n" % (ref.encode(), val.encode())
    g(["update-ref", "--stdin"], cwd=d, input=tx)
    # a branch with a three-entry reflog (one transaction per entry)
    tx = b""
    for val in (c1, c2, c4):
        tx += b"start\nupdate refs/heads/rl %s\nprepare\ncommit\n" % val.encode()
    g(["update-ref", "--create-reflog", "-m", "step", "--stdin"], cwd=d, input=tx)
    g(["symbolic-ref", "refs/remotes/origin/HEAD", "refs/remotes/origin/main"], cwd=d)
    # HEAD's checkout history: main -> dev -> x -> main
    g(["symbolic-ref", "-m", "checkout: moving from main to dev", "HEAD", "refs/heads/dev"], cwd=d)
    g(["symbolic-ref", "-m", "checkout: moving from dev to rl", "HEAD", "refs/heads/rl"], cwd=d)
    g(["symbolic-ref", "-m", "checkout: moving from rl to main", "HEAD", "refs/heads/main"], cwd=d)
    g(["read-tree", "main"], cwd=d)
    g(["update-index", "--index-info"], cwd=d, input=b"100644 %s 1\tcf\n100644 %s 2\tcf\n100644 %s 3\tcf\n" % (m[":1"].encode(), m[":2"].encode(), m[":3"].encode()))
    if variant == "detached":
        g(["pack-refs", "--all"], cwd=d)
        g(["update-ref", "--no-deref", "-m", "checkout: moving from main to " + c3, "HEAD", c3], cwd=d)
    named = {"c1": c1, "c2": c2, "c3": c3, "c4": c4, "c5": c5, "t1": t1, "vv": vv, "bt": bt, "tt": tt, "bx": bx, "cz": cz, "by": by, "bz": bz,
             "b1": b1, "tree1": tree1, "hexname": hexname}
    return d, named


def read_repo(ctx, name, d, named):
    """the repository in the specification's vocabulary, read back with git plumbing"""
    raw = g(["cat-file", "--batch-all-objects", "--batch", "--unordered"], cwd=d)
    objs = {}
    i = 0
    while i < len(raw):
        nl = raw.index(b"\n", i)
        oid, kind, size = raw[i:nl].decode().split()
        body = raw[nl + 1: nl + 1 + int(size)]
        i = nl + 1 + int(size) + 1
        o = {"kind": kind, "parents": [], "tree": "", "target": "", "words": [], "time": 0, "entries": {}}
        if kind == "commit":
            head, _, msg = body.partition(b"\n\n")
            for line in head.decode().split("\n"):
                k, _, v = line.partition(" ")
                if k == "tree":
                    o["tree"] = v
                elif k == "parent":
                    o["parents"].append(v)
                elif k == "committer":
                    o["time"] = int(v.split()[-2])
            o["words"] = msg.decode().split()
        elif kind == "tag":
            o["target"] = body.decode().split("\n")[0].split()[1]
        elif kind == "tree":
            j = 0
            while j < len(body):
                sp = body.index(b" ", j)
                nul = body.index(b"\0", sp)
                mode = body[j:sp].decode()
                o["entries"][body[sp + 1:nul].decode()] = {"id": body[nul + 1:nul + 21].hex(), "kind": "tree" if mode == "40000" else "blob"}
                j = nul + 21
        objs[oid] = o
    refs = {}
    for line in g(["for-each-ref", "--format=%(refname) %(objectname) %(symref)"], cwd=d).decode().splitlines():
        parts = line.split(" ")
        refs[parts[0]] = {"sym": bool(parts[2]), "to": parts[2] or parts[1]}
    p = git(["symbolic-ref", "-q", "HEAD"], cwd=d)
    if p.returncode == 0:
        refs["HEAD"] = {"sym": True, "to": p.stdout.decode().strip()}
    else:
        refs["HEAD"] = {"sym": False, "to": g(["rev-parse", "HEAD"], cwd=d).decode().strip()}
    reflog, headlog = {}, []
    logs = os.path.join(d, ".git", "logs")
    for root, _dirs, files in os.walk(logs):
        for f in files:
            full = os.path.relpath(os.path.join(root, f), logs)
            lines = open(os.path.join(root, f)).read().splitlines()
            reflog[full] = [l.split(" ")[1] for l in reversed(lines)]
            if full == "HEAD":
                for l in reversed(lines):
                    msg = l.partition("\t")[2]
                    co = msg.startswith("checkout: moving from ")
                    headlog.append({"new": l.split(" ")[1], "checkout": co, "from": msg[len("checkout: moving from "):].split(" to ")[0] if co else ""})
    index = {}
    for line in g(["ls-files", "-s"], cwd=d).decode().splitlines():
        meta, path = line.split("\t")
        _mode, oid, stage = meta.split()
        index.setdefault(path, {})[stage] = oid
    n = named
    hexes = [n["c5"], n["c5"][:7], n["b1"][:7], n["t1"][:8], n["tree1"][:7], n["c3"][:4], n["c2"][:4], n["t1"][:4], n["tree1"][:4],
             n["hexname"], "dead", n["bx"][:9]]
    abbrev = {}
    for h in set(hexes + [n["c3"][:7], n["c2"][:7], n["bx"][:7]]):
        if len(h) < 40:
            abbrev[h] = sorted(o for o in objs if o.startswith(h))
    alpha = {
        "names": ["main", "dev", "HEAD", "@", "v1", "lt", "vv", "bt", "tt", "x", "heads/x", "refs/heads/main", "origin", "origin/main", "rl", "zz", "nosuch"],
        "hexes": hexes,
        "descs": [{"text": "v1-2", "hex": n["c5"][:7]}, {"text": "anything", "hex": n["c3"][:4]}, {"text": "v1-1", "hex": n["b1"][:7]},
                  {"text": "x", "hex": n["c2"][:4]}, {"text": "x", "hex": "dead"}],
        "idx": [{"stage": "", "path": "f"}, {"stage": "0", "path": "d/g"}, {"stage": "1", "path": "cf"}, {"stage": "2", "path": "cf"},
                {"stage": "", "path": "cf"}, {"stage": "", "path": "nosuch"}, {"stage": "1", "path": "f"}],
        "words": ["fix", "add", "zap", "nomatch", "two"],
        "paths": [["f"], ["d"], [], ["d", "g"], ["nosuch"], ["f", "x"]],
        "operands": ["main", "dev", "v1", "nosuch", "bt"],
        "ophexes": [n["c3"][:4], n["c2"][:4], n["c2"][:7]],
    }
    return {"name": name, "objs": objs, "refs": refs, "reflog": reflog, "headlog": headlog, "index": index, "abbrev": abbrev, "alpha": alpha}


def batch_check(ctx, d, texts):
    p = git(["cat-file", "--batch-check"], cwd=d, input=("\n".join(texts) + "\n").encode())
    out = p.stdout.decode().splitlines()
    if p.returncode != 0 and len(out) < len(texts):
        audit_mismatch(ctx, "RevSpec vs git cat-file --batch-check", {"text": texts[len(out)], "git": "dies: " + p.stderr.decode("utf-8", "replace")[-200:],
                                                                     "spec": "expected to resolve"})
    if len(out) != len(texts):
        raise ToolError("cat-file --batch-check returned %d lines for %d names" % (len(out), len(texts)))
    return out


def rev_parse(d, text):
    p = git(["rev-parse", text, "--"], cwd=d, input=b"")
    if p.returncode != 0:
        return None
    lines = p.stdout.decode().splitlines()
    if lines and lines[-1] == "--":
        lines = lines[:-1]
    return lines


def judge(s, r):
    if "got" not in r:
        return "rev_parse crashed: %s" % json.dumps(r)[:200]
    o = r["got"]
    if o["ok"] != s["ok"]:
        return "gix %s, git %s" % ("resolves it (%s %s %s)" % (o.get("kind"), o.get("a", "")[:8], o.get("b", "")[:8]) if o["ok"] else "fails: " + o.get("err", "")[:120],
                                   "resolves it (%s %s %s)" % (s["kind"], s["a"][:8], s["b"][:8]) if s["ok"] else "fails")
    if o["ok"] and (o["kind"], o["a"], o["b"]) != (s["kind"], s["a"], s["b"]):
        return "gix: %s %s %s, git: %s %s %s" % (o["kind"], o["a"][:10], o["b"][:10], s["kind"], s["a"][:10], s["b"][:10])
    return None


def shape(text, named):
    """the spec text with object names replaced by their roles (stable across runs, for matchers)"""
    for k, v in sorted(named.items(), key=lambda kv: kv[0]):
        for ln in (40, 9, 8, 7, 6, 4):
            if len(v) >= ln:
                text = re.sub(r"(?<![0-9a-f])" + v[:ln] + r"(?![0-9a-f])", "<%s:%d>" % (k, ln), text)
    return text


def run_repos(ctx, binary, variants):
    repos, named, dirs = [], {}, {}
    for name, variant in variants:
        d, n = build_repo(ctx, name, variant)
        repos.append(read_repo(ctx, name, d, n))
        named[name], dirs[name] = n, d
    path = os.path.join(ctx.work, "repos.ndjson")
    with open(path, "w") as f:
        for r in repos:
            f.write(json.dumps(r) + "\n")
    ctx.log("built and read back %d repositories (%d objects each)" % (len(repos), len(repos[0]["objs"])))
    cases = ctx.tlc_gen("history", "RevSpec_Gen", consts={"Wide": "TRUE" if ctx.thorough else "FALSE"}, env={"REPOS": path}, workers=6, timeout=3000)
    flat = []
    for c in cases:
        for s in c["specs"]:
            flat.append((c["repo"], s))
    flat.sort(key=lambda x: (x[0], x[1]["text"], x[1]["form"]))
    results = ctx.harness(binary, [{"repo": dirs[r], "spec": s["text"]} for r, s in flat], timeout=3000)

    # binding C: every single-revision text through one cat-file process per repository
    audited = 0
    for name in dirs:
        # (git DIES on a reflog index that is out of range, which ends the batch: reflog specs the specification expects
        #  to fail go to rev-parse below, one process each)
        dies = lambda s: "@{" in s["text"] and not s["ok"]
        single = [s for r, s in flat if r == name and s["form"] == "rev" and s["text"] and not dies(s)]
        for s, line in zip(single, batch_check(ctx, dirs[name], [s["text"] for s in single])):
            ok = not (line.endswith(" missing") or line.endswith(" ambiguous"))
            if ok != s["ok"] or (ok and line.split()[0] != s["a"]):
                audit_mismatch(ctx, "RevSpec vs git cat-file --batch-check", {"repo": name, "text": s["text"], "git": line, "spec": s})
            audited += 1
        multi = [s for r, s in flat if r == name and s["form"] != "rev"]
        stride = max(1, len(multi) // (400 if ctx.thorough else 60))
        dying = [s for r, s in flat if r == name and s["form"] == "rev" and dies(s)]
        for s in multi[::stride] + dying[::max(1, len(dying) // (60 if ctx.thorough else 10))]:
            lines = rev_parse(dirs[name], s["text"])
            if lines is not None and s["kind"] == "merge":
                lines = [l for l in lines if not l.startswith("^")]
            if (lines is not None) != s["ok"] or (s["ok"] and lines != s["lines"]):
                audit_mismatch(ctx, "RevSpec vs git rev-parse", {"repo": name, "text": s["text"], "git": lines, "spec": s})
            audited += 1
    ctx.log("audit: git agreed with the specification on %d specs" % audited)
    ctx.cov["git_audited"] = ctx.cov.get("git_audited", 0) + audited

    bad = {}
    for (rname, s), r in zip(flat, results):
        if not s["ok"] or s["form"] != "rev" or any(ch in s["text"] for ch in "~^:@"):
            ctx.nontrivial(rname + " " + s["text"])
        why = judge(s, r)
        if why:
            sh = shape(s["text"], named[rname])
            rec = {"kind": "gen", "classes": [s["cls"]], "case": {"repo": rname, "spec": s}, "shape": sh,
                   "direction": "crash" if "got" not in r else "gix-fails" if not r["got"]["ok"] else "gix-resolves" if not s["ok"] else "different-object",
                   "mismatch": why, "result": r.get("got", r)}
            bad.setdefault(rec["classes"][0], []).append(rec)
    for cl in sorted(bad, key=lambda c: (len(c), c)):
        first = min(bad[cl], key=lambda r: (len(r["case"]["spec"]["text"]), r["case"]["spec"]["text"]))
        ctx.violation(dict(first, count=len(bad[cl])))
        ctx.log("DISAGREEMENT class %s (%d specs), e.g. %s: %s" % (cl, len(bad[cl]), first["shape"], first["mismatch"].split("\n")[0][:150]))
    mid = flat[len(flat) // 2]
    ctx.sample({"repo": mid[0], "spec": mid[1]["text"], "expected": {k: mid[1][k] for k in ("ok", "kind", "a", "b")}})
    tokens = {c["repo"]: c["tokens"] for c in cases if "tokens" in c}
    nrand = run_random(ctx, binary, repos, dirs, tokens, path, 4000 if ctx.thorough else 600)
    return len(repos), len(flat), nrand


def random_specs(ctx, tokens, n):
    """abstract syntax trees composed from the specification's token vocabulary, with their text"""
    rng = ctx.rng
    bases = sorted(tokens["bases"], key=lambda b: b["text"])
    navs = sorted(tokens["navs"], key=lambda x: x["text"])
    reflogs = sorted(tokens["reflogs"], key=lambda x: x["text"])
    priors = sorted(tokens["priors"], key=lambda x: x["text"])
    empty = {"b": "empty", "name": "", "hex": "", "stage": "", "path": "", "word": "", "neg": False, "text": ""}

    def rev(maxnav):
        r = rng.random()
        if r < 0.06:
            base, ns = empty, [rng.choice(reflogs + priors)]
        else:
            base, ns = rng.choice(bases), []
            if base["b"] == "ref" and rng.random() < 0.15:
                ns.append(rng.choice(reflogs))
        # git quirk kept out of the domain: when a spec containing "@{" and ending in "}" fails to parse, git retries it as
        # <ref>@{<approxidate of everything up to the last brace>}; after a reflog token only brace-less operators follow
        pool = [x for x in navs if not x["text"].endswith("}")] if ns else navs
        for _ in range(rng.randint(0, maxnav)):
            nv = rng.choice(pool)
            ns.append(nv)
            if nv["n"] == "path":
                break
        return {"base": base, "navs": ns}, base["text"] + "".join(x["text"] for x in ns)

    out = []
    for _ in range(n):
        f = rng.random()
        nothing = {"base": empty, "navs": []}
        if f < 0.7:
            a, t = rev(4)
            out.append(({"form": "rev", "a": a, "b": nothing, "k": 0}, t))
        elif f < 0.8:
            (a, ta), (b, tb) = rev(2), rev(2)
            form, sep = rng.choice([("range", ".."), ("merge", "...")])
            # (git quirk kept out of the domain: a range text that fails is retried as ONE revision, where a right side
            #  starting with <anything>-g<hex> swallows the left side as describe prefix)
            if (ta or tb or form == "merge") and b["base"]["b"] != "desc":
                out.append(({"form": form, "a": a, "b": b, "k": 0}, ta + sep + tb))
        else:
            a, t = rev(2)
            if not t or a["navs"] and a["navs"][-1]["n"] == "path":
                continue
            form, text, k = rng.choice([("not", "^" + t, 0), ("parents", t + "^@", 0), ("noparents", t + "^!", 0), ("minus", t + "^-", 1),
                                        ("minus", t + "^-2", 2)])
            out.append(({"form": form, "a": a, "b": nothing, "k": k}, text))
    def quirky(t):
        # ends in "}" and that brace does not close the last "@{": the approxidate retry described above
        return "@{" in t and t.endswith("}") and "}" in t[t.rindex("@{"):-1]
    return [x for x in out if x[1] and not quirky(x[1])]


def run_random(ctx, binary, repos, dirs, tokens, path, n):
    specs = []
    for ri, r in enumerate(repos):
        for ast, text in random_specs(ctx, tokens[r["name"]], n):
            specs.append((ri, ast, text))
    results = ctx.harness(binary, [{"repo": dirs[repos[ri]["name"]], "spec": text} for ri, ast, text in specs], timeout=3000)
    # audit: single revisions without a reflog operator through cat-file, a sample of the others through rev-parse
    gitev = []
    for ri, r in enumerate(repos):
        single = [(ast, text) for i, ast, text in specs if i == ri and ast["form"] == "rev" and "@{" not in text]
        p = git(["cat-file", "--batch-check"], cwd=dirs[r["name"]], input=("\n".join(t for _, t in single) + "\n").encode())
        lines = p.stdout.decode().splitlines()
        if len(lines) != len(single):
            raise ToolError("cat-file --batch-check ended early at %r: %s" % (single[len(lines)][1] if len(lines) < len(single) else "?", p.stderr.decode()[-200:]))
        for (ast, text), line in zip(single, lines):
            ok = not (line.endswith(" missing") or line.endswith(" ambiguous"))
            gitev.append({"repo": ri + 1, "spec": ast, "ok": ok, "kind": "", "a": "", "b": "", "lines": [line.split()[0]] if ok else [], "text": text})
        other = [(ast, text) for i, ast, text in specs if i == ri and not (ast["form"] == "rev" and "@{" not in text)]
        for ast, text in other[::max(1, len(other) // (150 if ctx.thorough else 25))]:
            lines = rev_parse(dirs[r["name"]], text)
            if lines is not None and ast["form"] == "merge":
                lines = [x for x in lines if not x.startswith("^")]
            gitev.append({"repo": ri + 1, "spec": ast, "ok": lines is not None, "kind": "", "a": "", "b": "", "lines": lines or [], "text": text})
    rej = ctx.tlc_trace("history", "RevSpec_Trace", gitev, consts={"Who": '"git"'}, env={"REPOS": path})
    if rej:
        audit_mismatch(ctx, "RevSpec_Trace (git) on random specs", {"text": gitev[rej[0]]["text"], "git": gitev[rej[0]]["lines"], "ok": gitev[rej[0]]["ok"]})
    ctx.cov["git_audited"] = ctx.cov.get("git_audited", 0) + len(gitev)
    events, keep = [], []
    for (ri, ast, text), r in zip(specs, results):
        if "got" not in r:
            ctx.violation({"kind": "random", "classes": ["crash"], "case": {"repo": repos[ri]["name"], "ast": ast, "text": text}, "result": r})
            continue
        o = r["got"]
        events.append({"repo": ri + 1, "spec": ast, "ok": o["ok"], "kind": o.get("kind", ""), "a": o.get("a", ""), "b": o.get("b", ""), "lines": []})
        keep.append((ri, ast, text, o))
        ctx.nontrivial(repos[ri]["name"] + " " + text)
    rej = ctx.tlc_trace("history", "RevSpec_Trace", events, consts={"Who": '"gix"'}, env={"REPOS": path})
    for i in rej[:200]:
        ri, ast, text, o = keep[i]
        ctx.violation({"kind": "random", "classes": ["random:" + ast["form"] + "|" + ast["a"]["base"]["b"] + "".join("|" + x["n"] for x in ast["a"]["navs"])],
                       "case": {"repo": repos[ri]["name"], "ast": ast, "text": text}, "observed": o})
    if rej:
        ctx.log("random compositions: %d of %d rejected by RevSpec_Trace, e.g. %s" % (len(rej), len(events), [keep[i][2] for i in rej[:8]]))
    return len(specs)


def run(ctx):
    binary = ctx.build("vh-c48")
    variants = [("attached", "attached"), ("detached", "detached")]
    nr, ns, nrand = run_repos(ctx, binary, variants)
    ctx.cov["exhaustive"] = True
    ctx.cov["rule"] = ("%d repositories x every specification RevSpec_Gen builds from their token alphabets (base x nav x nav, reflog and "
                       "checkout forms, index and search forms, ranges and parent shorthands over an operand set): %d specs (A); %d seeded random "
                       "compositions of up to 5 tokens judged by RevSpec_Trace (B). Non-trivial = the spec uses an operator or fails; distinct by "
                       "(repository, text)." % (nr, ns, nrand))
    ctx.assumptions += ["git 2.39.5 is the reference for the transcription: cat-file --batch-check on every single-revision text, rev-parse on a sample of the others",
                        "commit message search is judged for whole words of the messages (substring semantics, no regex metacharacters)",
                        "merge bases of A...B are not part of the compared result (C47)"]


def replay(ctx, rec):
    binary = ctx.build("vh-c48")
    c = rec["case"]
    variants = [(c["repo"], c["repo"])]
    d, n = build_repo(ctx, c["repo"], c["repo"])
    repo = read_repo(ctx, c["repo"], d, n)
    path = os.path.join(ctx.work, "repos.ndjson")
    with open(path, "w") as f:
        f.write(json.dumps(repo) + "\n")
    if rec.get("kind") == "random":
        r = ctx.harness(binary, [{"repo": d, "spec": c["text"]}])[0]
        o = r.get("got")
        if o is None or ctx.tlc_trace("history", "RevSpec_Trace", [{"repo": 1, "spec": c["ast"], "ok": o["ok"], "kind": o.get("kind", ""), "a": o.get("a", ""),
                                                                     "b": o.get("b", ""), "lines": []}], consts={"Who": '"gix"'}, env={"REPOS": path}):
            ctx.violation(dict(rec, observed=o or r))
        return
    cases = ctx.tlc_gen("history", "RevSpec_Gen", consts={"Wide": "TRUE"}, env={"REPOS": path}, workers=6, timeout=3000)
    for cs in cases:
        for s in cs["specs"]:
            if s["text"] == c["spec"]["text"] and s["form"] == c["spec"]["form"]:
                r = ctx.harness(binary, [{"repo": d, "spec": s["text"]}])[0]
                why = judge(s, r)
                if why:
                    ctx.violation(dict(rec, mismatch=why, result=r.get("got", r)))
                return
    raise ToolError("replay: spec not generated")
