"""C39 - Pathspecs select the same paths as git.

spec/match/Pathspec.tla transcribes git's pathspec element parser (short / long magic: top, literal, glob,
icase, exclude, attr) and the selection of index paths (match_pathspec_item, git_fnmatch incl. the
nowildcard prefix and ONESTAR, exclude subtraction, implicit match-all for exclude-only lists), with
wildmatch taken from spec/match/Wildmatch.tla (namespaced INSTANCE).
 A1: Pathspec_Gen mode "select": every list of <= MaxSpecs pathspec tokens x two index worlds (one with
     `a` as a file, one with `a` as a directory; attribute states per path) -> per path selected or not;
     replayed through gix_pathspec::parse + Search::from_specs + pattern_matching_relative_path, plus
     can_match_relative_path on the leading directories of selected paths (no false pruning).
 A2: mode "parse": every string of <= MaxToks parse tokens -> gix_pathspec::parse acceptance and fields for the
     strings git accepts.
 B : seeded random lists over a richer piece alphabet; gitoxide's answers judged by TLC (Pathspec_Trace).
 C : `git ls-files -z -- <specs>` in repositories materialised with `git update-index --cacheinfo` and a
     worktree .gitattributes (read back with `git ls-files` / `git check-attr`): on the A1 cases (compared with
     the printed expectation), on A2 strings (accepted or "fatal:"), and on the random cases (judged by
     Pathspec_Trace as `who = "git"` events).
"""
import concurrent.futures
import threading
from vf import *

LEVEL = "exploration"
SHAPES = ("exclude", "icase", "attr", "attrunspecified", "wildcard", "literal", "glob", "dirslash", "multi", "shortparen")


def txt(l):
    return show_bytes(l)


def attr_line(path, attrs):
    """one .gitattributes line for an exact path (anchored at the top) - materialisation only"""
    words = []
    for a in attrs:
        n = l2b(a["name"]).decode()
        words.append({"set": n, "unset": "-" + n, "value": n + "=" + l2b(a["val"]).decode()}[a["kind"]])
    p = l2b(path).decode()
    return ("%s %s\n" % (p if "/" in p else "/" + p, " ".join(words))).encode()


class Worlds:
    def __init__(self, ctx):
        self.root = os.path.join(ctx.work, "worlds")
        os.makedirs(self.root, exist_ok=True)
        self.repos = {}
        self.lock = threading.Lock()

    def repo(self, paths, attrs):
        """paths: [bytes-list]; attrs: per path [ {name, kind, val} ]; -> (repo dir, .gitattributes bytes)"""
        key = json.dumps([paths, attrs])
        with self.lock:
            if key in self.repos:
                return self.repos[key]
            d = os.path.join(self.root, "w%d" % len(self.repos))
            git(["init", "-q", d], check=True)
            git(["config", "core.ignorecase", "false"], cwd=d, check=True)
            blob = git(["hash-object", "-w", "--stdin"], cwd=d, input=b"", check=True).stdout.strip().decode()
            ga = b"".join(attr_line(p, a) for p, a in zip(paths, attrs) if a)
            with open(os.path.join(d, ".gitattributes"), "wb") as f:
                f.write(ga)
            info = b"".join(b"100644 %s\t%s\n" % (blob.encode(), l2b(p)) for p in paths)
            git(["update-index", "--add", "--index-info"], cwd=d, input=info, check=True)
            # read the world back with git plumbing
            listed = git(["ls-files", "-z"], cwd=d, check=True).stdout.split(b"\0")[:-1]
            if sorted(listed) != sorted(l2b(p) for p in paths):
                raise ToolError("materialised index differs from abstract world: %r" % listed)
            names = sorted({l2b(x["name"]).decode() for a in attrs for x in a}) or ["x"]
            out = git(["check-attr", "-z"] + names + ["--"] + [l2b(p).decode() for p in paths], cwd=d, check=True).stdout.split(b"\0")[:-1]
            seen = {}
            for i in range(0, len(out), 3):
                seen[(out[i], out[i + 1])] = out[i + 2]
            for p, a in zip(paths, attrs):
                have = {l2b(x["name"]): x for x in a}
                for n in names:
                    want = have.get(n.encode())
                    w = b"unspecified" if want is None else {"set": b"set", "unset": b"unset"}.get(want["kind"], l2b(want["val"]) if want else b"")
                    if seen.get((l2b(p), n.encode())) != w:
                        raise ToolError("attribute %s of %s is %r, abstract world says %r" % (n, txt(p), seen.get((l2b(p), n.encode())), w))
            self.repos[key] = (d, ga)
            return self.repos[key]

    def ls_files(self, paths, attrs, specs):
        """-> (valid, set of selected path bytes)"""
        d, _ga = self.repo(paths, attrs)
        p = git(["ls-files", "-z", "--"] + [l2b(s) for s in specs], cwd=d)
        if p.returncode != 0:
            err = p.stderr.decode("utf-8", "replace")
            if "fatal:" in err:
                return False, set()
            raise ToolError("git ls-files failed: %s" % err[-300:])
        return True, set(p.stdout.split(b"\0")[:-1])


def classes_of(shapes):
    return sorted(k for k in SHAPES if shapes[k])


def judge_select(c, r):
    """-> (stage, [mismatch])"""
    if "got" not in r:
        return "crash", ["executor crashed: %s" % json.dumps(r)[:300]]
    g = r["got"]
    if not all(p["ok"] for p in g["parse"]):
        return "parse", ["gix_pathspec::parse refused a pathspec git accepts: %s" % [p["err"] for p in g["parse"]]]
    if not isinstance(g["res"], list):
        return "parse", ["Search::from_specs failed: %s" % g.get("normalize_err")]
    bad, stage = [], None
    for path, want, got in zip(c["paths"], c["selected"], g["res"]):
        sel = got["matched"] and not got["excluded"]
        if sel != want:
            stage = stage or "select"
            bad.append("%s: gitoxide %s (%s), git %s" % (txt(path), "selects" if sel else "does not select",
                                                        got["kind"] or "no match", "selects" if want else "does not select"))
        elif want and not got["dirs_can_match"]:
            stage = stage or "prune"
            bad.append("%s is selected but can_match_relative_path rejects one of its leading directories" % txt(path))
    return stage, bad


def judge_parse(c, r):
    if "got" not in r:
        return ["executor crashed: %s" % json.dumps(r)[:300]]
    p = r["got"]["parse"][0]
    if not c["gitok"] or not c["indomain"]:
        return []
    if not p["ok"]:
        return ["gix_pathspec::parse refuses %r (%s), git accepts it" % (txt(c["input"]), p["err"])]
    return []


def to_exec(c, ga):
    return {"specs": c["specs"], "paths": c["paths"], "attrs": b2l(ga)}


MAGIC = ["", "", "", "", ":(glob)", ":(literal)", ":(icase)", ":(exclude)", ":!", ":^", ":/", ":(top)", ":(icase,glob)", ":(exclude,icase)",
         ":(attr:x)", ":(attr:-x)", ":(attr:!x)", ":(attr:x=v)", ":(glob,attr:x)", ":(exclude,glob)", ":(literal,icase)", ":(top,exclude)"]
COMP = ["a", "a", "A", "ab", "b", "B", "bc", "d", "*", "?", "**", "a*", "*b", "[ab]", "a?", "*a*", "D"]
W1 = (["A", "a", "ab", "b", "d/a", "d/ab", "d/b/a", "B"], {"a": "x", "ab": "x=v", "d/a": "x", "d/ab": "-x"})
W2 = (["A", "a/B", "a/b", "a/bc", "a/d/b", "ab", "d/a", "b/a/b"], {"a/b": "-x", "a/bc": "x", "ab": "x=v", "d/a": "x", "a/d/b": "x"})


def py_world(w):
    paths, at = w
    conv = lambda v: [] if v is None else [{"name": b2l(b"x"), "kind": "unset" if v[0] == "-" else ("value" if "=" in v else "set"),
                                             "val": b2l(v.split("=")[1].encode()) if "=" in v else []}]
    return [b2l(p.encode()) for p in paths], [conv(at.get(p)) for p in paths]


def rand_spec(rng):
    n = rng.choice([0, 1, 1, 1, 2, 2, 3])
    path = "/".join(rng.choice(COMP) for _ in range(n))
    if n and rng.random() < 0.15:
        path += "/"
    m = rng.choice(MAGIC)
    if not m and not path:
        path = "a"
    return m + path


def run(ctx):
    binary = ctx.build("vh-c39")
    worlds = Worlds(ctx)
    vios = []

    # ---- A1: selection
    consts = {"Mode": '"select"', "MaxSpecs": 2, "MaxToks": 4, "Wide": "TRUE" if ctx.thorough else "FALSE"}
    cases = ctx.tlc_gen("match", "Pathspec_Gen", consts=consts, timeout=3000)
    if ctx.thorough:
        cases += ctx.tlc_gen("match", "Pathspec_Gen", consts=dict(consts, MaxSpecs=3, Wide="FALSE"), timeout=3000)
    ctx.cov["exhaustive"] = True
    gas = [worlds.repo(c["paths"], c["attrs"])[1] for c in cases]
    results = ctx.harness(binary, [to_exec(c, ga) for c, ga in zip(cases, gas)], timeout=1200)
    mism, undefined = [], 0
    for i, (c, r) in enumerate(zip(cases, results)):
        if any(c["selected"]) and not all(c["selected"]) and (len(c["specs"]) > 1 or c["shapes"]["wildcard"] or c["shapes"]["icase"] or c["shapes"]["attr"]):
            ctx.nontrivial(json.dumps([c["specs"], c["world"]]))
        stage, bad = judge_select(c, r)
        if not c["defined"]:
            undefined += 1
            if "got" in r:
                continue          # git's answer is an artefact there (see GitWellDefined); only crashes count
        if bad:
            mism.append(i)
            vios.append({"kind": "gen", "stage": stage, "classes": classes_of(c["shapes"]), "shape": c["shapes"], "case": c, "mismatch": bad[:6],
                         "specs_text": [txt(s) for s in c["specs"]], "result": r})
    ctx.evaluations_extra = sum(len(c["paths"]) - 1 for c in cases)
    ctx.cov["evaluations"] += ctx.evaluations_extra
    ctx.log("executor replayed %d pathspec lists x worlds (%d path decisions), %d disagree with the specification"
            % (len(cases), sum(len(c["paths"]) for c in cases), len(mism)))
    mid = cases[len(cases) // 2]
    ctx.sample({"specs": [txt(s) for s in mid["specs"]], "paths": [txt(p) for p in mid["paths"]], "selected": mid["selected"]})

    # ---- C: git ls-files on every disagreeing case (a violation must never rest on my transcription) and on a sample of the rest
    n_audit = 350 if not ctx.thorough else 4000
    rest = [i for i in range(len(cases)) if i not in set(mism) and cases[i]["defined"]]
    ctx.cov["lists_outside_git_defined_domain"] = undefined
    pick = mism[: (400 if not ctx.thorough else 3000)] + rest[:: max(1, len(rest) // n_audit)]

    def audit_one(i):
        c = cases[i]
        return i, worlds.ls_files(c["paths"], c["attrs"], c["specs"])
    audited = 0
    with concurrent.futures.ThreadPoolExecutor(12) as ex:
        for i, (valid, sel) in ex.map(audit_one, pick):
            c = cases[i]
            want = {l2b(p) for p, s in zip(c["paths"], c["selected"]) if s}
            audited += 1
            if not valid or sel != want:
                audit_mismatch(ctx, "Pathspec (git ls-files)", {"specs": [txt(s) for s in c["specs"]], "world": c["world"], "git_valid": valid,
                                                                "git": sorted(x.decode() for x in sel), "spec": sorted(x.decode() for x in want)})
    ctx.log("audit: git ls-files agreed with the specification on %d lists (all %d disagreeing ones included)" % (audited, min(len(mism), 400 if not ctx.thorough else 3000)))
    ctx.cov["git_audited_select"] = audited

    # ---- A2: parsing
    pcases = ctx.tlc_gen("match", "Pathspec_Gen", consts=dict(consts, Mode='"parse"', MaxToks=4 if not ctx.thorough else 4), timeout=3000)
    pres = ctx.harness(binary, [{"specs": [c["input"]], "paths": [], "attrs": []} for c in pcases], timeout=1200)
    lenient = 0
    for c, r in zip(pcases, pres):
        if not c["gitok"] or c["parsed"]["exclude"] or c["parsed"]["attrs"]:
            ctx.nontrivial(bytes(c["input"]))
        if not c["gitok"] and "got" in r and r["got"]["parse"][0]["ok"]:
            lenient += 1
        bad = judge_parse(c, r)
        if bad:
            vios.append({"kind": "parse", "stage": "parse", "classes": [], "case": c, "mismatch": bad, "specs_text": [txt(c["input"])], "result": r})
    ctx.cov["gix_accepts_strings_git_refuses"] = lenient
    if lenient:
        ctx.log("note: gix_pathspec::parse accepted %d strings git refuses (not judged: the property is about pathspecs git accepts)" % lenient)
    wp, wa = py_world(W1)
    n_p = 400 if not ctx.thorough else 5000
    psample = [c for c in pcases if c["indomain"] and b"\0" not in l2b(c["input"])][:: max(1, len(pcases) // n_p)]
    with concurrent.futures.ThreadPoolExecutor(12) as ex:
        for c, (valid, _sel) in zip(psample, ex.map(lambda c: worlds.ls_files(wp, wa, [c["input"]]), psample)):
            if valid != c["gitok"]:
                audit_mismatch(ctx, "Pathspec.Parse (git ls-files)", {"input": txt(c["input"]), "git_valid": valid, "spec_ok": c["gitok"]})
    ctx.log("audit: git ls-files agreed with Parse on %d pathspec strings" % len(psample))
    ctx.cov["git_audited_parse"] = len(psample)

    # ---- B: random
    n = 1200 if not ctx.thorough else 12000
    n_git = 200 if not ctx.thorough else 2500
    pw = [py_world(W1), py_world(W2)]
    gaw = [worlds.repo(*w)[1] for w in pw]
    rnd = []
    for _ in range(n):
        k = ctx.rng.randrange(2)
        specs = [b2l(rand_spec(ctx.rng).encode()) for _ in range(ctx.rng.choice([1, 1, 2, 2, 3]))]
        rnd.append({"specs": specs, "paths": pw[k][0], "attrs": pw[k][1], "world": k})
    rres = ctx.harness(binary, [to_exec(c, gaw[c["world"]]) for c in rnd], timeout=1200)
    events, owner = [], []
    for c, r in zip(rnd, rres):
        if "got" not in r:
            vios.append({"kind": "random", "stage": "crash", "classes": [], "case": c, "mismatch": ["executor crashed: %s" % json.dumps(r)[:200]],
                         "specs_text": [txt(s) for s in c["specs"]], "result": r})
            continue
        g = r["got"]
        ran = isinstance(g["res"], list)
        for k, (path, st) in enumerate(zip(c["paths"], c["attrs"])):
            got = g["res"][k] if ran else {"matched": False, "excluded": False, "dirs_can_match": False}
            events.append({"who": "gix", "specs": c["specs"], "path": path, "attrs": st, "parse": [p["ok"] for p in g["parse"]], "ran": ran,
                           "matched": got["matched"], "excluded": got["excluded"], "dirs": got["dirs_can_match"]})
            owner.append(c)
        ctx.nontrivial(json.dumps([c["specs"], c["world"]]))
    n_gix = len(events)
    sub = [c for c in rnd[:n_git] if all(b"\0" not in l2b(s) and s for s in c["specs"])]
    with concurrent.futures.ThreadPoolExecutor(12) as ex:
        for c, (valid, sel) in zip(sub, ex.map(lambda c: worlds.ls_files(c["paths"], c["attrs"], c["specs"]), sub)):
            for path, st in zip(c["paths"], c["attrs"]):
                events.append({"who": "git", "specs": c["specs"], "path": path, "attrs": st, "valid": valid, "selected": l2b(path) in sel})
                owner.append(c)
    ctx.cov["git_audited_random"] = len(events) - n_gix
    ctx.log("executor replayed %d random lists, git listed %d of them" % (len(rnd), len(sub)))
    rejected = ctx.tlc_trace("match", "Pathspec_Trace", events, timeout=3000)
    for bi in rejected:
        if bi >= n_gix:
            ev = events[bi]
            audit_mismatch(ctx, "Pathspec_Trace (git event)", {"specs": [txt(s) for s in ev["specs"]], "path": txt(ev["path"]), "valid": ev["valid"], "selected": ev["selected"]})
    by_case = {}
    for bi in rejected:
        by_case.setdefault(id(owner[bi]), (owner[bi], []))[1].append(events[bi])
    rej = list(by_case.values())
    labels = {}
    if rej:
        probes = [{"who": "probe", "specs": c["specs"], "shape": k} for c, _e in rej for k in SHAPES]
        for pi in ctx.tlc_trace("match", "Pathspec_Trace", probes):
            labels.setdefault(pi // len(SHAPES), []).append(SHAPES[pi % len(SHAPES)])
    for j, (c, evs) in enumerate(rej):
        vios.append({"kind": "random", "stage": "trace", "classes": sorted(labels.get(j, [])), "shape": {k: k in labels.get(j, []) for k in SHAPES},
                     "case": c, "specs_text": [txt(s) for s in c["specs"]],
                     "mismatch": ["%s: matched=%s excluded=%s dirs=%s parse=%s rejected by Pathspec_Trace" % (txt(e["path"]), e["matched"], e["excluded"], e["dirs"], e["parse"]) for e in evs][:6]})

    vios.sort(key=lambda v: sum(len(s) for s in v["specs_text"]))
    seen, first, rest_v = set(), [], []
    for v in vios:
        k = (v["stage"], tuple(v["classes"]))
        (rest_v if k in seen else first).append(v)
        seen.add(k)
    first.sort(key=lambda v: len(v["classes"]))
    for v in first + rest_v:
        ctx.violation(v)
    if vios:
        summary = {}
        for v in vios:
            k = "%s %s" % (v["stage"], "+".join(v["classes"]) or "-")
            summary[k] = summary.get(k, 0) + 1
        ctx.log("mismatches by (stage, input shapes): %s" % json.dumps(summary, sort_keys=True))
    ctx.cov["rule"] = ("A1: all lists of <= %s pathspecs over the %s token alphabet of Pathspec_Gen x 2 index worlds of 6 paths (exhaustive)%s; A2: all "
                       "strings of <= 4 parse tokens; B: %d seeded random lists x 2 worlds of 8 paths. Non-trivial = (A1) the list selects some but not "
                       "all paths and uses a wildcard, icase, attr or more than one element, (A2) the string is refused or carries exclude/attr magic, "
                       "(B) every list; distinct by input." % (2, "wide" if ctx.thorough else "quick", " + <= 3 over the quick alphabet" if ctx.thorough else "", n))
    ctx.assumptions += ["git 2.39.5 `git ls-files -- <pathspec>` from the top of the worktree is the reference (audited on every run, and on every disagreeing case)",
                        "paths are files of the index (is_dir = false); no cwd prefix: elements are already normalised (no ./, ../, //)",
                        "attribute states of the paths are data (git check-attr); only exact-path .gitattributes lines are used",
                        "what gitoxide does with strings git refuses is not judged"]


def replay(ctx, rec):
    binary = ctx.build("vh-c39")
    c = rec["case"]
    if rec.get("kind") == "parse":
        r = ctx.harness(binary, [{"specs": [c["input"]], "paths": [], "attrs": []}])[0]
        bad = judge_parse(c, r)
        if bad:
            ctx.violation(dict(rec, mismatch=bad, result=r))
        return
    ga = b"".join(attr_line(p, a) for p, a in zip(c["paths"], c["attrs"]) if a)
    r = ctx.harness(binary, [to_exec(c, ga)])[0]
    if rec.get("kind") == "gen":
        stage, bad = judge_select(c, r)
        if bad:
            ctx.violation(dict(rec, stage=stage, mismatch=bad[:6], result=r))
        return
    if "got" not in r:
        ctx.violation(dict(rec, result=r))
        return
    g = r["got"]
    ran = isinstance(g["res"], list)
    events = []
    for k, (path, st) in enumerate(zip(c["paths"], c["attrs"])):
        got = g["res"][k] if ran else {"matched": False, "excluded": False, "dirs_can_match": False}
        events.append({"who": "gix", "specs": c["specs"], "path": path, "attrs": st, "parse": [p["ok"] for p in g["parse"]], "ran": ran,
                       "matched": got["matched"], "excluded": got["excluded"], "dirs": got["dirs_can_match"]})
    rej = ctx.tlc_trace("match", "Pathspec_Trace", events)
    if rej:
        ctx.violation(dict(rec, events=[events[i] for i in rej]))
