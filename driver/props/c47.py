"""C47 - Commit walks agree with git rev-list.

spec/history/Dag.tla (shared with C46): Reachable/FpReachable, and the order operators transcribed from git:
DefaultOrder (rev-list's date-sorted pending list, FIFO among equal dates, --first-parent, --max-age),
TopoOrder (--topo-order: in-degrees + stack; --date-order: in-degrees + date queue, FIFO among equal dates;
tips ^ends), BfsOrder (gix "as mentioned in the graph"), ValidPqRun (a walk "sorted by commit time" without a tie rule).
 A: DagWalk_Gen enumerates every history of <= MaxN commits x time patterns x (tips, ends) queries with the prescribed
    sequence for every mode. gix_traverse::commit::Simple (BreadthFirst, ByCommitTime newest/oldest, cut-off,
    Parents::First) and ::Topo (TopoOrder/DateOrder x Parents::All/First x ends) run on the materialised worlds without
    a commit-graph, with a complete one and with a partial one.
 B: the walks whose order is only constrained (time-sorted Simple walks with equal times) and all walks on seeded
    random larger histories are judged by TLC (DagWalk_Trace).
 C: git rev-list [--first-parent|--max-age|--topo-order|--date-order] tips ^ends, in a repository without and with a
    commit-graph (git uses two different algorithms there), must print the specification's sequences. Worlds are
    disjoint components of one repository, so ONE rev-list process walks one query of every world and its output is
    projected onto the worlds (the queue disciplines are projection invariant).
"""
import concurrent.futures
from vf import *
from props import c46
from props.c46 import Repo, BASE_T, gitc

LEVEL = "exploration"
VARIANTS = ["none", "full", "part"]
SIMPLE = ["s_bfs", "s_bfs_fp", "s_new", "s_old", "s_new_fp", "s_cut_new", "s_cut_old"]
TOPO = ["t_topo", "t_topo_fp", "t_date", "t_date_fp"]
# gix mode -> field of the generated case holding the prescribed sequence, and how it binds
EXACT = {"s_bfs": "bfs", "s_bfs_fp": "bfsfp", "t_topo": "topo", "t_topo_fp": "topofp", "t_date": "date", "t_date_fp": "datefp"}
SETOF = {"s_new": "def", "s_old": "def", "s_new_fp": "deffp", "s_cut_new": "cut", "s_cut_old": "cut"}
GIT = {"g_def": ([], "def"), "g_def_fp": (["--first-parent"], "deffp"), "g_cut": (["--max-age=%d"], "cut"),
       "g_topo": (["--topo-order"], "topo"), "g_topo_fp": (["--topo-order", "--first-parent"], "topofp"),
       "g_date": (["--date-order"], "date"), "g_date_fp": (["--date-order", "--first-parent"], "datefp")}


LIMITED = ("g_topo", "g_topo_fp", "g_date", "g_date_fp")


def run_gix(ctx, binary, repo, wq, variants=VARIANTS, chunk=3000):
    """wq: [(w, query)] -> {variant: [result dict per entry]}"""
    res = {}
    for variant in variants:
        path = repo.variants[variant]
        flat = []
        for i in range(0, len(wq), chunk):      # one executor process per chunk (it does not free its walkers)
            case = {"objects": os.path.join(path, "objects"),
                    "cgraph": "" if variant == "none" else os.path.join(path, "objects", "info"),
                    "queries": [{"tips": repo.hexes(w, q["tips"]), "ends": repo.hexes(w, q["ends"]),
                                 "cutoff": BASE_T + q["cutoff"]} for w, q in wq[i:i + chunk]]}
            r = ctx.harness(binary, [case])[0]
            if "got" not in r:
                raise ToolError("executor failed outside of a walk: %s" % json.dumps(r)[:300])
            flat.extend(r["got"]["results"])
            ctx.cov["evaluations"] += sum(len(x) for x in r["got"]["results"]) - 1     # one evaluation per walk
        res[variant] = flat
    return res


def observed(repo, w, r):
    if "seq" not in r or "error" in r:
        return {"failed": r}
    return {"seq": repo.numbers(w, r["seq"])}


def git_walks(ctx, repo, wq, variant, modes, threads=6):
    """binding C. wq: [(w, query)]; returns {gmode: [sequence (commit numbers) per entry]}.
    Queries of different worlds share one rev-list process; two queries of one world never do."""
    out = {m: [None] * len(wq) for m in modes}
    rounds = {}
    for i, (w, q) in enumerate(wq):
        rounds.setdefault(w, []).append(i)
    nround = max(len(v) for v in rounds.values())
    jobs = []
    for k in range(nround):
        batch = [v[k] for v in rounds.values() if len(v) > k]
        for m in modes:
            if m != "g_cut":
                groups = {None: [i for i in batch if m in LIMITED or not wq[i][1]["ends"]]}
            else:
                groups = {}
                for i in batch:
                    if not wq[i][1]["ends"]:
                        groups.setdefault(wq[i][1]["cutoff"], []).append(i)
            for cutoff, idx in groups.items():
                if idx:
                    jobs.append((m, cutoff, idx))

    def one(job):
        m, cutoff, idx = job
        opts, _field = GIT[m]
        lines = []
        for i in idx:
            w, q = wq[i]
            lines += repo.hexes(w, q["tips"]) + ["^" + h for h in repo.hexes(w, q["ends"])]
        args = [o % (BASE_T + cutoff) if "%d" in o else o for o in opts]
        text = gitc(["rev-list"] + args + ["--stdin"], cwd=repo.variants[variant], input=("\n".join(lines) + "\n").encode()).decode()
        per = {wq[i][0]: [] for i in idx}
        for h in text.split():
            w, c = repo.index[h]
            per[w].append(c)
        for i in idx:
            out[m][i] = per[wq[i][0]]

    with concurrent.futures.ThreadPoolExecutor(threads) as ex:
        list(ex.map(one, jobs))
    return out, len(jobs)


def applicable(mode, q):
    return mode in TOPO or mode in ("g_topo", "g_topo_fp", "g_date", "g_date_fp") or not q["ends"]


def gen_runs(ctx):
    if ctx.thorough:
        return [{"MinN": 1, "MaxN": 4, "MaxPar": 3, "Pats": '{"inc", "eq", "dec", "zig", "pairs", "rootnew"}', "MaxTips": 2, "MaxEnds": 2, "LawN": 4},
                {"MinN": 3, "MaxN": 4, "MaxPar": 2, "Pats": '{"pairs", "eq"}', "MaxTips": 3, "MaxEnds": 0, "LawN": 0},
                {"MinN": 5, "MaxN": 5, "MaxPar": 2, "Pats": '{"eq", "pairs", "dec"}', "MaxTips": 1, "MaxEnds": 1, "LawN": 0}]
    # the second run reaches ties between a starting tip and a later queued parent (three tips, pairwise equal times)
    return [{"MinN": 1, "MaxN": 4, "MaxPar": 2, "Pats": '{"inc", "eq", "dec"}', "MaxTips": 2, "MaxEnds": 1, "LawN": 3},
            {"MinN": 4, "MaxN": 4, "MaxPar": 1, "Pats": '{"pairs"}', "MaxTips": 3, "MaxEnds": 0, "LawN": 0}]


def event(d, mode, q, seq, nograph=False):
    return {"par": d["par"], "time": d["time"], "mode": mode, "tips": q["tips"], "ends": q["ends"], "cutoff": q["cutoff"], "seq": seq,
            "nograph": nograph}


def record(ctx, kind, d, q, mode, variants, obs, want=None):
    cl = "failed" if "failed" in obs else ("foreign" if None in obs["seq"] else "rejected" if want is None else
                                           "set" if sorted(obs["seq"]) != sorted(want) else "order")
    # descriptive attributes of the input (for known-finding matchers; no verdict is derived from them)
    traits = {"tip_in_ends": bool(set(q["tips"]) & set(q["ends"])), "has_ends": bool(q["ends"]), "several_tips": len(q["tips"]) > 1,
              "equal_times": len(set(d["time"])) < len(d["time"]), "first_parent": mode.endswith("_fp"),
              "walker": "Topo" if mode.startswith("t_") else "Simple"}
    ctx.violation({"kind": kind, "case": {"par": d["par"], "time": d["time"], "tips": q["tips"], "ends": q["ends"],
                                          "cutoff": q["cutoff"], "mode": mode, "variant": variants[0]},
                   "mode": mode, "failing_variants": variants, "observed": obs, "expected": want, "traits": traits,
                   "classes": ["%s:%s" % (mode, cl)]})


def run(ctx):
    binary = ctx.build("vh-c47")
    worlds = []
    for consts in gen_runs(ctx):
        worlds += ctx.tlc_gen("history", "DagWalk_Gen", consts=consts, workers=6, timeout=3000)
    ctx.cov["exhaustive"] = True
    wq = [(w, q) for w, d in enumerate(worlds) for q in d["queries"]]
    ctx.log("%d worlds, %d queries" % (len(worlds), len(wq)))
    repo = Repo(ctx, worlds, "gen")
    repo.add_graph_variants(ctx, c46.part_pick)

    # ---- binding C first: the order operators are git's
    t0 = time.time()
    naudit = nproc = 0
    for variant in ("none", "full"):
        got, n = git_walks(ctx, repo, wq, variant, list(GIT))
        nproc += n
        for m, (_o, field) in GIT.items():
            for i, (w, q) in enumerate(wq):
                if got[m][i] is None:
                    continue
                if variant == "none" and m in LIMITED and not worlds[w]["skewfree"]:
                    continue    # Dag!SkewFree: without generation numbers git's limited walks are heuristic under clock skew
                naudit += 1
                # git's two implementations of topological first-parent walks (Dag!TopoOrderE "all" / "graph")
                f = field + ("all" if variant == "none" else "graph") if m in ("g_topo_fp", "g_date_fp") else field
                if got[m][i] != q[f]:
                    audit_mismatch(ctx, "Dag order operator for " + m, {"par": worlds[w]["par"], "time": worlds[w]["time"], "tips": q["tips"],
                                                                      "ends": q["ends"], "cutoff": q["cutoff"], "git": got[m][i],
                                                                      "spec": q[f], "variant": variant})
    ctx.cov["git_audited"] = naudit
    ctx.log("audit: %d git rev-list walks (%d processes) printed the specification's sequences (%.1fs)" % (naudit, nproc, time.time() - t0))

    # ---- binding A
    res = run_gix(ctx, binary, repo, wq)
    events, meta = [], []
    bad = {}
    for i, (w, q) in enumerate(wq):
        d = worlds[w]
        for mode in SIMPLE + TOPO:
            if not applicable(mode, q):
                continue
            ctx.nontrivial((w, tuple(q["tips"]), tuple(q["ends"]), mode))
            seen = {}
            for variant in VARIANTS:
                obs = observed(repo, w, res[variant][i][mode])
                key = json.dumps(obs)
                if key in seen:
                    seen[key].append(variant)
                    continue
                seen[key] = [variant]
            for key, variants in seen.items():
                obs = json.loads(key)
                if "failed" in obs or None in obs["seq"]:
                    record(ctx, "gen", d, q, mode, variants, obs)
                elif mode in EXACT:
                    want = q[EXACT[mode]]
                    if mode in ("t_topo_fp", "t_date_fp") and not (want == q[EXACT[mode] + "all"] == q[EXACT[mode] + "graph"]):
                        # Dag!FpOrderDefined fails: git's two algorithms disagree, only the set is judged
                        if sorted(obs["seq"]) != sorted(want):
                            record(ctx, "gen", d, q, mode, variants, obs, want)
                    elif obs["seq"] != want:
                        record(ctx, "gen", d, q, mode, variants, obs, want)
                else:
                    want = q[SETOF[mode]]
                    if sorted(obs["seq"]) != sorted(want):
                        record(ctx, "gen", d, q, mode, variants, obs, want)
                    elif mode != "s_new_fp" and obs["seq"] != want:
                        # a different order than git's: only a tie may explain it - TLC decides (binding B)
                        events.append(event(d, mode, q, obs["seq"]))
                        meta.append((w, q, mode, variants))
    ctx.log("gitoxide walked %d queries x %d modes x %d commit-graph variants" % (len(wq), len(SIMPLE + TOPO), len(VARIANTS)))
    if events:
        for k in ctx.tlc_trace("history", "DagWalk_Trace", events):
            w, q, mode, variants = meta[k]
            record(ctx, "gen-trace", worlds[w], q, mode, variants, {"seq": events[k]["seq"]}, q[SETOF[mode]])
    ctx.cov["tie_orders_judged_by_tlc"] = len(events)
    mid = wq[len(wq) // 2]
    ctx.sample({"world": {"par": worlds[mid[0]]["par"], "time": worlds[mid[0]]["time"]}, "query": mid[1]})

    random_part(ctx, binary)
    summary = {}
    for v in ctx.violations + [r for _f, r in ctx.known_hits.values()]:
        k = "%s in %s" % ("+".join(v["classes"]), ",".join(v.get("failing_variants", [])))
        summary[k] = summary.get(k, 0) + 1
    if summary:
        ctx.log("disagreements by class and variant: %s" % json.dumps(summary, sort_keys=True))
    # smallest inputs first, and one of every signature before a second of any (finish() writes the first few)
    ctx.violations.sort(key=lambda v: (len(v["case"]["par"]), len(v["case"]["tips"]) + len(v["case"]["ends"]), sum(map(len, v["case"]["par"]))))
    rank, seen = {}, {}
    for v in ctx.violations:
        t = v["traits"]
        sig = ("tip-in-ends" if t["tip_in_ends"] else "first-parent+ends" if t["first_parent"] and t["has_ends"] else
               v["mode"].replace("_fp", "") + ":" + v["classes"][0].split(":")[1])
        seen[sig] = seen.get(sig, 0) + 1
        rank[id(v)] = seen[sig]
    ctx.violations.sort(key=lambda v: rank[id(v)])
    ctx.cov["rule"] = ("A: every history of <= MaxN commits x time patterns x (tips <= MaxTips in order, ends <= MaxEnds) covering all "
                       "childless commits x 11 walk modes x 3 commit-graph variants; B: seeded random histories of 6..16 commits. "
                       "Non-trivial = every (world, tips, ends, mode) walk; generator constants: %s" % json.dumps(gen_runs(ctx)))
    ctx.assumptions += ["git 2.39.5 rev-list is the reference for the order operators (audited on every run, without and with a commit-graph)",
                        "Simple walks sorted by commit time have no documented rule for equal times: any priority-queue run is accepted; "
                        "with pairwise distinct times this is git's sequence",
                        "Simple walks in first-parent mode with a time sorting: only the set and duplicate-freedom are judged",
                        "Topo walks (TopoOrder, DateOrder) are judged against git's exact sequence including equal commit times",
                        "Info.parent_ids and Info.commit_time are not judged; shallow/grafted histories are outside the domain"]


def random_part(ctx, binary):
    nw = 40 if not ctx.thorough else 1000
    worlds, wq = [], []
    for w in range(nw):
        n = ctx.rng.randint(6, 16)
        d = c46.random_world(ctx.rng, n)
        worlds.append(d)
        for _ in range(3):
            tips = []
            for _k in range(ctx.rng.choice([1, 1, 2, 2, 3])):
                t = ctx.rng.randint(max(1, n - 6), n)
                if t not in tips:
                    tips.append(t)
            ends = sorted({ctx.rng.randint(1, n) for _k in range(ctx.rng.choice([0, 0, 1, 1, 2]))})
            wq.append((w, {"tips": tips, "ends": ends, "cutoff": sorted(d["time"])[ctx.rng.randrange(n)]}))
    repo = Repo(ctx, worlds, "rnd")
    repo.add_graph_variants(ctx, c46.part_pick)
    events, meta = [], []
    for variant in ("none", "full"):
        got, _n = git_walks(ctx, repo, wq, variant, list(GIT))
        for m in GIT:
            for i, (w, q) in enumerate(wq):
                if got[m][i] is not None:
                    events.append(event(worlds[w], m, q, got[m][i], variant == "none"))
                    meta.append(("git", w, q, m, [variant]))
    ngit = len(events)
    res = run_gix(ctx, binary, repo, wq)
    for i, (w, q) in enumerate(wq):
        for mode in SIMPLE + TOPO:
            if not applicable(mode, q):
                continue
            ctx.nontrivial(("r", w, tuple(q["tips"]), tuple(q["ends"]), mode))
            seen = {}
            for variant in VARIANTS:
                obs = observed(repo, w, res[variant][i][mode])
                seen.setdefault(json.dumps(obs), []).append(variant)
            for key, variants in seen.items():
                obs = json.loads(key)
                if "failed" in obs or None in obs["seq"]:
                    record(ctx, "random", worlds[w], q, mode, variants, obs)
                else:
                    events.append(event(worlds[w], mode, q, obs["seq"]))
                    meta.append(("gix", w, q, mode, variants))
    rejected = ctx.tlc_trace("history", "DagWalk_Trace", events)
    for k in rejected:
        src, w, q, mode, variants = meta[k]
        if src == "git":
            audit_mismatch(ctx, "Dag order operator for %s (random)" % mode, {"world": worlds[w], "query": q, "git": events[k]["seq"], "variant": variants})
    for k in rejected:
        src, w, q, mode, variants = meta[k]
        record(ctx, "trace", worlds[w], q, mode, variants, {"seq": events[k]["seq"]})
    ctx.cov["random_worlds"] = nw
    ctx.cov["git_audited"] += ngit
    ctx.sample({"random_world": worlds[0], "query": wq[0][1]})


def replay(ctx, rec):
    binary = ctx.build("vh-c47")
    c = rec["case"]
    d = {"par": c["par"], "time": c["time"]}
    q = {"tips": c["tips"], "ends": c["ends"], "cutoff": c["cutoff"]}
    repo = Repo(ctx, [d], "replay")
    repo.add_graph_variants(ctx, c46.part_pick)
    res = run_gix(ctx, binary, repo, [(0, q)], variants=[c["variant"]])
    obs = observed(repo, 0, res[c["variant"]][0][c["mode"]])
    ctx.log("gitoxide %s (%s): %s" % (c["mode"], c["variant"], obs))
    if "failed" in obs or None in obs["seq"]:
        ctx.violation(dict(rec, observed=obs))
        return
    events = [event(d, c["mode"], q, obs["seq"])]
    gmode = {"t_topo": "g_topo", "t_topo_fp": "g_topo_fp", "t_date": "g_date", "t_date_fp": "g_date_fp", "s_new": "g_def",
             "s_cut_new": "g_cut"}.get(c["mode"])
    if gmode:
        got, _n = git_walks(ctx, repo, [(0, q)], "full" if c["variant"] != "none" else "none", [gmode])
        ctx.log("git %s: %s" % (gmode, got[gmode][0]))
        events.append(event(d, gmode, q, got[gmode][0], c["variant"] == "none"))
    rej = ctx.tlc_trace("history", "DagWalk_Trace", events)
    if 1 in rej:
        audit_mismatch(ctx, "Dag order operator (replay)", {"world": d, "query": q, "git": events[1]["seq"]})
    if 0 in rej:
        ctx.violation(dict(rec, observed=obs))
