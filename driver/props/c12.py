"""C12 - Object lookups stay correct while the object directory is repacked.

spec/odb/OdbStore.tla (PlusCal): the slot map of the dynamic object store, one label per shared access
of load_index.rs / load_one.rs / find.rs (snapshot search, pack loading with generation checks, index
loading, consolidation with the disk state incl. slot reuse and clearing) and an environment process
that adds and removes pack files the way git does (objects never disappear). TLC checks NoPanic (none of
the code's `unreachable!` states), NeverWrong (a pack is only ever read through the index entry it
belongs to) and FoundIfPresent (an object present throughout the lookup is found) for all interleavings
of the instance. spec/odb/SlotMap.tla is the sequential model of the slot allocation (see run_slotmap); its self-tests
(the seeded change Bug_NoGenBump, the allocation as it was found) must violate its properties.
 A: OdbCalls_Gen enumerates every sequence of whole lookups (contains/find by two handles of one store)
    and git maintenance steps (repack -a -d, a new pack arriving, multi-pack-index write, prune-packed);
    replayed on a real repository with the real git commands: every object present is found with
    content whose recomputed id is the id asked for, a missing id is not found, nothing panics or errors.
 B: threads with their own handles look up present and missing ids while git repacks; every lookup
    that does not answer as the model demands is a violation.
"""
from vf import *

LEVEL = "model_checking"
META = {
    "technique": "PlusCal/TLA+ model of the slot-map protocol checked by TLC over all interleavings (NoPanic, NeverWrong, FoundIfPresent; mutant self-test); TLC-enumerated lookup/maintenance sequences replayed with real git; threaded stress judged against the model's answers; SlotMap.tla (slot allocation incl. stable handles and refusal) model-checked and bound by replaying TLC-simulated histories on the real store, comparing Store::structure()/metrics() after every lookup",
    "note": "Interleavings inside a lookup are covered by the model only; on the real code lookups are atomic steps (A) or free-running threads (B, sampled schedules). No cfg hooks were added for deterministic replay of intra-lookup schedules. SHA-1 recomputation stands for content exactness.",
}


def template(ctx):
    d = os.path.join(ctx.work, "c12-template")
    git(["init", "-q", d], check=True)
    env = {"GIT_CONFIG_GLOBAL": "/dev/null"}
    with open(os.path.join(d, "x.txt"), "w") as f:
        f.write("packed object\n" * 20)
    git(["-c", "core.fsync=none", "add", "."], cwd=d, check=True)
    git(["-c", "core.fsync=none", "-c", "user.name=v", "-c", "user.email=v@x", "commit", "-q", "-m", "one"], cwd=d, check=True)
    git(["-c", "core.fsync=none", "-c", "gc.auto=0", "repack", "-a", "-d", "-q"], cwd=d, check=True)
    x = git(["rev-parse", "HEAD:x.txt"], cwd=d, check=True).stdout.decode().strip()
    with open(os.path.join(d, "l.txt"), "w") as f:
        f.write("loose object\n")
    # a second commit whose objects stay loose (reachable, so that gc never prunes them)
    git(["-c", "core.fsync=none", "add", "."], cwd=d, check=True)
    git(["-c", "core.fsync=none", "-c", "gc.auto=0", "-c", "user.name=v", "-c", "user.email=v@x", "commit", "-q", "-m", "two"], cwd=d, check=True)
    l = git(["rev-parse", "HEAD:l.txt"], cwd=d, check=True).stdout.decode().strip()
    return d, {"x": {"id": x}, "l": {"id": l}}


def pack_pool(ctx, nfiles=4):
    """pack files pack-f<k>.pack/.idx, k = 1 the one with the biggest index file (the store lists index files by size)"""
    repo = os.path.join(ctx.work, "c12-poolrepo")
    pool = os.path.join(ctx.work, "c12-pool")
    os.makedirs(pool, exist_ok=True)
    git(["init", "-q", "--bare", repo], check=True)
    probe = {}
    for k in range(1, nfiles + 1):
        ids = []
        for j in range(nfiles + 2 - k):
            r = git(["hash-object", "-w", "--stdin"], cwd=repo, input=("pool file %d object %d\n" % (k, j)).encode(), check=True)
            ids.append(r.stdout.decode().strip())
        r = git(["pack-objects", "-q", os.path.join(pool, "tmp")], cwd=repo, input=("\n".join(ids) + "\n").encode(), check=True)
        name = r.stdout.decode().strip()
        for ext in ("pack", "idx"):
            os.rename(os.path.join(pool, "tmp-%s.%s" % (name, ext)), os.path.join(pool, "pack-f%d.%s" % (k, ext)))
        probe[str(k)] = ids[0]
    sizes = [os.path.getsize(os.path.join(pool, "pack-f%d.idx" % k)) for k in range(1, nfiles + 1)]
    if sorted(sizes, reverse=True) != sizes or len(set(sizes)) != len(sizes):
        raise ToolError("pool index files are not strictly decreasing in size: %s" % sizes)
    return pool, probe


def run_slotmap(ctx, binary):
    """the slot allocation: SlotMap.tla model-checked, SlotMap_Gen histories replayed (structure()/metrics() after every lookup)"""
    fixes = {"Fix_KeepLive": "TRUE", "Fix_Precount": "TRUE"}
    if os.environ.get("VERIF_C12_SKIPMC"):
        pass
    elif not ctx.thorough:
        ctx.tlc_mc("odb", "SlotMap", consts=dict(fixes, NSlots=2, Files="{1, 2, 3}", AllowOverflow="TRUE"), workers=4, timeout=1200, coverage=False)
    else:
        ctx.tlc_mc("odb", "SlotMap", consts=dict(fixes, NSlots=3, Files="{1, 2, 3}", AllowOverflow="TRUE"), workers=8, timeout=3000, coverage=False, xmx="12g")
        # (3 slots x 4 files: 13.9 M distinct states, 35 min with 3 workers - run once by hand, see DESIGN.md)
    if ctx.thorough:
        # self-tests: the seeded change (no new generation on slot reuse) and the allocation as it was found must violate the model's properties
        ctx.tlc_mc("odb", "SlotMap", consts=dict(fixes, NSlots=2, Files="{1, 2, 3}", AllowOverflow="TRUE", Bug_NoGenBump="TRUE"), workers=4,
                   timeout=1200, coverage=False, expect_violation="EverySlotLoadable")
        ctx.tlc_mc("odb", "SlotMap", consts={"Fix_KeepLive": "FALSE", "Fix_Precount": "FALSE", "NSlots": 2, "Files": "{1, 2, 3}", "AllowOverflow": "TRUE"},
                   workers=1, timeout=1200, coverage=False, expect_violation="EveryFileHasItsSlot")
    pool, probe = pack_pool(ctx)
    hist = ctx.tlc_gen("odb", "SlotMap_Gen", consts=dict(fixes, MaxSteps=24), workers=1, sim="num=%d" % (int(os.environ.get("VERIF_C12_NSIM", "150")) if not ctx.thorough else 800), timeout=900)
    for c in hist:
        c.update({"op": "slotmap", "slots": 3, "pool": pool, "probe": probe})
    res = ctx.harness(binary, hist, timeout=600, max_failures=3)
    nlook = 0
    for c, r in zip(hist, res):
        ctx.nontrivial(json.dumps(c["steps"], sort_keys=True))
        if "got" not in r:
            if not r.get("skipped"):
                ctx.violation({"kind": "slotmap", "case": c, "hang": "hang" in r, "what": "lookup did not return or the executor died: %s" % json.dumps(r)[:300]})
            continue
        disk = set()
        for k, (s, g) in enumerate(zip(c["steps"], r["got"])):
            if s["op"] == "add":
                disk.add(s["f"])
            elif s["op"] == "remove":
                disk.discard(s["f"])
            if s["op"] != "lookup":
                continue
            nlook += 1
            bad = []
            if "panic" in g or "error" in g:
                bad.append("lookup panicked/failed: %s" % json.dumps(g)[:200])
            else:
                if g["found_missing"]:
                    bad.append("an id that does not exist was found")
                if g["ok"] != s["ok"]:
                    bad.append("lookup %s, model: %s (%s)" % ("returned" if g["ok"] else "was refused", "returns" if s["ok"] else "refused", g["err"][:80]))
                if not g["ok"] and g["err"] and "slotmap turned out to be too small" not in g["err"]:
                    bad.append("unexpected error: %s" % g["err"][:120])
                for key in ("order", "disposable", "unused", "kept"):
                    if g[key] != s[key]:
                        bad.append("%s: store shows %s, model %s" % (key, g[key], s[key]))
                for pr in g["probes"]:
                    if not pr.get("found") or not pr.get("exact"):
                        bad.append("object of pack file %s (on disk) after a successful refresh: %s" % (pr["f"], json.dumps(pr)))
            if bad:
                ctx.violation({"kind": "slotmap", "case": c, "step": k, "observed": g, "expected": s, "mismatch": bad, "disk": sorted(disk),
                               "what": "after step %d of %s" % (k, [(x["op"] + (str(x["f"]) if x["f"] else "")) for x in c["steps"][:k + 1]])})
                break
    ctx.cov["slotmap_histories"] = len(hist)
    ctx.cov["slotmap_lookups_compared"] = nlook


def run(ctx):
    binary = ctx.build("vh-c12")
    if os.environ.get("VERIF_C12_ONLY") == "slotmap":
        run_slotmap(ctx, binary)
        return
    tdir, objects = template(ctx)
    env = {"VERIF_C12_TEMPLATE": tdir}
    # the design
    ctx.tlc_mc("odb", "OdbStore", consts={"MaxEnv": 1 if not ctx.thorough else 2}, workers=8, timeout=3000, coverage=False, xmx="12g")
    # (the self-test mutant BugUnreachable needed the "reused slot is cleared afterwards" path of the allocation as it was found; with the
    #  repaired allocation a cleared slot is seen by an older snapshot only after three environment steps, 2.9e7 states without a
    #  violation at MaxEnv=2 - the self-tests of the allocation are the two SlotMap runs in run_slotmap)
    # whole-lookup sequences
    cases = ctx.tlc_gen("odb", "OdbCalls_Gen", consts={"MaxSteps": 4 if not ctx.thorough else 5, "Wide": "FALSE"}, timeout=3000)
    cases.sort(key=lambda c: json.dumps(c, sort_keys=True))
    if not ctx.thorough:
        key = [c for c in cases if any(s["env"] == "repack_ad" for s in c["steps"])]
        rest = [c for c in cases if not any(s["env"] == "repack_ad" for s in c["steps"])]
        cases = key + ctx.rng.sample(rest, min(len(rest), 250))
    else:
        cases = ctx.rng.sample(cases, min(len(cases), 2500))
    for c in cases:
        c["op"] = "calls"
        c["objects"] = objects
        c["slots"] = 4
        for s in c["steps"]:
            if s["env"] == "":
                s.pop("env")
    res = ctx.harness(binary, cases, env=env, timeout=3000)
    for c, r in zip(cases, res):
        ctx.nontrivial(json.dumps(c["steps"], sort_keys=True))
        if "got" not in r:
            ctx.violation({"kind": "calls", "case": c, "what": "executor crashed: %s" % json.dumps(r)[:300]})
            continue
        for k, (s, g) in enumerate(zip(c["steps"], r["got"])):
            if "env" in s:
                if g.get("env") != "ok":
                    raise ToolError("git maintenance step %s failed" % s["env"])
                continue
            if "panic" in g or "error" in g or g.get("found") != s["found"] or not g.get("exact", False):
                ctx.violation({"kind": "calls", "case": c, "step": k, "observed": g, "panic": "panic" in g,
                               "what": "step %d %s.%s(%s): got %s, model: found=%s exact" % (k, s["h"], s["op"], s["obj"], json.dumps(g)[:200], s["found"])})
                break
    # long histories drawn by TLC's simulator: a third handle that keeps deleted packs available is opened and dropped,
    # several maintenance steps, three slots only (slots of vanished packs are reused)
    hist = ctx.tlc_gen("odb", "OdbHist_Gen", consts={"MaxSteps": 30}, workers=1, sim="num=%d" % (40 if not ctx.thorough else 160), timeout=600,
                       ) if True else []
    for k, c in enumerate(hist):
        c["op"] = "calls"
        c["objects"] = objects
        c["slots"] = 3
        c["date"] = 1000000000 + 100000 * (ctx.seed % 1000) + 1000 * k      # commit dates (hence pack names) are part of the case
    res = ctx.harness(binary, hist, env=env, timeout=300, max_failures=3)
    for c, r in zip(hist, res):
        ctx.nontrivial(json.dumps(c["steps"], sort_keys=True))
        if "got" not in r:
            if not r.get("skipped"):
                ctx.violation({"kind": "history", "case": c, "hang": "hang" in r, "what": "lookup did not return or the executor died: %s" % json.dumps(r)[:300]})
            continue
        pinned, stable = set(), False        # index files a stable handle may keep in their slots after they were deleted
        for k, (s, g) in enumerate(zip(c["steps"], r["got"])):
            if s["env"]:
                if g.get("env") != "ok":
                    raise ToolError("git maintenance step %s failed" % s["env"])
                continue
            if s["op"] in ("open_stable", "drop"):
                # slots of deleted index files that were kept for a stable handle are only given up when another file needs them
                # while no stable handle exists: from the first stable handle on, count every index file seen (an upper bound)
                stable = stable or s["op"] == "open_stable"
                continue
            now = set(g.get("idx", []))
            if stable:
                pinned |= now
            else:
                pinned = set(now)
            # the store was opened with three slots: when more index files than that have to be held (those on disk and those a
            # stable handle keeps), a lookup may refuse with that explicit error - it must not answer "not there", hang or panic
            if "slotmap turned out to be too small" in str(g.get("error", "")) and len(pinned) > c["slots"]:
                ctx.cov["refused_insufficient_slots"] = ctx.cov.get("refused_insufficient_slots", 0) + 1
                break
            if "panic" in g or "error" in g or g.get("found") != s["found"] or not g.get("exact", False):
                ctx.violation({"kind": "history", "case": c, "step": k, "observed": g, "panic": "panic" in g,
                               "op": s["op"], "slots_exhausted": len(pinned) > c["slots"],
                               "what": "step %d %s.%s(%s) after %s: got %s, model: found=%s exact" % (
                                   k, s["h"], s["op"], s["obj"], [x["env"] or x["op"] for x in c["steps"][:k] if x["env"] or x["op"] in ("open_stable", "drop")],
                                   json.dumps(g)[:200], s["found"])})
                break
    ctx.cov["histories"] = len(hist)
    ctx.cov["exhaustive"] = bool(ctx.thorough)
    # the slot allocation itself
    run_slotmap(ctx, binary)
    ctx.sample({"steps": [(s.get("env") or "%s.%s(%s)" % (s["h"], s["op"], s["obj"])) for s in cases[0]["steps"]]})
    # stress
    runs = [{"op": "stress", "threads": t, "millis": 2500 if not ctx.thorough else 20000, "seed": ctx.seed + i, "objects": objects, "slots": sl}
            for i, (t, sl) in enumerate([(4, 3), (8, 8)] if not ctx.thorough else [(2, 2), (4, 3), (8, 4), (16, 8), (8, 32)])]
    res = ctx.harness(binary, runs, env=env, timeout=3000)
    lookups = 0
    for c, r in zip(runs, res):
        if "got" not in r:
            ctx.violation({"kind": "stress", "case": c, "what": "executor crashed: %s" % json.dumps(r)[:300]})
            continue
        g = r["got"]
        lookups += g["lookups"]
        ctx.nontrivial("stress-%d-%d" % (c["threads"], c["seed"]))
        # the maintenance script has up to 7 index files at once; a store opened with fewer slots may refuse a lookup with
        # the explicit InsufficientSlots error (counted) - anything else, and any such error with enough slots, is judged
        refused = [a for a in g["anomalies"] if c["slots"] < 8 and "slotmap turned out to be too small" in str(a["result"].get("error", ""))]
        ctx.cov["stress_refused_insufficient_slots"] = ctx.cov.get("stress_refused_insufficient_slots", 0) + len(refused)
        for a in [a for a in g["anomalies"] if a not in refused][:3]:
            ctx.violation({"kind": "stress", "case": c, "anomaly": a, "panic": "panic" in a["result"],
                           "op": a["op"], "observed": a["result"], "slots_exhausted": c["slots"] < 8,
                           "what": "lookup of %s id %s answered %s during repacking" % ("present" if a["present"] else "missing", a["id"][:8], json.dumps(a["result"])[:200])})
    ctx.cov["stress_lookups"] = lookups
    ctx.cov["rule"] = ("Model: OdbStore instance 2 handles x 2 files x 2 slots (all interleavings). Replay: lookup/maintenance sequences of OdbCalls_Gen "
                       "(%d steps; quick: all with `repack -a -d` + a seeded sample of the others). Histories: %d behaviours of OdbHist_Gen drawn by "
                       "TLC's simulator (30 steps: handles A, B and a handle S with prevent_pack_unload() that is opened and dropped, new packs, "
                       "repack -a -d, multi-pack-index write, prune-packed) replayed on a store with 3 slots, so slots of deleted packs are kept, "
                       "given up and reused; an explicit InsufficientSlots error is accepted only while more index files have to be held than "
                       "there are slots. Stress: %d runs. Non-trivial/distinct = each sequence with a maintenance step before a lookup, each "
                       "history, each stress run. Slot allocation: SlotMap.tla (sequential transcription of consolidate_with_disk_state: slots, "
                       "slot-map index, generations, stable handles, refusal) model-checked for EveryFileHasItsSlot, EverySlotLoadable, "
                       "RefusedOnlyWhenFull, StableIdsStay, RefreshSettles, ReuseBumpsGeneration; %d SlotMap_Gen histories (pack files copied in "
                       "and out of an object directory, stable handle opened/dropped, lookups of an absent id) replayed on a 3-slot store and "
                       "compared after every lookup with Store::structure()/metrics() and lookups of one object per pack on disk."
                       % (4 if not ctx.thorough else 5, len(hist), len(runs), ctx.cov.get("slotmap_histories", 0)))


def replay(ctx, rec):
    binary = ctx.build("vh-c12")
    tdir, objects = template(ctx)
    c = rec["case"]
    if c.get("op") != "calls":
        ctx.log("stress findings depend on the schedule; re-run the tier")
        return
    c["objects"] = objects
    r = ctx.harness(binary, [c], env={"VERIF_C12_TEMPLATE": tdir})[0]
    for k, (s, g) in enumerate(zip(c["steps"], r.get("got", []))):
        if s.get("env") or s.get("op") in ("open_stable", "drop"):
            continue
        if "panic" in g or "error" in g or g.get("found") != s["found"] or not g.get("exact", False):
            ctx.violation({"kind": "calls", "case": c, "step": k, "observed": g, "what": "replayed"})
            return
