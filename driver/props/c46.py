"""C46 - Merge bases agree with git (with and without a commit-graph).

spec/history/Dag.tla: histories as parent-list functions, Anc, MergeBases(first, others) = the maximal common
ancestors of `first` and any of `others` (what `git merge-base --all` prints).
 A: DagMB_Gen enumerates every history of <= MaxN commits (ordered parents, several roots, criss-cross) x commit-time
    patterns (consistent / all equal / reversed = maximal clock skew / ...) x every query whose tips cover the
    childless commits, with the specification's merge-base set. All worlds are materialised in ONE repository
    (git fast-import; disjoint components), read back with git cat-file and compared with the abstract worlds;
    gix_revision::merge_base is run without a commit-graph, with a complete one and with a partial one
    (written by git commit-graph write), with a fresh Graph per call and with one Graph reused per world,
    with `others` in both orders.
 B: seeded random larger histories (<= 26 commits, random skewed times, octopus merges) and query tuples; the
    recorded answers are judged by TLC (DagMB_Trace).
 C: `git merge-base --all` on the same queries: compared with the printed expectation (A) / judged by the same
    trace module (B). A disagreement is a tool error.

This module also hosts the helpers shared by C47 and C54 (materialising abstract histories with git).
"""
import concurrent.futures
from vf import *

LEVEL = "exploration"
BASE_T = 1600000000
EMPTY_TREE = "4b825dc642cb6eb9a060e54bf8d69288fbee4904"


# ------------------------------------------------------------------ shared: abstract histories -> one git repository
def gitc(args, cwd, input=b"", timeout=1800):
    p = git(["-c", "core.fsync=none", "-c", "gc.auto=0"] + list(args), cwd=cwd, input=input, timeout=timeout)
    if p.returncode != 0:
        raise ToolError("git %s failed: %s" % (" ".join(map(str, args))[:200], p.stderr.decode("utf-8", "replace")[-400:]))
    return p.stdout


class Repo:
    """worlds[w] = {"par": [[parent indices 1-based]..], "time": [..]}; ids[w][c-1] = hex id of commit c of world w"""

    def __init__(self, ctx, worlds, tag, trees=None, partial=None):
        self.worlds = worlds
        self.root = os.path.join(ctx.work, tag)
        os.makedirs(self.root)
        self.main = os.path.join(self.root, "none.git")
        gitc(["init", "-q", "--bare", self.main], cwd=self.root)
        t0 = time.time()
        # One fast-import stream for all worlds. A commit continues the in-memory branch whose tip is its first parent
        # when that is still possible (no object is read back then); otherwise it starts a branch `from` the parent.
        # All branches are reset at the end, so no refs are written: the repository holds just the objects.
        out = []
        mark = 0
        nb = 0
        self.mark0 = []
        for w, d in enumerate(worlds):
            self.mark0.append(mark)
            tip = {}
            for c, ps in enumerate(d["par"], 1):
                mark += 1
                msg = "w%d c%d\n" % (w, c)
                fromline = ""
                if ps and ps[0] in tip:
                    br = tip.pop(ps[0])
                else:
                    nb += 1
                    br = "refs/heads/b%d" % nb
                    if ps:
                        fromline = "from :%d\n" % (self.mark0[w] + ps[0])
                tip[c] = br
                out.append("commit %s\nmark :%d\ncommitter C <c@x> %d +0000\ndata %d\n%s%s"
                           % (br, mark, BASE_T + d["time"][c - 1], len(msg), msg, fromline))
                for p in ps[1:]:
                    out.append("merge :%d\n" % (self.mark0[w] + p))
                if trees is not None:
                    out.append("M 040000 %s \n" % trees[w][c - 1])
                out.append("\n")
        for k in range(1, nb + 1):
            out.append("reset refs/heads/b%d\n\n" % k)
        marks = os.path.join(self.root, "marks")
        p = git(["-c", "core.fsync=none", "fast-import", "--quiet", "--done", "--active-branches=100000000", "--export-marks=" + marks],
                cwd=self.main, input=("".join(out) + "done\n").encode(), timeout=3600,
                env={"MALLOC_TRIM_THRESHOLD_": "268435456", "MALLOC_TOP_PAD_": "16777216", "MALLOC_MMAP_THRESHOLD_": "33554432"})
        if p.returncode != 0:
            raise ToolError("git fast-import failed: %s" % p.stderr.decode("utf-8", "replace")[-400:])
        if gitc(["for-each-ref"], cwd=self.main).strip():
            raise ToolError("fast-import left refs behind")
        by_mark = {}
        for line in open(marks):
            m, h = line.split()
            by_mark[int(m[1:])] = h
        if len(by_mark) != mark:
            raise ToolError("fast-import exported %d marks for %d commits" % (len(by_mark), mark))
        self.ids = [[by_mark[self.mark0[w] + c] for c in range(1, len(d["par"]) + 1)] for w, d in enumerate(worlds)]
        self.index = {}
        for w, hs in enumerate(self.ids):
            for c, h in enumerate(hs, 1):
                if h in self.index:
                    raise ToolError("two abstract commits share one id: %s" % h)
                self.index[h] = (w, c)
        self.ncommits = mark
        self.readback(trees)
        ctx.log("materialised %d worlds / %d commits with git fast-import and read them back in %.1fs"
                % (len(worlds), mark, time.time() - t0))
        self.variants = {"none": self.main}
        self.partial = partial

    def readback(self, trees=None):
        """the commits git stored are the abstract ones: parents in order, committer time (rule 10)"""
        allh = [h for hs in self.ids for h in hs]
        data = gitc(["cat-file", "--batch"], cwd=self.main, input=("\n".join(allh) + "\n").encode())
        pos = 0
        for w, d in enumerate(self.worlds):
            for c, ps in enumerate(d["par"], 1):
                nl = data.index(b"\n", pos)
                h, typ, size = data[pos:nl].split()
                body = data[nl + 1: nl + 1 + int(size)]
                pos = nl + 1 + int(size) + 1
                if h.decode() != self.ids[w][c - 1] or typ != b"commit":
                    raise ToolError("read-back: unexpected object %r" % data[pos:nl])
                head = body.split(b"\n\n", 1)[0].decode().split("\n")
                parents = [x.split()[1] for x in head if x.startswith("parent ")]
                ctime = [int(x.split()[-2]) for x in head if x.startswith("committer ")][0]
                tree = [x.split()[1] for x in head if x.startswith("tree ")][0]
                want = [self.ids[w][p - 1] for p in ps]
                want_tree = trees[w][c - 1] if trees is not None else EMPTY_TREE
                if parents != want or ctime != BASE_T + d["time"][c - 1] or tree != want_tree:
                    raise ToolError("read-back mismatch in world %d commit %d: git has parents=%s time=%d tree=%s" % (w, c, parents, ctime, tree))

    def add_graph_variants(self, ctx, partial_pick):
        """'full': a commit-graph over every commit; 'part': a commit-graph over the ancestors of one commit per world
        (partial_pick(w, n) -> commit index). Both are separate repositories borrowing the objects via alternates."""
        for name in ("full", "part"):
            path = os.path.join(self.root, name + ".git")
            gitc(["init", "-q", "--bare", path], cwd=self.root)
            with open(os.path.join(path, "objects", "info", "alternates"), "w") as f:
                f.write(os.path.join(self.main, "objects") + "\n")
            if name == "full":
                tips = [h for hs in self.ids for h in hs]
            else:
                tips = [hs[partial_pick(w, len(hs)) - 1] for w, hs in enumerate(self.ids)]
            gitc(["commit-graph", "write", "--stdin-commits"], cwd=path, input=("\n".join(tips) + "\n").encode())
            if not os.path.exists(os.path.join(path, "objects", "info", "commit-graph")):
                raise ToolError("git wrote no commit-graph for variant " + name)
            self.variants[name] = path
        ctx.log("commit-graph variants written (full, partial)")

    def hexes(self, w, commits):
        return [self.ids[w][c - 1] for c in commits]

    def numbers(self, w, hexes):
        """hex ids -> commit numbers of world w (None for an id outside the world)"""
        res = []
        for h in hexes:
            ww, c = self.index.get(h, (None, None))
            res.append(c if ww == w else None)
        return res


def world_key(d):
    return json.dumps([d["par"], d["time"]])


# ------------------------------------------------------------------ C46 proper
MODES = [("none", False, False), ("none", True, False), ("none", False, True),
         ("full", False, False), ("full", True, False), ("part", False, False), ("part", True, True)]
#          variant, reuse one Graph per world, others reversed


def run_gix(ctx, binary, repo, wq, chunk=400):
    """wq: list of (w, [query..]); returns {mode: [[result per query] per entry of wq]}"""
    res = {}
    for mode in MODES:
        variant, reuse, rev = mode
        path = repo.variants[variant]
        cases = []
        for i in range(0, len(wq), chunk):
            groups = []
            for w, qs in wq[i:i + chunk]:
                groups.append([{"first": repo.ids[w][q["first"] - 1],
                                "others": repo.hexes(w, reversed(q["others"]) if rev else q["others"])} for q in qs])
            cases.append({"objects": os.path.join(path, "objects"),
                          "cgraph": "" if variant == "none" else os.path.join(path, "objects", "info"),
                          "reuse": reuse, "groups": groups})
        out = ctx.harness(binary, cases)
        flat = []
        for r in out:
            if "got" not in r:
                raise ToolError("executor failed outside of merge_base: %s" % json.dumps(r)[:300])
            flat.extend(r["got"]["groups"])
        ctx.cov["evaluations"] += sum(len(g) for g in flat) - len(cases)     # one evaluation per merge_base call
        res[mode] = flat
    return res


def observed(repo, w, r):
    """executor answer -> abstract observation (commit numbers)"""
    if "bases" not in r:
        return {"failed": r}
    return {"none": r["none"], "bases": repo.numbers(w, r["bases"])}


def git_merge_bases(repo, variant, w, q):
    p = git(["merge-base", "--all", repo.ids[w][q["first"] - 1]] + repo.hexes(w, q["others"]), cwd=repo.variants[variant])
    if p.returncode not in (0, 1) or p.stderr:
        raise ToolError("git merge-base failed: %s" % p.stderr.decode("utf-8", "replace")[-300:])
    return repo.numbers(w, p.stdout.decode().split())


GIT_ENV = {"GIT_CONFIG_NOSYSTEM": "1", "GIT_CONFIG_GLOBAL": "/dev/null", "HOME": WORK_ROOT, "LC_ALL": "C", "GIT_TERMINAL_PROMPT": "0"}


def sh_git_batch(ctx, cwd, lines):
    """run many git commands in one shell (process creation from Python is the bottleneck on a loaded machine);
    every command line is followed by a status line '=<rc>'. Returns [(rc, [output lines])]."""
    path = os.path.join(ctx.work, "batch-%d-%d.sh" % (os.getpid(), sh_git_batch.n))
    sh_git_batch.n += 1
    with open(path, "w") as f:
        for ln in lines:
            f.write(ln + '\necho "=$?"\n')
    e = dict(os.environ)
    e.update(GIT_ENV)
    p = subprocess.run(["sh", path], cwd=cwd, env=e, stdout=subprocess.PIPE, stderr=subprocess.PIPE, stdin=subprocess.DEVNULL, timeout=3600)
    if p.returncode != 0 or p.stderr:
        raise ToolError("git batch failed: %s" % p.stderr.decode("utf-8", "replace")[-300:])
    res, cur = [], []
    for ln in p.stdout.decode().split("\n"):
        if ln.startswith("="):
            res.append((int(ln[1:]), cur))
            cur = []
        elif ln:
            cur.append(ln)
    if len(res) != len(lines):
        raise ToolError("git batch: %d results for %d commands" % (len(res), len(lines)))
    os.remove(path)
    return res


sh_git_batch.n = 0


def audit_many(ctx, repo, items, threads=4, via_revparse=True):
    """items: (variant, w, q) -> git's merge bases (commit numbers) for each.
    Queries with several others, and a tenth of the two-tip queries, go through `git merge-base --all`; the bulk of
    the two-tip queries through `git rev-parse A...B` (= A B ^<every merge base>, same get_merge_bases machinery),
    which answers hundreds of queries per process."""
    answers = [None] * len(items)
    jobs = []
    for variant in sorted({it[0] for it in items}):
        mb, rp = [], []
        for i, (v, w, q) in enumerate(items):
            if v != variant:
                continue
            if via_revparse and len(q["others"]) == 1 and i % 200:
                rp.append(i)
            else:
                mb.append(i)
        for k in range(0, len(mb), 500):
            jobs.append(("mb", variant, mb[k:k + 500]))
        for k in range(0, len(rp), 400):
            jobs.append(("rp", variant, rp[k:k + 400]))

    def one(job):
        kind, variant, idx = job
        cwd = repo.variants[variant]
        if kind == "mb":
            lines = []
            for i in idx:
                _v, w, q = items[i]
                lines.append("git merge-base --all %s %s" % (repo.ids[w][q["first"] - 1], " ".join(repo.hexes(w, q["others"]))))
            for i, (rc, out) in zip(idx, sh_git_batch(ctx, cwd, lines)):
                if rc not in (0, 1):
                    raise ToolError("git merge-base --all exited with %d" % rc)
                answers[i] = repo.numbers(items[i][1], out)
        else:
            args = []
            for i in idx:
                _v, w, q = items[i]
                args.append("%s...%s" % (repo.ids[w][q["first"] - 1], repo.ids[w][q["others"][0] - 1]))
            p = git(["rev-parse"] + args, cwd=cwd)
            if p.returncode != 0 or p.stderr:
                raise ToolError("git rev-parse A...B failed: %s" % p.stderr.decode("utf-8", "replace")[-300:])
            out = p.stdout.decode().split()
            pos = 0
            for i in idx:
                _v, w, q = items[i]
                if out[pos:pos + 2] != [repo.ids[w][q["others"][0] - 1], repo.ids[w][q["first"] - 1]]:   # prints B, A, ^bases
                    raise ToolError("git rev-parse A...B: unexpected output shape")
                pos += 2
                bases = []
                while pos < len(out) and out[pos].startswith("^"):
                    bases.append(out[pos][1:])
                    pos += 1
                answers[i] = repo.numbers(w, bases)
            if pos != len(out):
                raise ToolError("git rev-parse A...B: trailing output")

    with concurrent.futures.ThreadPoolExecutor(threads) as ex:
        list(ex.map(one, jobs))
    return answers


def mode_name(mode):
    return "%s%s%s" % (mode[0], "+reuse" if mode[1] else "", "+rev" if mode[2] else "")


def classes_of(want, obs):
    if "failed" in obs:
        return ["panic" if "panic" in obs["failed"] else "error"]
    got = obs["bases"]
    cl = []
    if len(set(got)) != len(got):
        cl.append("duplicate")
    if set(got) - set(want):
        cl.append("extra")
    if set(want) - set(got):
        cl.append("missing-base")
    if obs["none"] != (not want):
        cl.append("none-flag")
    return cl or ["other"]


def part_pick(w, n):
    return (w % n) + 1


def gen_runs(ctx):
    if ctx.thorough:
        # all shapes up to 5 commits incl. octopus merges under three time patterns; the 6-commit shapes with two-parent
        # merges under reversed times, two-tip queries
        return [{"MinN": 1, "MaxN": 5, "MaxPar": 3, "MaxOthers": 2, "Pats": '{"inc", "eq", "dec"}'},
                {"MinN": 6, "MaxN": 6, "MaxPar": 2, "MaxOthers": 1, "Pats": '{"dec"}'}]
    return [{"MinN": 1, "MaxN": 5, "MaxPar": 2, "MaxOthers": 2, "Pats": '{"inc", "eq", "dec"}'}]


def run(ctx):
    binary = ctx.build("vh-c46")
    worlds = []
    for consts in gen_runs(ctx):
        worlds += [d for d in ctx.tlc_gen("history", "DagMB_Gen", consts=consts, workers=6, timeout=3000) if d["queries"]]
    ctx.cov["exhaustive"] = True
    # quick tier: every world, but of the 5-commit worlds only the queries that run the algorithm
    # (first not among others) - the shortcut is covered by the smaller worlds
    nq = 0
    wq = []
    for w, d in enumerate(worlds):
        qs = d["queries"]
        if len(d["par"]) >= 5:
            qs = [q for q in qs if q["first"] not in q["others"] and q["others"]]
        wq.append((w, qs))
        nq += len(qs)
    ctx.log("%d worlds, %d queries" % (len(worlds), nq))
    repo = Repo(ctx, worlds, "gen")
    repo.add_graph_variants(ctx, part_pick)
    multi = none = 0
    for lo in range(0, len(wq), 2000):      # chunked: the observations of all modes are large
        part = wq[lo:lo + 2000]
        res = run_gix(ctx, binary, repo, part)
        for k, (w, qs) in enumerate(part):
            d = worlds[w]
            for j, q in enumerate(qs):
                want = q["mb"]
                if q["others"] and q["first"] not in q["others"]:
                    ctx.nontrivial((w, q["first"], tuple(q["others"])))
                multi += len(want) > 1
                none += not want
                bad = []
                for mode in MODES:
                    obs = observed(repo, w, res[mode][k][j])
                    ok = "failed" not in obs and sorted(obs["bases"], key=lambda x: (x is None, x)) == want and obs["none"] == (not want)
                    if not ok:
                        bad.append((mode, obs))
                if bad:
                    mode, obs = bad[0]
                    ctx.violation({"kind": "gen", "case": {"par": d["par"], "time": d["time"], "pat": d["pat"], "first": q["first"],
                                                           "others": q["others"], "mb": want, "mode": list(mode)},
                                   "mode": mode_name(mode), "failing_modes": [mode_name(m) for m, _o in bad], "observed": obs,
                                   "classes": sorted({c for _m, o in bad for c in classes_of(want, o)}), "ids": repo.ids[w]})
        del res
    ctx.log("gitoxide answered %d queries in %d modes" % (nq, len(MODES)))
    summary = {}
    for v in ctx.violations + [r for _f, r in ctx.known_hits.values()]:
        k = "%s in %s" % ("+".join(v["classes"]), ",".join(v.get("failing_modes", [])))
        summary[k] = summary.get(k, 0) + 1
    if summary:
        ctx.log("disagreements by class and mode: %s" % json.dumps(summary, sort_keys=True))
    ctx.cov["queries_with_several_bases"] = multi
    ctx.cov["queries_without_base"] = none
    mid = [d for d in worlds[len(worlds) // 2:] if d["queries"]][0]
    ctx.sample({"world": {"par": mid["par"], "time": mid["time"]}, "query": mid["queries"][-1]})

    # binding C: git on the generated queries: every two-tip query, and a stride of the queries with several others
    budget = 250 if not ctx.thorough else 4000
    two, many = [], []
    for w, qs in wq:
        for q in qs:
            if len(q["others"]) == 1:
                two.append(("none", w, q))
            elif q["others"]:   # `git merge-base --all A` is a usage error: others = {} is not observable through git
                many.append(("none", w, q))
    stride = max(1, len(many) // budget + 1)
    items = two + many[ctx.seed % stride:: stride]
    # a sample through the commit-graph variants as well
    items += [(v, w, q) for (_n, w, q) in items[::7] for v in ("full", "part") if len(q["others"]) == 1]
    t0 = time.time()
    answers = audit_many(ctx, repo, items)
    for (variant, w, q), got in zip(items, answers):
        if sorted(got, key=lambda x: (x is None, x)) != q["mb"]:
            audit_mismatch(ctx, "Dag!MergeBases", {"world": worlds[w]["par"], "time": worlds[w]["time"], "query": q,
                                                   "git": got, "variant": variant})
    ctx.cov["git_audited"] = len(items)
    ctx.log("audit: git merge-base --all / rev-parse A...B agreed with the specification on %d queries (%.1fs)" % (len(items), time.time() - t0))

    random_part(ctx, binary)
    # smallest failing inputs first (finish() writes the first few)
    ctx.violations.sort(key=lambda v: (len(v["case"]["par"]), len(v["case"]["others"]), sum(map(len, v["case"]["par"]))))
    ctx.cov["rule"] = ("A: every history of <= MaxN commits (ordered parent lists of <= MaxPar parents, several roots) x time patterns x every "
                       "(first, others <= MaxOthers) whose tips cover all childless commits; B: seeded random histories of 6..26 commits. "
                       "Non-trivial = a query that runs the algorithm (others non-empty, first not among them); distinct by "
                       "(world, first, others). Generator constants: %s" % json.dumps(gen_runs(ctx)))
    ctx.assumptions += ["git 2.39.5 merge-base --all is the reference for Dag!MergeBases (audited on every run)",
                        "object ids are uninterpreted: commits are numbered, the driver maps numbers to the ids git assigned",
                        "the order of the returned bases ('best to worst') is not judged, only the set and duplicate-freedom",
                        "shallow/grafted histories and replace refs are outside the judged domain"]


def random_world(rng, n):
    par = []
    style = rng.choice(["noisy", "random", "ties", "reversed", "consistent"])
    for c in range(1, n + 1):
        k = 0 if c == 1 else rng.choice([0, 1, 1, 1, 1, 2, 2, 2, 3])
        k = min(k, c - 1)
        lo = max(1, c - rng.choice([2, 4, 8, 30]))
        pool = list(range(lo, c))
        ps = []
        while len(ps) < k and pool:
            p = rng.choice(pool)
            pool.remove(p)
            ps.append(p)
        par.append(ps)
    if style == "consistent":
        tm = [10 * c for c in range(n)]
    elif style == "noisy":
        tm = [max(0, 10 * c + rng.randint(-40, 40)) for c in range(n)]
    elif style == "random":
        tm = [rng.randint(0, 300) for _ in range(n)]
    elif style == "ties":
        tm = [rng.randint(0, 3) for _ in range(n)]
    else:
        tm = [10 * (n - c) for c in range(n)]
    return {"par": par, "time": tm}


def random_part(ctx, binary):
    nw = 120 if not ctx.thorough else 1000
    worlds, wq = [], []
    for w in range(nw):
        n = ctx.rng.randint(6, 26)
        d = random_world(ctx.rng, n)
        qs = []
        for _ in range(6):
            first = ctx.rng.randint(max(1, n - 8), n)
            k = ctx.rng.choice([1, 1, 1, 1, 1, 2, 3, 4])
            others = sorted({ctx.rng.randint(max(1, n - 10), n) for _ in range(k)})
            qs.append({"first": first, "others": others})
        worlds.append(d)
        wq.append((w, qs))
    repo = Repo(ctx, worlds, "rnd")
    repo.add_graph_variants(ctx, part_pick)
    res = run_gix(ctx, binary, repo, wq)
    items = [("none", w, q) for w, qs in wq for q in qs]
    answers = audit_many(ctx, repo, items)
    events, meta = [], []
    a = 0
    for k, (w, qs) in enumerate(wq):
        d = worlds[w]
        for j, q in enumerate(qs):
            base = {"par": d["par"], "time": d["time"], "first": q["first"], "others": q["others"]}
            g = answers[a]
            a += 1
            if None in g:
                raise ToolError("git answered with a commit of another world")
            events.append(dict(base, none=not g, bases=g))
            meta.append(("git", w, q, None))
            seen = {}
            for mode in MODES:
                obs = observed(repo, w, res[mode][k][j])
                if "failed" in obs or None in obs["bases"]:
                    ctx.violation({"kind": "random", "case": dict(base, mode=list(mode)), "mode": mode_name(mode), "observed": obs,
                                   "classes": classes_of([], obs) if "failed" in obs else ["foreign-commit"], "ids": repo.ids[w]})
                    continue
                key = json.dumps(obs)
                if key in seen:
                    seen[key].append(mode)
                    continue
                seen[key] = [mode]
                events.append(dict(base, none=obs["none"], bases=obs["bases"]))
                meta.append(("gix", w, q, seen[key]))
            if q["first"] not in q["others"]:
                ctx.nontrivial(("r", w, q["first"], tuple(q["others"])))
    rejected = ctx.tlc_trace("history", "DagMB_Trace", events)
    for i in rejected:
        src, w, q, modes = meta[i]
        if src == "git":
            audit_mismatch(ctx, "Dag!MergeBases (random)", {"world": worlds[w], "query": q, "git": events[i]["bases"]})
    for i in rejected:
        src, w, q, modes = meta[i]
        ev = events[i]
        ctx.violation({"kind": "trace", "case": {"par": ev["par"], "time": ev["time"], "first": ev["first"], "others": ev["others"],
                                                 "mode": list(modes[0])},
                       "mode": mode_name(modes[0]), "all_modes": [mode_name(m) for m in modes],
                       "observed": {"none": ev["none"], "bases": ev["bases"]}, "classes": ["trace"], "ids": repo.ids[w]})
    ctx.cov["random_worlds"] = nw
    ctx.cov["git_audited"] += len(items)
    ctx.sample({"random_world": worlds[0], "query": wq[0][1][0], "git": events[0]["bases"]})


def replay(ctx, rec):
    binary = ctx.build("vh-c46")
    c = rec["case"]
    d = {"par": c["par"], "time": c["time"]}
    q = {"first": c["first"], "others": c["others"]}
    repo = Repo(ctx, [d], "replay")
    repo.add_graph_variants(ctx, part_pick)
    mode = tuple(c["mode"])
    global MODES
    saved = MODES
    MODES = [mode]
    try:
        res = run_gix(ctx, binary, repo, [(0, [q])])
    finally:
        MODES = saved
    obs = observed(repo, 0, res[mode][0][0])
    g = git_merge_bases(repo, mode[0], 0, q)
    ctx.log("gitoxide (%s): %s   git: %s" % (mode_name(mode), obs, sorted(g)))
    if "failed" in obs or None in obs["bases"]:
        ctx.violation(dict(rec, observed=obs))
        return
    base = dict(d, first=q["first"], others=q["others"])
    events = [dict(base, none=not g, bases=g), dict(base, none=obs["none"], bases=obs["bases"])]
    rej = ctx.tlc_trace("history", "DagMB_Trace", events)
    if 0 in rej:
        audit_mismatch(ctx, "Dag!MergeBases (replay)", {"world": d, "query": q, "git": g})
    if 1 in rej:
        ctx.violation(dict(rec, observed=obs))
