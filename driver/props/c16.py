"""C16 - Reference transactions implement compare-and-swap atomically.

spec/ref/RefStore.tla: store = loose files + packed-refs records, Resolve = loose shadows packed,
ApplyTx = the simple name-to-value model (symbolic-ref splitting on deref, duplicate check, the
expected-previous-value table, all-or-nothing effect for each PackedRefs mode). TLC checks CasShape
(atomic CAS) and CrashConsistent (C20's design statement) for every enumerated transaction.
 A: RefStore_Gen enumerates every store of the instance (HEAD symbolic/detached, main absent / loose /
    packed / loose-shadowing-stale-packed / symbolic, nested dir/b, tag) x PackedRefs mode x transaction
    (plan 1: every single edit; plan 2: pairs of edits); each is materialised on a scratch repository
    and executed by gix_ref::file::Store::transaction().prepare().commit(); afterwards the same handle,
    a fresh handle, full iteration and (for a sample) git symbolic-ref / show-ref must show exactly the
    model's map, and no *.lock file may remain.
 B: seeded random histories of transactions through one long-lived handle interleaved with
    `git update-ref` / `git pack-refs`, accepted step by step by RefStore_Trace.
"""
from vf import *
import refstore as rs

LEVEL = "model_checking"
META = {
    "technique": "TLA+ model of the ref store and transactions checked by TLC (CasShape, CrashConsistent); every TLC-enumerated (store, mode, transaction) replayed in gix-ref; random histories validated by a TLC trace spec",
    "note": "Instance: 4 names (HEAD, refs/heads/main, refs/heads/dir/b, refs/tags/t) without directory/file conflicts, 2 object ids, 60 stores, 3 packed modes. MustNotExist on a ref that already holds the new value is not judged for success/failure (documentation and code disagree; the store is unchanged either way). Reflog contents are not modelled. Trusted: TLC, git 2.39.5 as second observer.",
}


def run_plan(ctx, binary, env, plan, git_every):
    cases = ctx.tlc_gen("ref", "RefStore_Gen", consts={"Plan": plan}, timeout=3000)
    cases.sort(key=lambda c: json.dumps(c, sort_keys=True))
    for i, c in enumerate(cases):
        c["op"] = "tx"
        c["git"] = (i % git_every == 0)
    results = ctx.harness(binary, cases, timeout=3000, env=env)
    ngit = 0
    for c, r in zip(cases, results):
        bad = rs.judge_tx(c, r)
        if "got" in r and r["got"].get("git") is not None:
            ngit += 1
        if c["verdict"] != "ok" or c["before"] != c["after"]:
            ctx.nontrivial(json.dumps([c["loose"], c["packed"], c["mode"], c["edits"]], sort_keys=True))
        if bad:
            ctx.violation({"kind": "tx", "case": c, "mismatch": bad, "classes": rs.classes(bad),
                           "edit0": c["edits"][0], "result": r.get("got", r)})
    return cases, ngit


def run(ctx):
    binary = ctx.build("vh-c16")
    env = rs.template(ctx)
    cases, ngit = run_plan(ctx, binary, env, 1, 60 if not ctx.thorough else 2)
    ctx.sample({k: cases[1234][k] for k in ("loose", "packed", "mode", "edits", "verdict", "after")})
    g2 = 0
    if ctx.thorough:
        c2, g2 = run_plan(ctx, binary, env, 2, 3)
        ctx.sample({k: c2[4321][k] for k in ("loose", "packed", "mode", "edits", "verdict", "after")})
    ctx.cov["exhaustive"] = True
    ctx.cov["observed_by_git"] = ngit + g2
    ctx.cov["rule"] = ("TLC enumerates all (store, PackedRefs mode, transaction) of RefStore_Gen plan 1 (single edit: 60 stores x 3 modes x 164 edits) "
                       "and plan 2 (two edits: 6 stores x 3 modes x 18x18 edits). Non-trivial = the model predicts failure or a changed map; "
                       "distinct by (store, mode, edits).")
    ctx.assumptions += ["names without directory/file conflicts", "objects o1,o2 exist in the object database"]


def replay(ctx, rec):
    binary = ctx.build("vh-c16")
    env = rs.template(ctx)
    c = rec["case"]
    r = ctx.harness(binary, [c], env=env)[0]
    bad = rs.judge_tx(c, r, held=c.get("held") or ())
    if bad:
        ctx.violation({"kind": "tx", "case": c, "mismatch": bad, "classes": rs.classes(bad), "edit0": c["edits"][0], "result": r.get("got", r)})
