"""C29 - Packet-line framing is exact and never panics.

spec/proto/PktLine.tla: Encode for data/text/ERR/side-band/control lines, Decode for every byte string
(complete | incomplete | error class), and the abstract semantics of the reader (read_line, peek_line,
reset, delimiters, fail-on-ERR) and of the side-band demultiplexer (Read::read, read_line_to_string,
peek_data_line) as functions of the stream only (AbsRun).
spec/proto/PktLine_MC.tla: the reader as a state machine over a chunked source (read_exact loops over
reads of 1..MaxChunk bytes; buf/peek_buf/is_done/stopped_at/pos/cap), model-checked by TLC for every
stream/configuration/call sequence/chunking of the instance: Refines (outcomes = AbsRun, i.e. independent
of chunking), StateAgrees (no byte consumed beyond the lines seen), NoPanic; Bug_NoLenCheck and
Bug_EmptyProgress re-introduce the two indexing slips of the pinned commit (self-tests).
 A: PktLine_Gen prints encoder, writer, decoder and reader cases with the specification's results; the
    executor replays them (reader cases under four chunkings) against gix-packetline.
 B: seeded random lines are encoded by the real encoder (judged by TLC), concatenated/mutated into streams
    and read back with random chunk patterns and random call scripts; PktLine_Trace judges everything.
 C: streams produced by the installed git (v0/v2 advertisement, ls-refs answer to a request encoded by the
    specification) must decode completely and re-encode identically under the specification.
"""
import os
from vf import *

LEVEL = "model_checking"
META = {
    "technique": "TLA+ model of the pkt-line reader over a chunked source model-checked by TLC against an abstract stream semantics (refinement, no-panic, bug-switch self-tests); TLC-printed encoder/decoder/reader cases replayed in gix-packetline under several chunkings; random encode->read round trips judged by a TLC trace module; audit against git upload-pack",
    "note": "Model checking is exhaustive for the stated instance (MaxData=5, token streams, all chunkings <= MaxChunk). Replay is exhaustive over the token alphabets of PktLine_Gen; random part seeded. Async reader/encoder, tracing, ProgressAction::Interrupt and peek_buffer_replace_and_truncate are not covered. Absence of panics is shown for the generated shapes only.",
}
CHUNKS = [[1], [2], [5], [0]]
EV0 = {"ev": "", "line": {"t": "", "ch": 0, "d": []}, "ok": False, "err": "", "bytes": [],
       "dec": {"s": "", "k": "", "d": [], "used": 0, "need": 0, "err": ""},
       "stream": [], "delims": [], "foe": False, "h": False, "calls": [], "obs": []}


def ev(**kw):
    e = dict(EV0)
    e.update(kw)
    return e


def small(case):
    """violation records keep big byte arrays short"""
    c = dict(case)
    for k in ("stream", "d", "input"):
        if k in c and len(c[k]) > 200:
            c[k + "_len"] = len(c[k])
    return c


def text_of(case):
    for k in ("stream", "input"):
        if k in case:
            return show_bytes(case[k][:80])
    return ""


def check_gen(ctx, c, r, bad):
    """binding A: compare one executor result with the line printed by PktLine_Gen (equality only)"""
    if "got" not in r:
        bad.append(("crash", "executor crashed: %s" % json.dumps(r)[:200], None))
        return
    g = r["got"]
    fam = c["fam"]
    if fam == "enc":
        e = c["exp"]
        for tag, ok, err, b in (("encode::*_to_write", g["ok"], g["err"], g["bytes"]), ("*Ref::write_to", g["ok2"], g["err2"], g["bytes2"])):
            if ok != e["ok"] or err != e["err"] or (e["ok"] and b != e["bytes"]):
                bad.append(("encode", "%s: ok=%s err=%s len=%d, specification ok=%s err=%s len=%d" % (
                    tag, ok, err, len(b), e["ok"], e["err"], len(e["bytes"])), None))
        if e["ok"] and g["ok"] and g["n"] != len(e["bytes"]):
            bad.append(("encode", "returned length %d != %d" % (g["n"], len(e["bytes"])), None))
    elif fam == "wr":
        e = c["exp"]
        if g["ok"] != e["ok"] or (e["ok"] and (g["bytes"] != e["bytes"] or g["written"] != e["written"])):
            bad.append(("writer", "Writer: ok=%s written=%s len=%d, specification ok=%s written=%s len=%d" % (
                g["ok"], g["written"], len(g["bytes"]), e["ok"], e["written"], len(e["bytes"])), None))
    elif fam == "dec":
        e = c["exp"]
        got = (g["s"], g["k"], g["d"], g["used"], g["need"], g["err"])
        want = (e["s"], e["line"]["k"], e["line"]["d"], e["used"], e["need"], e["err"])
        if got != want:
            bad.append(("decode", "decode::streaming %s, specification %s" % (json.dumps(got)[:150], json.dumps(want)[:150]), None))
        if g["all_ok"] != (e["s"] == "complete"):
            bad.append(("decode", "decode::all_at_once ok=%s" % g["all_ok"], None))
    elif fam == "run":
        for ch, obs in zip(c["chunks"], g):
            if isinstance(obs, dict):
                bad.append(("panic", "chunking %s: %s" % (ch, obs["panic"]), obs["panic"]))
                continue
            n = c["upto"]
            if len(obs) != len(c["outs"]) or obs[:n] != c["outs"][:n]:
                k = next((i for i in range(min(n, len(obs))) if obs[i] != c["outs"][i]), -1)
                bad.append(("reader", "chunking %s: call %d (%s) gave %s, specification %s" % (
                    ch, k, c["calls"][k]["op"] if k >= 0 else "?", json.dumps(obs[k])[:160] if k >= 0 else len(obs),
                    json.dumps(c["outs"][k])[:160] if k >= 0 else len(c["outs"])), None))


def report(ctx, kind, c, bad, extra=None):
    classes = sorted({b[0] for b in bad})
    panics = sorted({b[2] for b in bad if b[2]})
    rec = {"kind": kind, "case": small(c), "text": text_of(c), "classes": classes, "mismatch": [b[1] for b in bad][:6],
           "panic": panics[0] if panics else ""}
    if extra:
        rec.update(extra)
    ctx.violation(rec)


# ------------------------------------------------------------------ random part (inputs only)
def rand_payload(rng, big_ok):
    n = rng.choice([1, 1, 1, 2, 3, 4, 5, 10, 50, 300])
    if big_ok and rng.random() < 0.04:
        n = rng.choice([65510, 65511, 65512, 65515, 65516, 65517, 70000])
    r = rng.random()
    if r < 0.4:
        b = bytes(rng.choice(b"abc xyz\n=ERR\x01\x02\x03") for _ in range(n))
    elif r < 0.5:
        b = (b"ERR " + bytes(rng.choice(b"fail ") for _ in range(n)))[:max(n, 4)]
    elif r < 0.6:
        b = bytes([rng.choice([1, 2, 3, 4, 0])]) + bytes(rng.randrange(256) for _ in range(n - 1))
    else:
        b = bytes(rng.randrange(256) for _ in range(n))
    if rng.random() < 0.03:
        b = b""
    return b


def rand_line(rng, bands, big_ok):
    r = rng.random()
    if r < 0.12:
        return {"t": rng.choice(["flush", "flush", "delim", "rend"]), "ch": 0, "d": []}
    if bands and r < 0.85:
        return {"t": "band", "ch": rng.choice([1, 1, 1, 2, 2, 3]), "d": b2l(rand_payload(rng, big_ok))}
    return {"t": rng.choice(["data", "data", "text", "text", "err", "band"]), "ch": rng.choice([1, 2, 3]),
            "d": b2l(rand_payload(rng, big_ok))}


def rand_script(rng, kind, nlines):
    k = nlines + rng.randint(0, 3)
    if kind == "lines":
        return [{"op": rng.choice(["read", "read", "read", "peek", "peek", "reset"]), "n": 0} for _ in range(k)]
    if rng.random() < 0.3:
        return [{"op": rng.choice(["sbline", "sbline", "sbline", "sbpeek"]), "n": 0} for _ in range(k)]
    out = []
    for _ in range(k + 3):
        if rng.random() < 0.15:
            out.append({"op": "sbpeek", "n": 0})
        else:
            out.append({"op": "sbread", "n": rng.choice([1, 2, 7, 100, 70000])})
    return out


def mutate(rng, s):
    r = rng.random()
    if r < 0.55 or not s:
        return s
    if r < 0.7:
        return s[:rng.randrange(len(s))]
    if r < 0.9:
        i = rng.randrange(len(s))
        bad = rng.choice([b"fff1", b"ffff", b"fff0", b"0003", b"0004", b"000g", b"00 5", b"FFF1", b"0005", b"ffef", b"0000", b"0001"])
        return s[:i] + bad + s[i + rng.choice([0, 4]):]
    return s + bytes(rng.randrange(256) for _ in range(rng.randint(1, 6)))


def git_audit(ctx, request):
    """binding C: what git writes must be a sequence of lines under the specification, and git must
    understand a request framed by the specification's Encode"""
    repo = os.path.join(ctx.work, "audit-repo")
    git(["init", "-q", "-b", "main", repo], check=True)
    open(os.path.join(repo, "f"), "w").write("x\n")
    git(["add", "f"], cwd=repo, check=True)
    git(["commit", "-q", "-m", "c1"], cwd=repo, check=True)
    git(["branch", "side"], cwd=repo, check=True)
    git(["tag", "-a", "-m", "t", "v1"], cwd=repo, check=True)
    v2 = {"GIT_PROTOCOL": "version=2"}
    streams = [("v0 advertisement", git(["upload-pack", "--advertise-refs", repo], check=True).stdout),
               ("v2 advertisement", git(["upload-pack", "--advertise-refs", repo], env=v2, check=True).stdout)]
    p = git(["upload-pack", "--stateless-rpc", repo], env=v2, input=l2b(request))
    if p.returncode != 0 or b"refs/heads/side" not in p.stdout or b"peeled:" not in p.stdout or b"symref-target:refs/heads/main" not in p.stdout:
        audit_mismatch(ctx, "PktLine.Encode", {"what": "git did not answer the ls-refs request framed by the specification",
                                               "rc": p.returncode, "stderr": p.stderr.decode("utf-8", "replace")[-300:],
                                               "stdout": show_bytes(b2l(p.stdout))[:300]})
    streams.append(("v2 ls-refs answer", p.stdout))
    events = [ev(ev="git", stream=b2l(s)) for _n, s in streams]
    for bi in ctx.tlc_trace("proto", "PktLine_Trace", events):
        audit_mismatch(ctx, "PktLine.Decode", {"what": streams[bi][0], "stream": show_bytes(b2l(streams[bi][1]))[:400]})
    ctx.cov["git_audited"] = "%d git streams (%d bytes) + 1 request" % (len(streams), sum(len(s) for _n, s in streams))
    ctx.log("audit: git upload-pack streams decode/re-encode under the specification; git understood the spec-framed request")


def run(ctx):
    binary = ctx.build("vh-c29")

    # ---- the reader as a state machine over a chunked source (design level)
    mc = {"MaxCalls": 3, "MaxToks": 2, "MaxChunk": 3} if not ctx.thorough else {"MaxCalls": 4, "MaxToks": 3, "MaxChunk": 3}
    r = ctx.tlc_mc("proto", "PktLine_MC", consts=mc, coverage=False, timeout=3000)
    ctx.cov["exhaustive"] = True
    for bug in ("Bug_NoLenCheck", "Bug_EmptyProgress"):
        ctx.tlc_mc("proto", "PktLine_MC", consts={bug: "TRUE", "MaxCalls": 2, "MaxToks": 2, "MaxChunk": 3},
                   expect_violation="NoPanic", coverage=False)
    ctx.log("self-test: Bug_NoLenCheck and Bug_EmptyProgress each violate NoPanic in PktLine_MC")

    # ---- binding A
    gconsts = {"LineToks": 2, "BandToks": 2, "Big": "TRUE"} if not ctx.thorough else {"LineToks": 3, "BandToks": 3, "Big": "TRUE"}
    cases = ctx.tlc_gen("proto", "PktLine_Gen", consts=gconsts, timeout=3000)
    audit_req = None
    todo = []
    for c in cases:
        if c["fam"] == "audit":
            audit_req = c["request"]
            continue
        c["op"] = c["fam"]
        if c["fam"] == "run":
            c["chunks"] = CHUNKS
        todo.append(c)
    results = ctx.harness(binary, todo, timeout=3000)
    failing = []
    for c, r in zip(todo, results):
        bad = []
        check_gen(ctx, c, r, bad)
        if bad:
            failing.append((len(c.get("stream", c.get("input", []))), c, bad))
        if c["fam"] == "run":
            if any(o["k"] in ("derr", "ioerr", "none") or o["prog"] for o in c["outs"]):
                ctx.nontrivial("run" + json.dumps([c["stream"][:64], len(c["stream"]), sorted(c["delims"]), c["foe"], c["h"], c["calls"]]))
        elif c["fam"] != "enc" or not c["exp"]["ok"] or len(c["line"]["d"]) > 1000:
            ctx.nontrivial(c["fam"] + json.dumps(small(c), sort_keys=True)[:300])
    failing.sort(key=lambda x: x[0])
    for _n, c, bad in failing:
        report(ctx, "gen-" + c["fam"], c, bad)
    ex = next(c for c in todo if c["fam"] == "run" and c["kind"] == "sb" and c["h"] and any(o["prog"] for o in c["outs"]))
    ctx.sample({"stream": show_bytes(ex["stream"]), "calls": ex["calls"][:4], "spec_outcomes": ex["outs"][:4]})

    # ---- binding B: random lines -> real encoder -> streams -> real reader, all judged by TLC
    nstreams = 300 if not ctx.thorough else 3000
    rng = ctx.rng
    plans = []
    enc_cases = []
    for _ in range(nstreams):
        kind = rng.choice(["lines", "lines", "sb"])
        big_ok = rng.random() < (0.1 if not ctx.thorough else 0.05)
        lines = [rand_line(rng, kind == "sb", big_ok) for _ in range(rng.randint(1, 6))]
        plans.append((kind, len(enc_cases), len(lines)))
        enc_cases += [{"op": "enc", "line": ln} for ln in lines]
    enc_res = ctx.harness(binary, enc_cases, timeout=3000)
    events, owner = [], []
    for c, r in zip(enc_cases, enc_res):
        if "got" not in r:
            report(ctx, "random-enc", c, [("crash", json.dumps(r)[:200], r.get("panic"))])
            continue
        g = r["got"]
        events.append(ev(ev="enc", line=c["line"], ok=g["ok"], err=g["err"], bytes=g["bytes"]))
        owner.append(("random-enc", c))
    run_cases = []
    for kind, start, n in plans:
        s = b"".join(l2b(enc_res[i]["got"]["bytes"]) for i in range(start, start + n) if "got" in enc_res[i] and enc_res[i]["got"]["ok"])
        s = mutate(rng, s)
        delims = rng.choice([[], ["flush"], ["flush"], ["flush", "delim"], ["flush", "delim", "rend"]])
        chunks = [[rng.choice([1, 2, 3, 4, 5, 7, 100, 4096, 0]) for _ in range(rng.randint(1, 4))] for _ in range(3)]
        run_cases.append({"op": "run", "kind": kind, "stream": b2l(s), "delims": delims, "foe": rng.random() < 0.4,
                          "h": kind == "sb" and rng.random() < 0.75, "calls": rand_script(rng, kind, n), "chunks": chunks})
        # the decoder on the stream head and on a cut of it
        run_cases.append({"op": "dec", "input": b2l(s[:rng.choice([len(s), rng.randint(0, 8), 4])])})
    run_res = ctx.harness(binary, run_cases, timeout=3000)
    for c, r in zip(run_cases, run_res):
        if "got" not in r:
            report(ctx, "random-" + c["op"], c, [("crash", json.dumps(r)[:200], r.get("panic"))])
            continue
        g = r["got"]
        if c["op"] == "dec":
            events.append(ev(ev="dec", bytes=c["input"], dec={k: g[k] for k in ("s", "k", "d", "used", "need", "err")}))
            owner.append(("random-dec", c))
            continue
        panics = [(ch, o["panic"]) for ch, o in zip(c["chunks"], g) if isinstance(o, dict)]
        if panics:
            report(ctx, "random-run", c, [("panic", "chunking %s: %s" % p, p[1]) for p in panics])
        obs = [o for o in g if not isinstance(o, dict)]
        if obs:
            events.append(ev(ev="run", stream=c["stream"], delims=c["delims"], foe=c["foe"], h=c["h"], calls=c["calls"], obs=obs))
            owner.append(("random-run", c))
            ctx.nontrivial("rnd" + hashlib.sha1(json.dumps([c["stream"], c["delims"], c["foe"], c["h"], c["calls"]]).encode()).hexdigest())
    for bi in ctx.tlc_trace("proto", "PktLine_Trace", events, timeout=3000, xmx="8g"):
        kind, c = owner[bi]
        e = events[bi]
        report(ctx, kind, c, [("trace", "observation rejected by PktLine_Trace (%s)" % e["ev"], None)],
               {"observed": e["obs"][:1] if e["ev"] == "run" else {k: e[k] for k in ("ok", "err", "dec")}})

    tally = {}
    for v in ctx.violations + [r for _f, r in ctx.known_hits.values()]:
        k = "%s/%s/%s" % (v.get("kind"), ",".join(v.get("classes", [])), v.get("panic", "")[:60])
        tally[k] = tally.get(k, 0) + 1
    if tally:
        ctx.log("violations by class: %s" % json.dumps(tally, sort_keys=True))

    git_audit(ctx, audit_req)

    ctx.cov["rule"] = ("MC: PktLine_MC with %s (all chunkings). A: PktLine_Gen - 81 encoder lines incl. payloads 65511..65517, 10 Writer buffers, "
                       "120 decoder inputs (23 prefix classes x 5 tails + cut prefixes), reader cases = streams of <= %s tokens over 14 line tokens x 6 "
                       "configurations x 20 scripts and <= %s tokens over 13 band tokens x 2 x 4 scripts, 10 cases with 65516-byte lines, each under "
                       "chunkings 1/2/5/all. B: %d seeded random line sequences encoded by the real encoder, mutated, read with random chunk patterns "
                       "and scripts. Non-trivial = a reader case whose expected outcomes contain an error, a stop or progress messages; refused or "
                       "boundary-size encodings; decoder inputs; distinct by content." % (mc, gconsts["LineToks"], gconsts["BandToks"], nstreams))
    ctx.assumptions += ["0004 (empty line) is refused on both sides (gitoxide's documented choice; git accepts it when reading)",
                        "the maximum payload is 65516 bytes (gitprotocol-common); git's own reader tolerates up to 65519",
                        "outcomes after read_line_to_string reported ill-formed UTF-8 are not judged (documented: must not be used further)",
                        "the progress handler always continues; Writer text mode is judged for buffers shorter than 65516 bytes only"]


def replay(ctx, rec):
    binary = ctx.build("vh-c29")
    c = rec["case"]
    r = ctx.harness(binary, [c])[0]
    if "got" not in r:
        ctx.violation(dict(rec, result=r))
        return
    g = r["got"]
    if c["op"] == "run":
        panics = [o["panic"] for o in g if isinstance(o, dict)]
        if panics:
            ctx.violation(dict(rec, panic=panics[0]))
            return
        e = ev(ev="run", stream=c["stream"], delims=c["delims"], foe=c["foe"], h=c["h"], calls=c["calls"], obs=g)
    elif c["op"] == "enc":
        e = ev(ev="enc", line=c["line"], ok=g["ok"], err=g["err"], bytes=g["bytes"])
    elif c["op"] == "dec":
        e = ev(ev="dec", bytes=c["input"], dec={k: g[k] for k in ("s", "k", "d", "used", "need", "err")})
    else:
        bad = []
        check_gen(ctx, c, r, bad)
        if bad:
            ctx.violation(dict(rec, mismatch=[b[1] for b in bad]))
        return
    if ctx.tlc_trace("proto", "PktLine_Trace", [e]):
        ctx.violation(dict(rec, observed=g if c["op"] != "run" else g[:1]))
