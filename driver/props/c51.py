"""C51 - Parallel helpers process every item exactly once.

spec/par/Parallel.tla (PlusCal): in_parallel as feeder, N workers and the reducing caller over two
bounded channels with crossbeam's disconnect semantics; TLC checks, for every interleaving, AtMostOnce,
ExactlyOnceWhenOk, ErrIsReducers, OkUnlessFail and Terminates (liveness under weak fairness: the call
returns on every drop/error path); spec/par/Slice.tla: in_parallel_with_slice's shared atomic index and
stop flag (AtMostOnce, AllWhenNoError, ErrorReported, Terminates); spec/par/InOrder.tla: the reorder
buffer, checked for every arrival permutation of 5 ids. Self-tests: Bug_WorkerIgnoresDisconnect violates
Terminates, Bug_NonAtomicClaim violates AtMostOnce.
 A: InOrder's permutations are replayed through the real InOrderIter.
 B: real runs of in_parallel, in_parallel_with_slice and reduce::Stepwise (1..16 threads, 0..64 items,
    seeded jitter in the closures, reducer/consumer failures at chosen items, Stepwise dropped midway);
    every consume/reduce event carries a shared atomic sequence number; Parallel_Trace accepts only
    logs in which no item is consumed twice, results reach the reducer after consumption and once, a
    successful return saw everything exactly once and a failed one saw the failing item; after the helper
    returned (or Stepwise was dropped) the process must have no more threads than before.
"""
from vf import *

LEVEL = "model_checking"
META = {
    "technique": "PlusCal/TLA+ models of the thread/channel protocols checked by TLC for all interleavings (safety + liveness, mutant self-tests); real runs validated by a TLC trace spec; InOrder permutations replayed",
    "note": "All schedules are covered for the models (2-3 workers, <= 4 items); schedules of the real threads are sampled and only rejections are conclusive. Trusted: TLC, the atomic sequence counter of the executor.",
}


def run(ctx):
    binary = ctx.build("vh-c51")
    insts = [(3, 2, 0), (3, 2, 2), (4, 2, 1)] + ([(4, 3, 3), (4, 3, 0), (5, 2, 5)] if ctx.thorough else [])
    for n, w, f in insts:
        ctx.tlc_mc("par", "Parallel", consts={"NItems": n, "NWorkers": w, "FailAt": f}, workers=6, timeout=3000, coverage=False)
    ctx.tlc_mc("par", "Parallel", consts={"NItems": 5, "NWorkers": 2, "FailAt": 1, "Bug_WorkerIgnoresDisconnect": "TRUE"},
               expect_violation="<temporal>", coverage=False)
    for n, w, f in [(4, 3, 2), (4, 3, 0), (3, 2, 3)]:
        ctx.tlc_mc("par", "Slice", consts={"NItems": n, "NWorkers": w, "FailAt": f}, workers=6, coverage=False)
    ctx.tlc_mc("par", "Slice", consts={"Bug_NonAtomicClaim": "TRUE"}, expect_violation="AtMostOnce", coverage=False)
    perms = ctx.tlc_gen("par", "InOrder", consts={"N": 5 if not ctx.thorough else 6})
    res = ctx.harness(binary, perms)
    for c, r in zip(perms, res):
        ctx.nontrivial("perm" + json.dumps(c["arrival"]))
        if "got" not in r or r["got"]["out"] != c["out"]:
            ctx.violation({"kind": "inorder", "case": c, "result": r, "what": "InOrderIter output differs from 0,1,2,.."})
    ctx.cov["exhaustive"] = True
    runs = []
    rng = ctx.rng
    reps = 60 if not ctx.thorough else 600
    for k in range(reps):
        n = rng.choice([0, 1, 2, 3, 5, 8, 17, 64])
        t = rng.choice([1, 2, 3, 4, 8, 16])
        fail = rng.choice([0, 0, 1, n, max(1, n // 2)]) if n else 0
        op = rng.choice(["in_parallel", "slice", "stepwise"])
        c = {"op": op, "n": n, "threads": t, "fail": fail, "seed": ctx.seed * 1000 + k, "drop_after": -1}
        if op == "stepwise" and rng.random() < 0.5:
            c["drop_after"] = rng.randint(0, n)
        runs.append(c)
    res = ctx.harness(binary, runs, timeout=90, max_failures=3)   # a run takes milliseconds; a helper that does not return is a hang
    events, owner = [], []
    for ci, (c, r) in enumerate(zip(runs, res)):
        if r.get("skipped"):
            continue
        if "got" not in r:
            ctx.violation({"kind": "run", "case": c, "result": r, "what": "helper panicked or did not return"})
            continue
        g = r["got"]
        ctx.nontrivial(json.dumps(c, sort_keys=True))
        if g["threads_after"] > g["threads_before"]:
            ctx.violation({"kind": "threads", "case": c, "what": "threads alive after the helper returned: %d -> %d" % (g["threads_before"], g["threads_after"])})
        dropped = c["op"] == "stepwise" and c["drop_after"] >= 0
        evs = [{"ev": "start", "n": c["n"], "fail": c["fail"], "reducing": c["op"] != "slice", "i": 0, "ok": True}]
        evs += [{"ev": e["ev"], "i": e["i"], "n": 0, "fail": 0, "reducing": False, "ok": True} for e in g["events"]]
        if not dropped:
            evs.append({"ev": "ret", "ok": g["ok"], "i": 0, "n": 0, "fail": 0, "reducing": False})
        events += evs
        owner += [ci] * len(evs)
    rej = ctx.tlc_trace("par", "Parallel_Trace", events, timeout=1200)
    if rej:
        ci = owner[rej[0]]
        ctx.violation({"kind": "trace", "case": runs[ci], "event": events[rej[0]], "context": events[max(0, rej[0] - 5):rej[0] + 1],
                       "what": "run rejected by Parallel_Trace"})
    ctx.cov["trace_events"] = len(events)
    ctx.sample({"run": runs[0], "events": res[0].get("got", {}).get("events", [])[:6]})
    ctx.cov["rule"] = ("Models: Parallel x %d instances, Slice x 3, InOrder all %d permutations (exhaustive); real runs: %d seeded (op, items, threads, "
                       "failing item, drop point) combinations. Non-trivial/distinct: each permutation and each run configuration." % (len(insts), len(perms), reps))


def replay(ctx, rec):
    binary = ctx.build("vh-c51")
    c = rec["case"]
    r = ctx.harness(binary, [c])[0]
    if c.get("op") == "inorder":
        if "got" not in r or r["got"]["out"] != c["out"]:
            ctx.violation(dict(rec, result=r))
    else:
        ctx.log("schedule-dependent finding; re-running the quick tier reproduces the configuration with the same seed")
