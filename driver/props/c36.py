"""C36 - Wildcard matching agrees with git's wildmatch.

spec/match/Wildmatch.tla transcribes git's wildmatch.c (dowild) with git's own ctype tables.
 A: Wildmatch_Gen enumerates every pattern of <= PMax pattern tokens and prints, for every text of
    <= TMax text tokens and the four flag combinations (WM_PATHNAME x WM_CASEFOLD), the spec's
    verdict; replayed through gix_glob::wildmatch and gix_glob::Pattern::matches (the shortcut
    layer; compared whenever parsing left the pattern text unchanged).  The same TLC run checks
    the design-level laws (literal patterns match themselves; WM_PATHNAME is irrelevant without '/').
 B: seeded random patterns (brackets with ranges, negation, all 12 POSIX classes, escapes, stars)
    against random texts; gitoxide's verdicts are judged by TLC (Wildmatch_Trace, events "wm").
 C: the installed git is observed on the same cases through `git check-ignore --no-index`
    (basename patterns -> wildmatch without WM_PATHNAME; `[x]/<pattern>` -> with WM_PATHNAME;
    core.ignoreCase -> WM_CASEFOLD) and its answers are judged by the same TLC module
    (events "gb"/"gx"); a rejected git event is a tool error (the transcription is wrong).
"""
import os
import re
from vf import *

LEVEL = "exploration"
META = {
    "technique": "TLA+ transcription of git's dowild evaluated by TLC (generator + trace judge); gix_glob::wildmatch and "
                 "Pattern::matches replayed on all enumerated and on seeded random cases; transcription audited against "
                 "git check-ignore on every run",
    "note": "Exhaustive for the stated token alphabets and lengths only. Without WM_PATHNAME git is observable only on "
            "slash-free patterns/texts (basename matching); texts containing NUL are outside the domain (C strings).",
}
CANDS = [[(i >> 3) & 1, (i >> 2) & 1, (i >> 1) & 1, i & 1] for i in range(16)]
FLAGS = ["pn=0,cf=0", "pn=0,cf=1", "pn=1,cf=0", "pn=1,cf=1"]
CLASSES = [b"alnum", b"alpha", b"blank", b"cntrl", b"digit", b"graph", b"lower", b"print", b"punct", b"space", b"upper",
           b"xdigit"]


# ------------------------------------------------------------------ diagnostics (not an oracle)
def tags(pattern, text, bad_flags):
    """stable descriptive class of a disagreement, for known-finding matchers and reports"""
    p = bytes(pattern)
    t = set()
    rest = p
    for c in CLASSES:
        if b"[:" + c + b":]" in p:
            t.add("class:" + c.decode())
            rest = rest.replace(b"[:" + c + b":]", b"")
    if b"[:" in rest:
        t.add("odd-class")
    if all(f in (1, 3) for f in bad_flags):
        t.add("casefold-only")
        if re.search(rb"\\[A-Za-z]", rest):
            t.add("escaped-letter")
        if re.search(rb"\[[^\]]*[A-Za-z]", rest):
            t.add("bracket-letter")
    if all(f in (2, 3) for f in bad_flags):
        t.add("pathname-only")
    return sorted(t)


class Collector:
    """keeps, per class signature, the smallest disagreeing case (and how many there were)"""

    def __init__(self):
        self.by_sig = {}

    def add(self, kind, api, pattern, text, want, got, extra=None):
        bad = [i for i in range(4) if want[i] != got[i]]
        sig = (api, tuple(tags(pattern, text, bad)))
        size = (len(pattern) + len(text), len(pattern))
        cur = self.by_sig.get(sig)
        if cur is None or size < cur[0]:
            rec = {"kind": kind, "api": api, "case": {"pattern": pattern, "texts": [text]},
                   "pattern_text": show_bytes(pattern), "text_text": show_bytes(text),
                   "flags": FLAGS, "spec": want, "gitoxide": got, "classes": list(sig[1]),
                   "count": (cur[1]["count"] if cur else 0)}
            if extra:
                rec.update(extra)
            self.by_sig[sig] = (size, rec)
            cur = self.by_sig[sig]
        cur[1]["count"] += 1

    def records(self):
        return [r for _s, r in sorted(self.by_sig.values(), key=lambda x: x[0])]


# ------------------------------------------------------------------ binding C: observe git
def gb_observable(p, t):
    p, t = bytes(p), bytes(t)
    if not p or b"/" in p or b"\n" in p or b"\0" in p or p[:1] in (b"!", b"#") or p[-1:] in (b" ", b"\r"):
        return False
    if not t or b"/" in t or b"\0" in t or t in (b".", b"..") or t.lower() == b".git":
        return False
    return True


def gx_observable(p, t):
    p, t = bytes(p), bytes(t)
    if not p or b"\n" in p or b"\0" in p or p[-1:] in (b" ", b"\r", b"/"):
        return False
    if not t or b"\0" in t or t[:1] == b"/" or t[-1:] == b"/" or b"//" in t:
        return False
    if any(c in (b".", b"..") or c.lower() == b".git" for c in t.split(b"/")):
        return False
    return True


def observe_git(ctx, pairs):
    """pairs: list of (pattern bytes-list, text bytes-list). Returns events "gb"/"gx" with git's answers.
    One scratch repository; pattern k lives alone in b<k>/.gitignore (as is) and p<k>/.gitignore
    (as `[x]/<pattern>`), so two git processes (core.ignoreCase off/on) answer everything."""
    root = os.path.join(ctx.work, "audit-%d" % len(os.listdir(ctx.work)))
    os.makedirs(root)
    git(["init", "-q", root], check=True)
    pid = {}
    queries = []  # (kind, pattern, text, path)
    for p, t in pairs:
        key = bytes(p)
        if key not in pid:
            pid[key] = len(pid)
            k = pid[key]
            if not (b"\n" in key or b"\0" in key or not key):
                os.makedirs(os.path.join(root, "b%d" % k))
                os.makedirs(os.path.join(root, "p%d" % k))
                with open(os.path.join(root, "b%d" % k, ".gitignore"), "wb") as f:
                    f.write(key + b"\n")
                with open(os.path.join(root, "p%d" % k, ".gitignore"), "wb") as f:
                    f.write(b"[x]/" + key + b"\n")
        k = pid[key]
        if gb_observable(p, t):
            queries.append(("gb", p, t, b"b%d/" % k + bytes(t)))
        if gx_observable(p, t):
            queries.append(("gx", p, t, b"p%d/x/" % k + bytes(t)))
    if not queries:
        return []
    answers = []
    for icase in ("false", "true"):
        r = git(["-c", "core.ignorecase=" + icase, "check-ignore", "--no-index", "-z", "--stdin", "-v", "-n"], cwd=root,
                input=b"".join(q[3] + b"\0" for q in queries), timeout=600)
        if r.returncode not in (0, 1):
            raise ToolError("git check-ignore failed: %s" % r.stderr.decode("utf-8", "replace")[-400:])
        f = r.stdout.split(b"\0")
        if len(f) != 4 * len(queries) + 1:
            raise ToolError("git check-ignore: %d fields for %d queries" % (len(f), len(queries)))
        ans = []
        for i, q in enumerate(queries):
            src, _line, _pat, path = f[4 * i:4 * i + 4]
            if path != q[3]:
                raise ToolError("git check-ignore echoed %r for %r" % (path, q[3]))
            ans.append(1 if src else 0)
        answers.append(ans)
    shutil.rmtree(root, ignore_errors=True)
    return [{"k": q[0], "p": q[1], "t": q[2], "r": [answers[0][i], answers[1][i]]} for i, q in enumerate(queries)]


# ------------------------------------------------------------------ random inputs (binding B)
LITS = [b"a", b"b", b"c", b"A", b"B", b"Z", b"z", b"_", b"-", b".", b" ", b"\t", b"0", b"9", b"]", b"!", b"^", b":", b",", b"~",
        b"\x0b", b"\x0c", b"\r", b"\x7f", b"\x01", b"\xc3\xa9", b"\xff", b"@", b"{"]


def rnd_bracket(rng):
    s = b"["
    if rng.random() < 0.3:
        s += rng.choice([b"!", b"^"])
    if rng.random() < 0.15:
        s += b"]"
    for _ in range(rng.randint(1, 3)):
        k = rng.random()
        if k < 0.35:
            s += b"[:" + rng.choice(CLASSES + [b"x", b"", b"spac", b"ALPHA"]) + rng.choice([b":]", b":]", b":]", b"]", b":"])
        elif k < 0.6:
            lo, hi = rng.choice(LITS[:12] + [b"\\]", b"\\-", b"\\a", b"["]), rng.choice(LITS[:12] + [b"\\]", b"\\z", b"\\Z", b"["])
            s += lo + b"-" + hi
        elif k < 0.7:
            s += b"\\" + rng.choice([b"]", b"\\", b"a", b"A", b"-", b"["])
        else:
            s += rng.choice(LITS + [b"/", b"*", b"?", b"["])
    if rng.random() < 0.1:
        s += b"-"
    if rng.random() < 0.92:
        s += b"]"
    return s


def rnd_pattern(rng):
    out = b""
    for _ in range(rng.randint(0, 6)):
        k = rng.random()
        if k < 0.28:
            out += rng.choice(LITS)
        elif k < 0.45:
            out += rng.choice([b"*", b"*", b"**", b"**", b"***", b"/**/", b"**/", b"/**", b"*/"])
        elif k < 0.52:
            out += b"?"
        elif k < 0.62:
            out += b"/"
        elif k < 0.72:
            out += b"\\" + rng.choice([b"*", b"?", b"[", b"\\", b"a", b"A", b"/", b"]", b" "])
        elif k < 0.97:
            out += rnd_bracket(rng)
        else:
            out += bytes([rng.randrange(1, 256)])
    if rng.random() < 0.03:
        out += b"\\"
    return out


def rnd_text(rng, pattern):
    """texts are drawn near the pattern's literals so that matches are not rare"""
    pool = LITS + [b"/", b"/", b"*", b"?", b"[", b"\\", b"\n"] + [bytes([c]) for c in pattern if c != 0]
    out = b""
    for _ in range(rng.randint(0, 6)):
        out += rng.choice(pool) if rng.random() < 0.95 else bytes([rng.randrange(1, 256)])
    return out


# ------------------------------------------------------------------ the check
def cut_sensitive(p):
    """Pattern::matches is the matcher behind ignore/attribute patterns; there git compares the literal
    prefix and hands only the REST of the pattern to wildmatch (dir.c match_pathname), which changes the
    meaning of a `**` standing right after the literal prefix.  That shape is judged by C37 (Ignore.tla
    models the cut); here Pattern::matches is compared with plain wildmatch on all other shapes."""
    p = bytes(p)
    pos = next((i for i, c in enumerate(p) if c in b"*?[\\"), None)
    return pos is not None and pos > 0 and p[pos - 1:pos] != b"/" and p[pos:pos + 2] == b"**"


def compare_gen(ctx, cases, results, texts, coll):
    pairs = 0
    for c, r in zip(cases, results):
        if "got" not in r:
            ctx.violation({"kind": "crash", "api": "wildmatch", "case": {"pattern": c["pattern"], "texts": texts},
                           "pattern_text": show_bytes(c["pattern"]), "classes": ["crash"], "result": r})
            continue
        g = r["got"]
        same_text = g["ptext"] == c["pattern"] and not cut_sensitive(c["pattern"])
        nontriv = False
        for k, t in enumerate(texts):
            want = c["res"][k]
            pairs += 1
            if want != [0, 0, 0, 0] and want != [1, 1, 1, 1]:
                nontriv = True
            if g["wm"][k] != want:
                coll.add("gen", "wildmatch", c["pattern"], t, want, g["wm"][k])
            if same_text and g["pm"][k] != want:
                coll.add("gen", "Pattern::matches", c["pattern"], t, want, g["pm"][k])
        if nontriv:
            ctx.nontrivial(bytes(c["pattern"]))
    return pairs


def run(ctx):
    binary = ctx.build("vh-c36")
    coll = Collector()
    runs = [{"PMax": 3, "TMax": 2, "Alpha": '"glob"'}, {"PMax": 3, "TMax": 1, "Alpha": '"bracket"'}, {"PMax": 3, "TMax": 3, "Alpha": '"deep"'}]
    if ctx.thorough:
        runs = [{"PMax": 4, "TMax": 2, "Alpha": '"glob"'}, {"PMax": 3, "TMax": 1, "Alpha": '"wide"'},
                {"PMax": 2, "TMax": 2, "Alpha": '"wide"'}, {"PMax": 4, "TMax": 1, "Alpha": '"bracket"'},
                {"PMax": 3, "TMax": 2, "Alpha": '"bracket"'}, {"PMax": 4, "TMax": 3, "Alpha": '"deep"'}]
    audit_pairs = []
    total_pairs = 0
    for consts in runs:
        cases = ctx.tlc_gen("match", "Wildmatch_Gen", consts=consts, timeout=3000)
        texts = [c["texts"] for c in cases if c["pattern"] == []][0]
        tf = os.path.join(ctx.work, "texts-%d.json" % len(os.listdir(ctx.work)))
        with open(tf, "w") as f:
            json.dump(texts, f)
        results = ctx.harness(binary, [{"pattern": c["pattern"], "texts_file": tf} for c in cases], timeout=1200)
        total_pairs += compare_gen(ctx, cases, results, texts, coll)
        # binding C on a seeded sample of the enumerated cases (every text of the sampled patterns)
        k = 100 if not ctx.thorough else 400
        pick = cases if len(cases) <= k else ctx.rng.sample(cases, k)
        audit_pairs += [(c["pattern"], t) for c in pick for t in texts]
        ctx.sample({"pattern": show_bytes(cases[len(cases) // 2]["pattern"]), "texts": [show_bytes(t) for t in texts[:12]],
                    "spec_res": cases[len(cases) // 2]["res"][:12]})
    ctx.cov["exhaustive"] = True
    ctx.cov["evaluations"] = total_pairs * 4

    # binding B: seeded random patterns x texts
    n = 1200 if not ctx.thorough else 10000
    rcases = []
    for _ in range(n):
        p = rnd_pattern(ctx.rng)
        rcases.append({"pattern": b2l(p), "texts": [b2l(rnd_text(ctx.rng, p)) for _ in range(4)]})
    res = ctx.harness(binary, rcases)
    events, owner = [], []
    for c, r in zip(rcases, res):
        if "got" not in r:
            ctx.violation({"kind": "crash", "api": "wildmatch", "case": c, "pattern_text": show_bytes(c["pattern"]),
                           "classes": ["crash"], "result": r})
            continue
        g = r["got"]
        for k, t in enumerate(c["texts"]):
            events.append({"k": "wm", "p": c["pattern"], "t": t, "r": g["wm"][k]})
            owner.append(("wildmatch", c["pattern"], t))
            if g["ptext"] is not None and not cut_sensitive(g["ptext"]):
                events.append({"k": "wm", "p": g["ptext"], "t": t, "r": g["pm"][k]})
                owner.append(("Pattern::matches", g["ptext"], t))
            if any(g["wm"][k]) and not all(g["wm"][k]):
                ctx.nontrivial(bytes(c["pattern"]) + b"\0" + bytes(t))
    ctx.cov["evaluations"] += 4 * len(events)
    nwm = len(events)

    # binding C: what the installed git says on the sampled enumerated pairs and on the random pairs
    events += observe_git(ctx, audit_pairs + [(c["pattern"], t) for c in rcases for t in c["texts"]])
    rejected = ctx.tlc_trace("match", "Wildmatch_Trace", events, timeout=3000)
    gitbad = [i for i in rejected if i >= nwm]
    if gitbad:
        e = events[gitbad[0]]
        audit_mismatch(ctx, "Wildmatch", {"event": e, "pattern": show_bytes(e["p"]), "text": show_bytes(e["t"]), "rejected": len(gitbad)})
    ctx.cov["git_audited"] = len(events) - nwm
    ctx.log("audit: git check-ignore agreed with the specification on %d observations" % (len(events) - nwm))
    rejected = [i for i in rejected if i < nwm]

    # every disagreement is shown to git as well (when git can be observed on it); the same TLC run
    # tells the specification's verdicts for the rejected random events (probing)
    if rejected or coll.by_sig:
        rpairs = [(owner[i][1], owner[i][2]) for i in rejected]
        probes = [{"k": "wm", "p": p, "t": t, "r": c} for p, t in rpairs for c in CANDS]
        obs = observe_git(ctx, [(r["case"]["pattern"], r["case"]["texts"][0]) for r in coll.records()] + rpairs)
        rej = ctx.tlc_trace("match", "Wildmatch_Trace", probes + obs, timeout=3000)
        gitbad = [i for i in rej if i >= len(probes)]
        if gitbad:
            audit_mismatch(ctx, "Wildmatch (disagreeing cases)", {"event": (probes + obs)[gitbad[0]]})
        rej = set(rej)
        for n, bi in enumerate(rejected):
            ok = [c for i, c in enumerate(CANDS) if 16 * n + i not in rej]
            if len(ok) != 1:
                raise ToolError("spec verdict not unique for %r: %r" % (rpairs[n], ok))
            coll.add("random", owner[bi][0], owner[bi][1], owner[bi][2], ok[0], events[bi]["r"])
        seen = {(o["k"], bytes(o["p"]), bytes(o["t"])): o for o in obs}
        for r in coll.records():
            p, t = bytes(r["case"]["pattern"]), bytes(r["case"]["texts"][0])
            o = {k: seen[(k, p, t)]["r"] for k in ("gb", "gx") if (k, p, t) in seen}
            r["git_check_ignore"] = dict(o, agrees_with_spec=True) if o else "not observable"
            ctx.violation(r)
    ctx.cov["rule"] = ("A: every pattern of <= PMax tokens x every text of <= TMax tokens over the token alphabets of Wildmatch_Gen "
                       "(runs: %s) x 4 flag combinations; B: %d seeded random patterns x 4 texts. evaluations = (pattern, text, flags) "
                       "triples executed in gitoxide. Non-trivial = a pattern (A) or pair (B) whose verdict depends on the text or on "
                       "the flags; distinct by bytes." % (json.dumps(runs), n))
    ctx.assumptions += ["git 2.39.5 is the reference: the transcription is judged against `git check-ignore --no-index` on every run",
                        "patterns/texts contain no NUL and fewer than 64 '*' (documented recursion bound)",
                        "without WM_PATHNAME git is observed on slash-free patterns and texts only",
                        "Pattern::matches is compared with plain wildmatch except for patterns with `**` right after a literal prefix (C37)"]


def replay(ctx, rec):
    binary = ctx.build("vh-c36")
    c = rec["case"]
    r = ctx.harness(binary, [c])[0]
    if "got" not in r:
        ctx.violation(dict(rec, result=r))
        return
    g = r["got"]
    api = rec.get("api", "wildmatch")
    evs = []
    for k, t in enumerate(c["texts"]):
        if api == "Pattern::matches":
            if g["ptext"] is not None:
                evs.append({"k": "wm", "p": g["ptext"], "t": t, "r": g["pm"][k]})
        else:
            evs.append({"k": "wm", "p": c["pattern"], "t": t, "r": g["wm"][k]})
    for bi in ctx.tlc_trace("match", "Wildmatch_Trace", evs):
        ctx.violation(dict(rec, gitoxide=evs[bi]["r"], replayed=True))
        return
