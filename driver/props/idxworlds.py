"""Shared by C24/C25: small worlds materialised with the real git whose index files are the inputs,
and the reading of `git ls-files --stage --debug` (binding C)."""
import os
import re
import shutil
import struct

from vf import git, ToolError

FEATURES = ["v2", "v4", "threads", "untracked", "ita", "skipwt", "assume", "conflict", "reuc", "sparse", "longpath", "notree"]


def _g(repo, args, conf=(), check=True, input=None, timeout=600):
    c = []
    for k in conf:
        c += ["-c", k]
    return git(c + list(args), cwd=repo, check=check, input=input if input is not None else b"", timeout=timeout)


def make_world(rng, repo, features, n_files=None):
    """Build a repository at `repo` whose .git/index exercises `features`. Returns the list of config
    settings that were active when git wrote the index."""
    shutil.rmtree(repo, ignore_errors=True)
    os.makedirs(repo)
    conf = ["core.fsync=none", "gc.auto=0", "advice.detachedHead=false"]
    conf.append("index.version=%d" % (4 if "v4" in features else 2))
    if "threads" in features:
        conf.append("index.threads=%d" % rng.choice([2, 3, 4, 8]))
    else:
        conf.append("index.threads=1")
    if "untracked" in features:
        conf.append("core.untrackedCache=true")
    if "sparse" in features:
        conf.append("index.sparse=true")
    _g(repo, ["init", "-q", "."])
    for kv in conf:
        k, v = kv.split("=", 1)
        _g(repo, ["config", k, v])
    n = n_files if n_files is not None else rng.randint(1, 14)
    names = ["a", "b", "c", "dir", "e", "lib", "x-y", "x.y", "x", "Z", "with space", "é", "m", "n0", "deep"]
    paths = set()
    while len(paths) < n:
        depth = rng.choice([0, 0, 1, 1, 2, 3])
        parts = [rng.choice(names) for _ in range(depth)] + [rng.choice(names) + rng.choice(["", ".c", ".txt", "1"])]
        p = "/".join(parts)
        # no file/directory clashes
        if any(q == p or q.startswith(p + "/") or p.startswith(q + "/") for q in paths):
            continue
        paths.add(p)
    if "longpath" in features:
        paths.add("long/" + "p" * rng.choice([180, 200, 230]))
    paths = sorted(paths)
    for p in paths:
        full = os.path.join(repo, p)
        os.makedirs(os.path.dirname(full) or repo, exist_ok=True)
        with open(full, "w") as f:
            f.write("content of %s\n" % p * rng.randint(0, 3))
        if rng.random() < 0.15:
            os.chmod(full, 0o755)
    _g(repo, ["add", "-A"])
    _g(repo, ["commit", "-q", "-m", "base"])
    if "conflict" in features or "reuc" in features:
        victims = rng.sample(paths, min(len(paths), rng.randint(1, 2)))
        _g(repo, ["checkout", "-q", "-b", "side"])
        for p in victims:
            with open(os.path.join(repo, p), "w") as f:
                f.write("side\n")
        _g(repo, ["commit", "-q", "-am", "side"])
        _g(repo, ["checkout", "-q", "-"])
        for p in victims:
            with open(os.path.join(repo, p), "w") as f:
                f.write("main\n")
        _g(repo, ["commit", "-q", "-am", "main"])
        _g(repo, ["merge", "-q", "side"], check=False)
        if "reuc" in features:
            # resolving records the resolve-undo extension
            with open(os.path.join(repo, victims[0]), "w") as f:
                f.write("resolved\n")
            _g(repo, ["add", victims[0]])
            if "conflict" not in features:
                for p in victims[1:]:
                    _g(repo, ["add", p])
    if "ita" in features:
        with open(os.path.join(repo, "intent.txt"), "w") as f:
            f.write("later\n")
        _g(repo, ["add", "-N", "intent.txt"])
    if "skipwt" in features and "sparse" not in features:
        _g(repo, ["update-index", "--skip-worktree", rng.choice(paths)], check=False)
    if "assume" in features:
        _g(repo, ["update-index", "--assume-unchanged", rng.choice(paths)], check=False)
    if "sparse" in features and "conflict" not in features and "reuc" not in features and "ita" not in features:
        dirs = sorted({p.split("/")[0] for p in paths if "/" in p})
        if dirs:
            _g(repo, ["sparse-checkout", "init", "--cone", "--sparse-index"], check=False)
            _g(repo, ["sparse-checkout", "set", dirs[0]], check=False)
    if "untracked" in features:
        for k in range(rng.randint(0, 3)):
            d = rng.choice(["", "dir", "lib"])
            # not inside a (possibly sparse) directory of a sparse index: git un-sparsifies directories that are present
            # on disk when it *loads* the index, so `ls-files --sparse` would no longer show what the file holds
            if os.path.isfile(os.path.join(repo, d)) or "sparse" in features:
                d = ""
            os.makedirs(os.path.join(repo, d), exist_ok=True)
            with open(os.path.join(repo, d, "untracked%d" % k), "w") as f:
                f.write("u\n")
        with open(os.path.join(repo, ".gitignore"), "w") as f:
            f.write("*.o\n")
        # make mtime differ from ctime for the files/directories whose stat data the cache stores
        past = 1000000000 + rng.randint(0, 10 ** 8)
        for root, dnames, _f in os.walk(repo):
            if ".git" in dnames:
                dnames.remove(".git")
            os.utime(root, (past, past))
        os.utime(os.path.join(repo, ".git", "info", "exclude"), (past + 5, past + 5))
        os.utime(os.path.join(repo, ".gitignore"), (past + 9, past + 9))
        _g(repo, ["update-index", "--untracked-cache"])
        _g(repo, ["status", "--porcelain"])
        _g(repo, ["status", "--porcelain"])
    if "notree" in features:
        # rewriting one entry invalidates part of the cache tree
        p = rng.choice(paths)
        if os.path.exists(os.path.join(repo, p)) and "sparse" not in features:
            with open(os.path.join(repo, p), "a") as f:
                f.write("more\n")
            _g(repo, ["add", p], check=False)
    return conf


_NUM = re.compile(rb"^  (ctime|mtime): (\d+):(\d+)$|^  dev: (\d+)\tino: (\d+)$|^  uid: (\d+)\tgid: (\d+)$|^  size: (\d+)\tflags: ([0-9a-f]+)$")


def q(n):
    return list(struct.pack(">I", n & 0xffffffff))


def git_listing(repo, index_file=None, extra=()):
    """entries as `git ls-files --stage --debug` reports them, in the JSON shape of the abstract entries"""
    env = {"GIT_INDEX_FILE": index_file} if index_file else None
    p = git(["ls-files", "--stage", "--debug", "-z"] + list(extra), cwd=repo, env=env, check=False, timeout=600)
    if p.returncode != 0:
        return None, p.stderr.decode("utf-8", "replace")
    out = p.stdout
    entries = []
    pos = 0
    # with -z: "<mode> <id> <stage>\t<path>\0" followed by the debug lines terminated by \n
    while pos < len(out):
        tab = out.index(b"\t", pos)
        nul = out.index(b"\0", tab)
        mode, oid, stage = out[pos:tab].split(b" ")
        path = out[tab + 1:nul]
        lines = out[nul + 1:].split(b"\n", 5)
        vals = {}
        for line in lines[:5]:
            m = _NUM.match(line)
            if not m:
                raise ToolError("cannot parse ls-files --debug line %r" % line)
            if m.group(1):
                vals[m.group(1).decode()] = (int(m.group(2)), int(m.group(3)))
            elif m.group(4) is not None:
                vals["dev"], vals["ino"] = int(m.group(4)), int(m.group(5))
            elif m.group(6) is not None:
                vals["uid"], vals["gid"] = int(m.group(6)), int(m.group(7))
            else:
                vals["size"], vals["flags"] = int(m.group(8)), int(m.group(9), 16)
        pos = nul + 1 + sum(len(x) + 1 for x in lines[:5])
        fl = vals["flags"]
        entries.append({"ctime": q(vals["ctime"][0]), "ctime_ns": q(vals["ctime"][1]), "mtime": q(vals["mtime"][0]), "mtime_ns": q(vals["mtime"][1]),
                        "dev": q(vals["dev"]), "ino": q(vals["ino"]), "mode": q(int(mode, 8)), "uid": q(vals["uid"]), "gid": q(vals["gid"]),
                        "size": q(vals["size"]), "id": list(bytes.fromhex(oid.decode())), "stage": int(stage),
                        "assume_valid": bool(fl & 0x8000), "extended": bool(fl & 0x4000),
                        "intent_to_add": bool(fl & (1 << 29)), "skip_worktree": bool(fl & (1 << 30)), "path": list(path)})
    return entries, ""
