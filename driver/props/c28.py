"""C28 - Config edits change only what was edited.

spec/config/ConfigEdit.tla: a file is abstracted (through ConfigFormat's audited transcription of git's
reader) to front comments + sections of entries and comments; Apply(F, call) is the intended meaning of
every mutation call of gix_config::File / SectionMut / ValueMut / MultiValueMut (set, push,
push_with_comment, remove, pop, set_raw_value, set_existing_raw_value, value delete, multi set_all /
delete, new / remove / rename section). TLC checks on every generated behaviour that Apply changes only
the targeted entries and keeps the comments (OnlyTargetsChange).
 A: ConfigEdit_Gen enumerates texts built from line tokens (duplicate sections / keys, implicit keys,
    quoted values with trailing comments, continuation lines, comment and blank lines) x call sequences,
    with the abstract file expected after every call. The real File replays them; after every call the
    serialised file read back (gix's parser) must be the expected abstract file, the success flag must
    agree, in-memory lookups (raw_values_by) must return the intended values, nothing may panic; the
    final text is also read by `git config --list -z` (must show the intended listing).
 B: ConfigEdit_Trace (stateful, TLC's own reading of the serialised text) judges every call of a sample
    of those behaviours and of seeded random histories of 20 calls on generated files.
"""
import concurrent.futures
from vf import *

LEVEL = "model_checking"
META = {
    "technique": "TLA+ model of the abstract effect of every config mutation call, invariants checked by TLC; all TLC behaviours replayed through gix_config::File; serialised results judged by a TLC trace spec and read by git",
    "note": "Exhaustive for the stated line/call alphabets and lengths. Judged domain: texts git accepts without legacy [a.b] headers, keys inside sections, no NUL / lone CR; values without NUL / CR. Trusted: TLC, git 2.39.5 as reader.",
}


def O(op, hassub=False, key=b"", hasval=False, val=b"", nsec=b"", nhassub=False, nsub=b"", idx=0, cmt=b"", sec=b"a"):
    return {"op": op, "sec": b2l(sec), "hassub": hassub, "sub": b2l(b"s") if hassub else [], "key": b2l(key), "hasval": hasval,
            "val": b2l(val), "nsec": b2l(nsec), "nhassub": nhassub, "nsub": b2l(nsub), "idx": idx, "cmt": b2l(cmt)}


LINES = [b"[a]\n", b"[a \"s\"]\n", b"\tk = v\n", b"\tk\n", b"\tk = \"q v\" ; c\n", b"\tk = a\\\n  b\n", b"  J=w #d\n", b"; note\n", b"\n",
         b"\tk \n", b"[A]\n", b"\tn = 1\n", b"\tj\n", b"# top\n"]
VALUES = [b"x", b" y;", b"q\"\\\nz", b"", b"a b", b"t\tu", b"#", b"1k", b"true"]
KEYS = [b"k", b"j", b"n", b"K"]


def random_op(rng):
    op = rng.choice(["set", "set", "push", "push", "pushc", "remove", "pop", "set_raw", "set_raw", "set_existing", "value_delete",
                     "multi_set_all", "multi_delete", "new_section", "remove_section", "rename_section"])
    hs = rng.random() < 0.3
    key = rng.choice(KEYS)
    val = rng.choice(VALUES)
    if op in ("set", "set_raw", "set_existing", "multi_set_all"):
        return O(op, hs, key, True, val)
    if op == "push":
        hv = rng.random() < 0.7
        return O(op, hs, key, hv, val if hv else b"")
    if op == "pushc":
        hv = rng.random() < 0.7
        return O(op, hs, key, hv, val if hv else b"", cmt=rng.choice([b"why", b" a\nb", b""]))
    if op in ("remove", "value_delete"):
        return O(op, hs, key)
    if op == "multi_delete":
        return O(op, hs, key, idx=rng.randint(0, 1))
    if op == "rename_section":
        return O(op, hs, nsec=rng.choice([b"c", b"a"]), nhassub=rng.random() < 0.5, nsub=b"t")
    return O(op, hs)


def flat(listing):
    return b"".join(bytes(e["name"]) + ((b"\n" + bytes(e["val"])) if e["hasval"] else b"") + b"\0" for e in listing)


def label(before, op):
    """shape label for matchers: was an occurrence of the targeted key implicit before the call?"""
    hn = bytes(op["sec"]).lower() + ((b"." + bytes(op["sub"])) if op["hassub"] else b"")
    key = bytes(op["key"]).lower()
    for s in before["secs"]:
        if bytes(s["name"]) == hn:
            for it in s["items"]:
                if it["t"] == "kv" and bytes(it["key"]) == key and not it["hasval"]:
                    return "target-implicit"
    return "target-plain"


def hist_label(ops, k):
    """root-cause label: calls made after a rename_section / remove_section run on a stale lookup table"""
    prev = {o["op"] for o in ops[:k]}
    if "rename_section" in prev:
        return "hist:rename"
    if "remove_section" in prev:
        return "hist:remove_section"
    if any(o["op"] == "pushc" and not o["hasval"] for o in ops[:k]):
        return "hist:pushc-implicit"      # the text already holds `key # comment`, which git cannot read
    return "hist:plain"


def judge_case(ctx, c, r, kind):
    """compare one replayed behaviour with the spec's expectation; reports at most one violation per call"""
    if "got" not in r or not r["got"].get("load_ok"):
        ctx.violation({"kind": kind, "what": "file could not be loaded / executor crashed", "classes": ["load"], "case": case_of(c), "result": r})
        return
    before = c["init"]
    for k, (op, exp) in enumerate(zip(c["ops"], c["steps"])):
        if k >= len(r["got"]["steps"]):
            break
        g = r["got"]["steps"][k]
        base = {"kind": kind, "case": case_of(c), "call_index": k, "op": op["op"], "text": show_bytes(c["text"])}
        lab = label(before, op) + "," + hist_label(c["ops"], k)
        if "panic" in g:
            ctx.violation(dict(base, what="panic in %s: %s" % (op["op"], g["panic"]), classes=[op["op"], "panic", lab]))
            return
        base["written"] = show_bytes(g["ser"])
        if not g["reparse_ok"]:
            ctx.violation(dict(base, what="serialised file does not parse", classes=[op["op"], "reparse", lab]))
            return
        if g["file"] != exp["file"]:
            ctx.violation(dict(base, what="after %s the file is not the intended one" % op["op"], classes=[op["op"], "file", lab],
                               expected=exp["file"], observed=g["file"]))
            return
        if g["ok"] != exp["ok"]:
            ctx.violation(dict(base, what="%s reported success=%s, expected %s" % (op["op"], g["ok"], exp["ok"]), classes=[op["op"], "ok", lab]))
            return
        want = {}
        for e in exp["listing"]:
            want.setdefault(bytes(e["name"]), []).append(e["val"])
        if isinstance(g["lookups"], dict):
            ctx.violation(dict(base, what="panic in lookup after %s: %s" % (op["op"], g["lookups"].get("panic")), classes=[op["op"], "lookup-panic", lab]))
            return
        got = {bytes(x["name"]): x["values"] for x in g["lookups"]}
        if got != want:
            ctx.violation(dict(base, what="in-memory lookups after %s do not return the intended values" % op["op"],
                               classes=[op["op"], "lookup", lab],
                               expected={show_bytes(list(n)): v for n, v in want.items()}, observed={show_bytes(list(n)): v for n, v in got.items()}))
            return
        before = exp["file"]


def case_of(c):
    return {"text": c["text"], "ops": c["ops"]}


def git_reads(ctx, cases, results, limit):
    """after serialisation git must read the intended listing (final state of a behaviour)"""
    d = os.path.join(ctx.work, "gitread")
    os.makedirs(d, exist_ok=True)
    todo = []
    for i, (c, r) in enumerate(zip(cases, results)):
        if "got" in r and r["got"].get("load_ok") and len(r["got"]["steps"]) == len(c["ops"]) and "ser" in r["got"]["steps"][-1]:
            todo.append(i)
    if len(todo) > limit:
        todo = sorted(ctx.rng.sample(todo, limit))

    def one(i):
        p = os.path.join(d, "%d.cfg" % i)
        with open(p, "wb") as f:
            f.write(bytes(results[i]["got"]["steps"][-1]["ser"]))
        rr = git(["config", "-f", p, "--list", "-z"])
        os.remove(p)
        return i, rr
    n = 0
    with concurrent.futures.ThreadPoolExecutor(12) as ex:
        for i, rr in ex.map(one, todo):
            n += 1
            want = flat(cases[i]["steps"][-1]["listing"])
            if rr.returncode != 0 or rr.stdout != want:
                g = results[i]["got"]["steps"][-1]
                if g["file"] != cases[i]["steps"][-1]["file"]:
                    continue        # already reported by judge_case with its class
                ctx.violation({"kind": "git", "what": "git does not read the intended values from the serialised file",
                               "classes": [cases[i]["ops"][-1]["op"], "git-read", hist_label(cases[i]["ops"], len(cases[i]["ops"]) - 1)], "case": case_of(cases[i]),
                               "written": show_bytes(g["ser"]), "git_rc": rr.returncode, "git": rr.stdout.decode("latin1"),
                               "expected": want.decode("latin1")})
    ctx.log("git read back %d serialised files" % n)
    ctx.cov["git_read_back"] = n


def trace_events(text, ops, got):
    evs = [{"ev": "load", "text": text, "o": O("none"), "ok": True, "ser": []}]
    for op, g in zip(ops, got["steps"]):
        if "panic" in g or "stop" in g:
            break
        evs.append({"ev": "op", "text": [], "o": op, "ok": g["ok"], "ser": g["ser"]})
    return evs


def run(ctx):
    binary = ctx.build("vh-c28")
    plan = [(2, 1, "FALSE"), (1, 2, "FALSE")]
    if ctx.thorough:
        plan = [(2, 2, "FALSE"), (3, 1, "FALSE"), (2, 1, "TRUE"), (1, 2, "TRUE")]
    cases, seen = [], set()
    for ml, me, wide in plan:
        for c in ctx.tlc_gen("config", "ConfigEdit_Gen", consts={"MaxLines": ml, "MaxEdits": me, "Wide": wide}, workers=6, timeout=3000):
            k = json.dumps([c["text"], c["ops"]])
            if k not in seen:
                seen.add(k)
                cases.append(c)
    ctx.cov["exhaustive"] = True
    results = ctx.harness(binary, [{"text": c["text"], "ops": c["ops"]} for c in cases])
    for c, r in zip(cases, results):
        judge_case(ctx, c, r, "gen")
        if any(s["ok"] for s in c["steps"]):
            ctx.nontrivial(json.dumps([c["text"], c["ops"]]))
    mid = cases[len(cases) // 2]
    ctx.sample({"text": show_bytes(mid["text"]), "ops": [o["op"] for o in mid["ops"]],
                "expected_listing": [show_bytes(e["name"]) + "=" + show_bytes(e["val"]) for e in mid["steps"][-1]["listing"]]})
    git_reads(ctx, cases, results, 600 if not ctx.thorough else 8000)

    # binding B: TLC reads the serialised texts itself: a sample of the behaviours above ...
    ns = 700 if not ctx.thorough else 8000
    pick = range(len(cases)) if len(cases) <= ns else sorted(ctx.rng.sample(range(len(cases)), ns))
    evs, own = [], []
    for i in pick:
        r = results[i]
        if "got" in r and r["got"].get("load_ok"):
            for k, e in enumerate(trace_events(cases[i]["text"], cases[i]["ops"], r["got"])):
                evs.append(e)
                own.append(("gen", i, k - 1))
    # ... and seeded random histories of 20 calls
    nh = 40 if not ctx.thorough else 600
    rnd = []
    for _ in range(nh):
        lines = [ctx.rng.choice(LINES[:2])] + [ctx.rng.choice(LINES) for _ in range(ctx.rng.randint(1, 6))]
        rnd.append({"text": b2l(b"".join(lines)), "ops": [random_op(ctx.rng) for _ in range(20)], "reload": True})
    rres = ctx.harness(binary, rnd)
    for i, (c, r) in enumerate(zip(rnd, rres)):
        if "got" not in r or not r["got"].get("load_ok"):
            raise ToolError("random text not loadable: %r" % bytes(c["text"]))
        for k, g in enumerate(r["got"]["steps"]):
            if "panic" in g:
                ctx.violation({"kind": "random", "what": "panic in %s: %s" % (c["ops"][k]["op"], g["panic"]),
                               "classes": [c["ops"][k]["op"], "panic", "random"], "case": {"text": r["got"]["steps"][k - 1]["ser"] if k > 0 else c["text"], "ops": [c["ops"][k]]},
                               "text": show_bytes(r["got"]["steps"][k - 1]["ser"] if k > 0 else c["text"]), "call_index": 0})
        for k, e in enumerate(trace_events(c["text"], c["ops"], r["got"])):
            evs.append(e)
            own.append(("rnd", i, k - 1))
        ctx.nontrivial(json.dumps([c["text"], c["ops"]]))
    already = {(v["kind"], json.dumps(v["case"]["text"]), json.dumps(v["case"]["ops"]), v.get("call_index")) for v in ctx.seen}
    for bi in ctx.tlc_trace("config", "ConfigEdit_Trace", evs, timeout=3000):
        src, i, k = own[bi]
        if k < 0:
            raise ToolError("generated text outside the judged domain: %r" % bytes((cases if src == "gen" else rnd)[i]["text"]))
        if src == "gen":
            c = cases[i]
            if ("gen", json.dumps(c["text"]), json.dumps(c["ops"]), k) in already:
                continue
            ctx.violation({"kind": "gen-trace", "what": "call rejected by ConfigEdit_Trace", "classes": [c["ops"][k]["op"], "trace", hist_label(c["ops"], k)],
                           "case": case_of(c), "call_index": k, "text": show_bytes(c["text"]),
                           "written": show_bytes(results[i]["got"]["steps"][k]["ser"])})
        else:
            c = rnd[i]
            prev = bytes(rres[i]["got"]["steps"][k - 1]["ser"]) if k > 0 else bytes(c["text"])
            # minimal replay: the text the file really was before the call + that one call
            ctx.violation({"kind": "random-trace", "what": "call rejected by ConfigEdit_Trace", "classes": [c["ops"][k]["op"], "trace", "single-call"],
                           "case": {"text": b2l(prev), "ops": [c["ops"][k]]}, "call_index": 0, "text": show_bytes(b2l(prev)),
                           "written": show_bytes(rres[i]["got"]["steps"][k]["ser"]), "history_text": show_bytes(c["text"]), "history_index": k})
    hist = {}
    for v in ctx.violations:
        k = v["kind"] + ":" + "+".join(v["classes"])
        hist[k] = hist.get(k, 0) + 1
    ctx.cov["violation_classes"] = hist
    ctx.cov["rule"] = ("A: every behaviour of ConfigEdit_Gen for (MaxLines, MaxEdits, Wide) in %s (exhaustive); B: %d of them and %d seeded random "
                       "histories of 20 calls judged call by call by ConfigEdit_Trace. Non-trivial = at least one call really edits; "
                       "distinct by (text, calls)." % (plan, len(pick), nh))
    ctx.assumptions += ["texts without legacy [a.b] headers (C27 covers their matching), keys inside sections, no NUL / lone CR",
                        "git 2.39.5 reads the serialised files; ConfigFormat's transcription of its reader is audited by C26/C27"]


def replay(ctx, rec):
    binary = ctx.build("vh-c28")
    c = rec["case"]
    r = ctx.harness(binary, [c])[0]
    if "got" not in r or not r["got"].get("load_ok"):
        ctx.violation(dict(rec, result=r))
        return
    for k, g in enumerate(r["got"]["steps"]):
        if "panic" in g:
            ctx.violation(dict(rec, what="replayed: panic %s" % g["panic"]))
            return
    evs = trace_events(c["text"], c["ops"], r["got"])
    bad = ctx.tlc_trace("config", "ConfigEdit_Trace", evs)
    if bad:
        ctx.violation(dict(rec, what="replayed: call %d rejected by ConfigEdit_Trace" % (bad[0] - 1), written=show_bytes(evs[bad[0]]["ser"])))
        return
    # lookups are judged against the listing TLC derives; here: against gix's own reading of its output
    for k, g in enumerate(r["got"]["steps"]):
        want = {}
        for s in g["file"]["secs"]:
            for it in s["items"]:
                if it["t"] == "kv":
                    want.setdefault(bytes(s["name"]) + b"." + bytes(it["key"]), []).append(it["val"])
        got = {bytes(x["name"]): x["values"] for x in g["lookups"]} if isinstance(g["lookups"], list) else None
        if got != want:
            ctx.violation(dict(rec, what="replayed: in-memory lookups differ from the serialised file after call %d" % k))
            return
