"""C52 - Dates format and parse consistently with git.

spec/misc/DateFmt.tla defines the calendar arithmetic, the text of every gix-date output format
(FormatText), what each format carries (Project), the canonical absolute grammars with git's
reading of them (ParseText, GitComparable) and the texts gix_date::parse must accept (MustAccept).
TLC checks the round-trip law ParseText(FormatText(f, t)) = Project(f, t) of the specification on
every enumerated (instant, offset, format).
 A: DateFmt_Gen mode "format": instants x offsets x formats -> Time::format must print the spec's
    text and gix_date::parse must read it back as Project(f, t); mode "parse": texts laid out from
    field tokens (valid/invalid dates, 24:00:00, :60, one-digit day, wrong weekday, odd zones)
    -> gix_date::parse judged with MustAccept / GitComparable.
 B: seeded random times/formats and random texts; what gix-date did is judged by TLC (DateFmt_Trace).
 C: git audits the specification: `git fast-import --date-format=raw` + `for-each-ref
    %(authordate:<fmt>)` renders the enumerated times (FormatText), `git fast-import
    --date-format=rfc2822` (= parse_date, the parser of GIT_AUTHOR_DATE) reads the comparable texts
    (ParseText); random cases go through DateFmt_Trace as `who = "git"` events.
"""
from vf import *

LEVEL = "exploration"

GIT_FMT = {"DEFAULT": "default", "GIT_RFC2822": "rfc", "ISO8601": "iso", "ISO8601_STRICT": "iso-strict",
           "RAW": "raw", "UNIX": "unix", "SHORT": "short"}


def txt(l):
    return show_bytes(l)


class Git:
    def __init__(self, ctx):
        self.dir = os.path.join(ctx.work, "dates")
        os.makedirs(self.dir, exist_ok=True)
        self.n = 0

    def _repo(self):
        self.n += 1
        path = os.path.join(self.dir, "r%d.git" % self.n)
        git(["init", "-q", "--bare", path], check=True)
        return path

    def render(self, raws):
        """raws: ['<secs> <+-HHMM>'] -> [{git format name: text}] as git prints these commit dates"""
        repo = self._repo()
        stream = b"".join(b"commit refs/heads/c%07d\nauthor A <a@x> %s\ncommitter A <a@x> %s\ndata 1\nx\n" % (i, r, r)
                          for i, r in enumerate(raws))
        p = git(["fast-import", "--quiet", "--date-format=raw"], cwd=repo, input=stream, timeout=600)
        if p.returncode != 0:
            raise ToolError("git fast-import (raw dates) failed: %s" % p.stderr.decode("utf-8", "replace")[-300:])
        names = sorted(set(GIT_FMT.values()))
        fmt = "%(refname)" + "".join("|%(authordate:" + n + ")" for n in names)
        out = git(["for-each-ref", "--format=" + fmt, "refs/heads/"], cwd=repo, check=True, timeout=600).stdout.decode().splitlines()
        if len(out) != len(raws):
            raise ToolError("for-each-ref listed %d of %d commits" % (len(out), len(raws)))
        res = []
        for i, line in enumerate(out):
            parts = line.split("|")
            if parts[0] != "refs/heads/c%07d" % i:
                raise ToolError("unexpected ref order: %s" % parts[0])
            res.append(dict(zip(names, parts[1:])))
        shutil.rmtree(repo, ignore_errors=True)
        return res

    def parse(self, texts):
        """texts: [bytes] -> [(ok, secs str, offset seconds)] per git's parse_date"""
        if not texts:
            return []
        repo = self._repo()
        stream = b"".join(b"commit refs/heads/c%07d\nauthor A <a@x> %s\ncommitter A <a@x> %s\ndata 1\nx\n" % (i, t, t)
                          for i, t in enumerate(texts))
        p = git(["fast-import", "--quiet", "--date-format=rfc2822"], cwd=repo, input=stream, timeout=600)
        if p.returncode != 0:
            shutil.rmtree(repo, ignore_errors=True)
            if len(texts) == 1:
                return [(False, "", 0)]
            h = len(texts) // 2      # locate the texts git refuses
            return self.parse(texts[:h]) + self.parse(texts[h:])
        out = git(["for-each-ref", "--format=%(refname)|%(authordate:raw)", "refs/heads/"], cwd=repo, check=True, timeout=600).stdout.decode().splitlines()
        shutil.rmtree(repo, ignore_errors=True)
        if len(out) != len(texts):
            raise ToolError("for-each-ref listed %d of %d commits" % (len(out), len(texts)))
        res = []
        for line in out:
            secs, tz = line.split("|")[1].split(" ")
            off = (int(tz[1:3]) * 3600 + int(tz[3:5]) * 60) * (-1 if tz[0] == "-" else 1)   # git's raw zone field -> seconds, data only
            res.append((True, secs, off))
        return res


def same_time(p, want, sign=True):
    if not p["ok"] or p["secs"] != txt(want["secs"]) or p["offset"] != want["offset"]:
        return False
    return not sign or p["neg"] == (want["offset"] < 0 or want["negz"])


def show_p(p):
    if "parse_panic" in p:
        return "PANIC " + p["parse_panic"]
    return "%s %+d%s" % (p["secs"], p["offset"], " (-)" if p["neg"] else "") if p["ok"] else "error (%s)" % p["err"]


def show_t(t):
    return "%s %+d%s" % (txt(t["secs"]), t["offset"], " (-0000)" if t["negz"] else "")


def judge(c, r):
    """c: DateFmt_Gen case, r: executor result -> (class, [mismatch])"""
    if "got" not in r:
        return "crash", ["executor crashed: %s" % json.dumps(r)[:300]]
    g = r["got"]
    if c["op"] == "format":
        if "format_panic" in g:
            return "format-panic", ["Time::format(%s) panicked: %s" % (c["fmt"], g["format_panic"])]
        if g["text"] != c["text"]:
            return "format-text", ["%s of %s %+d prints %r, specification %r" % (c["fmt"], txt(c["secs"]), c["offset"], txt(g["text"]), txt(c["text"]))]
        p = g["parse"]
        if "parse_panic" in p:
            return "parse-panic", ["parse(%r) panicked: %s" % (txt(c["text"]), p["parse_panic"])]
        if not same_time(p, c["back"]):
            return "roundtrip", ["%s: %r parses back as %s, expected %s" % (c["fmt"], txt(c["text"]), show_p(p), show_t(c["back"]))]
        return None, []
    p, w = g["parse"], c["want"]
    if "parse_panic" in p:
        return "parse-panic", ["parse(%r) panicked: %s" % (txt(c["text"]), p["parse_panic"])]
    if w["must"] and not same_time(p, w["t"]):
        return "parse-valid", ["%r (%s) parses as %s, expected %s" % (txt(c["text"]), w["form"], show_p(p), show_t(w["t"]))]
    if p["ok"] and w["git"] and not same_time(p, w["t"], sign=False):
        return "parse-vs-git", ["%r (%s) parses as %s, git computes %s" % (txt(c["text"]), w["form"], show_p(p), show_t(w["t"]))]
    return None, []


WD = ["Sun", "Mon", "Tue", "Wed", "Thu", "Fri", "Sat"]
MON = ["Jan", "Feb", "Mar", "Apr", "May", "Jun", "Jul", "Aug", "Sep", "Oct", "Nov", "Dec"]


def rand_text(rng):
    y = rng.choice([rng.randint(1971, 2098)] * 6 + [rng.randint(1, 9999), rng.randint(1600, 2400)])
    mo = rng.choice([rng.randint(1, 12)] * 9 + [0, 13])
    d = rng.choice([rng.randint(1, 28)] * 5 + [29, 30, 31, 31, 0, 32])
    h = rng.choice([rng.randint(0, 23)] * 8 + [24, 25])
    mi = rng.choice([rng.randint(0, 59)] * 9 + [60])
    s = rng.choice([rng.randint(0, 59)] * 8 + [60, 61])
    sign = rng.choice("+-")
    zh = rng.choice([rng.randint(0, 14)] * 6 + [0, 0, 15, 25, 26])
    zm = rng.choice([0, 0, 0, 30, 45, 59, 60])
    wd, mon = rng.choice(WD), MON[(mo - 1) % 12]
    dd = "%02d" % d
    d1 = rng.choice([dd, "%d" % d])
    hms = "%02d:%02d:%02d" % (h, mi, s)
    z = "%s%02d%02d" % (sign, zh, zm)
    k = rng.randrange(10)
    if k == 0:
        return "%04d-%02d-%s" % (y, mo, dd)
    if k == 1:
        return "%s, %s %s %04d %s %s" % (wd, d1, mon, y, hms, z)
    if k == 2:
        return "%04d-%02d-%s %s %s" % (y, mo, dd, hms, z)
    if k == 3:
        return "%04d-%02d-%sT%s%s%02d:%02d" % (y, mo, dd, hms, sign, zh, zm)
    if k == 4:
        return "%s %s %s %04d %s %s" % (wd, mon, dd, y, hms, z)
    if k == 5:
        return "%s %s %s %s %04d %s" % (wd, mon, d1, hms, y, z)
    if k == 6:
        return "%d" % rng.choice([rng.randint(100000000, 4102358400), rng.randint(0, 10 ** rng.randint(1, 12)), -rng.randint(1, 10 ** 9)])
    if k == 7:
        return "%d %s" % (rng.choice([rng.randint(100000000, 4102358400), rng.randint(0, 10 ** rng.randint(1, 12)), -rng.randint(1, 10 ** 9)]), z)
    base = "%04d-%02d-%s %s %s" % (y, mo, dd, hms, z)
    return rng.choice([base + " ", " " + base, base.replace(" ", "  ", 1), base.lower(), base[:-1], "%s %s %s %s %04d %s" % (wd.lower(), mon, d1, hms, y, z)])


def rand_time(rng):
    secs = rng.choice([rng.randint(0, 4102358400)] * 4 + [rng.randint(-62135510400, 253402041600), rng.randint(-10 ** 6, 10 ** 6),
                                                          2 ** 31 + rng.randint(-2, 2), rng.randint(86400 * 365 * 30, 86400 * 365 * 60)])
    off = rng.choice([rng.randint(-14 * 60, 14 * 60)] * 5 + [0, 0, 330, -720, rng.randint(-1559, 1559)]) * 60
    return secs, off


def to_exec(c):
    if c["op"] == "format":
        return {"op": "format", "secs": txt(c["secs"]), "offset": c["offset"], "negz": c["negz"], "fmt": c["fmt"]}
    return {"op": "parse", "text": c["text"]}


def run(ctx):
    binary = ctx.build("vh-c52")
    g = Git(ctx)
    vios = []
    wide = "TRUE" if ctx.thorough else "FALSE"
    fcases = ctx.tlc_gen("misc", "DateFmt_Gen", consts={"Mode": '"format"', "Wide": wide}, timeout=3000)
    pcases = ctx.tlc_gen("misc", "DateFmt_Gen", consts={"Mode": '"parse"', "Wide": wide}, timeout=3000)
    ctx.cov["exhaustive"] = True
    cases = fcases + pcases
    results = ctx.harness(binary, [to_exec(c) for c in cases])
    for c, r in zip(cases, results):
        if c["op"] == "format":
            if c["offset"] != 0 or c["negz"] or c["secs"][:1] == [45]:
                ctx.nontrivial(json.dumps([c["fmt"], c["secs"], c["offset"], c["negz"]]))
        elif c["want"]["form"] != "none" and (not c["want"]["must"] or c["want"]["git"]):
            ctx.nontrivial(bytes(c["text"]))
        cls, bad = judge(c, r)
        if bad:
            vios.append({"kind": "gen", "classes": [cls] + (["leapsecond"] if c["op"] == "parse" and c["want"]["leap"] else []),
                         "shape": {"leapsecond": c["op"] == "parse" and c["want"]["leap"]},
                         "form": c.get("fmt") or c["want"]["form"], "case": c, "mismatch": bad, "result": r,
                         "text": txt(c["text"])})
    ctx.log("executor replayed %d format and %d parse cases" % (len(fcases), len(pcases)))
    mid = fcases[len(fcases) // 2]
    ctx.sample({"format": mid["fmt"], "secs": txt(mid["secs"]), "offset": mid["offset"], "text": txt(mid["text"]), "reads_back_as": show_t(mid["back"])})
    mid = pcases[len(pcases) // 2]
    ctx.sample({"text": txt(mid["text"]), "specification": {"form": mid["want"]["form"], "must_accept": mid["want"]["must"],
                                                            "git_comparable": mid["want"]["git"], "time": show_t(mid["want"]["t"])}})

    # ---- C: git renders the enumerated times, git parses the comparable texts
    # (git refuses to show wall-clock times before the epoch and fast-import zones beyond 14 h)
    rend = [c for c in fcases if c["fmt"] in GIT_FMT and c["secs"][:1] != [45] and int(txt(c["secs"])) >= 86400
            and abs(c["offset"]) <= 14 * 3600 and not c["negz"] and c["offset"] != -60]   # git omits a zone of -0001 in its default format
    raws = [l2b(c["raw"]) for c in rend]
    uniq = sorted(set(raws))
    table = dict(zip(uniq, g.render(uniq)))
    for c, raw in zip(rend, raws):
        got = table[raw][GIT_FMT[c["fmt"]]]
        if got != txt(c["text"]):
            audit_mismatch(ctx, "DateFmt.FormatText (git --date=%s)" % GIT_FMT[c["fmt"]], {"raw": raw.decode(), "git": got, "spec": txt(c["text"])})
    ctx.log("audit: git printed %d commit dates exactly as FormatText" % len(rend))
    ctx.cov["git_audited_format"] = len(rend)
    comp = [(c["text"], c["want"]["t"]) for c in pcases if c["want"]["git"]] + [(c["text"], c["back"]) for c in fcases if c["git"]]
    seen, comp2 = set(), []
    for t, w in comp:
        if bytes(t) not in seen:
            seen.add(bytes(t))
            comp2.append((t, w))
    for (t, w), (ok, secs, off) in zip(comp2, g.parse([l2b(t) for t, _w in comp2])):
        if not ok or secs != txt(w["secs"]) or off != w["offset"]:
            audit_mismatch(ctx, "DateFmt.ParseText (git parse_date)", {"text": txt(t), "git": [ok, secs, off], "spec": show_t(w)})
    ctx.log("audit: git's parse_date agreed with ParseText on %d comparable texts" % len(comp2))
    ctx.cov["git_audited_parse"] = len(comp2)

    # ---- B: random
    n = 1200 if not ctx.thorough else 15000
    fmts = ["SHORT", "RFC2822", "GIT_RFC2822", "ISO8601", "ISO8601_STRICT", "GITOXIDE", "DEFAULT", "UNIX", "RAW"]
    rnd = []
    for _ in range(n):
        secs, off = rand_time(ctx.rng)
        rnd.append({"op": "format", "secs": str(secs), "offset": off, "negz": off == 0 and ctx.rng.random() < 0.2, "fmt": ctx.rng.choice(fmts)})
    for _ in range(n):
        rnd.append({"op": "parse", "text": b2l(rand_text(ctx.rng).encode())})
    rres = ctx.harness(binary, rnd)
    events, owner = [], []
    for c, r in zip(rnd, rres):
        gg = r.get("got")
        if gg is None or "format_panic" in gg or "parse_panic" in gg.get("parse", {}):
            # a panic is only a verdict inside the judged domain: let TLC decide through an event that cannot be accepted
            p = {"ok": False, "secs": "", "offset": 0, "neg": False}
            text = gg.get("text", []) if gg else []
        else:
            p, text = gg["parse"], gg.get("text", c.get("text"))
        ev = {"who": "gix", "op": c["op"], "text": text, "ok": p["ok"], "psecs": b2l(p["secs"].encode()), "poffset": p["offset"], "pneg": p["neg"]}
        if c["op"] == "format":
            ev.update({"fmt": c["fmt"], "secs": b2l(c["secs"].encode()), "offset": c["offset"], "negz": c["negz"]})
        events.append(ev)
        owner.append((c, r))
        ctx.nontrivial(json.dumps(c, sort_keys=True))
    n_gix = len(events)
    # git on the random cases
    gtimes = [c for c in rnd if c["op"] == "format" and int(c["secs"]) >= 86400 and abs(c["offset"]) <= 14 * 3600 and c["offset"] != -60 and c["fmt"] in GIT_FMT][: (400 if not ctx.thorough else 5000)]
    raws = ["%s %s%02d%02d" % (c["secs"], "-" if c["offset"] < 0 else "+", abs(c["offset"]) // 3600, abs(c["offset"]) % 3600 // 60) for c in gtimes]
    for c, rendered in zip(gtimes, g.render([x.encode() for x in raws])):
        events.append({"who": "git", "op": "format", "fmt": c["fmt"], "secs": b2l(c["secs"].encode()), "offset": c["offset"], "negz": False,
                       "text": b2l(rendered[GIT_FMT[c["fmt"]]].encode()), "ok": False, "psecs": [], "poffset": 0, "pneg": False})
        owner.append((c, None))
    cand = [c for c in rnd if c["op"] == "parse"][: (600 if not ctx.thorough else 6000)]
    # git's parser dies on the first text it refuses: ask only about the texts the specification calls comparable (TLC selects them)
    sel = ctx.tlc_trace("misc", "DateFmt_Trace", [{"who": "probe", "op": "probe", "shape": "comparable", "text": c["text"]} for c in cand])
    gtexts = [cand[i] for i in sel]
    for c, (ok, secs, off) in zip(gtexts, g.parse([l2b(c["text"]) for c in gtexts])):
        events.append({"who": "git", "op": "parse", "text": c["text"], "ok": ok, "psecs": b2l(secs.encode()), "poffset": off, "pneg": False})
        owner.append((c, None))
    ctx.cov["git_audited_random"] = len(events) - n_gix
    rejected = ctx.tlc_trace("misc", "DateFmt_Trace", events)
    for bi in rejected:
        if bi >= n_gix:
            audit_mismatch(ctx, "DateFmt_Trace (git event)", {k: (txt(v) if isinstance(v, list) else v) for k, v in events[bi].items()})
    leap = set()
    if rejected:
        leap = set(ctx.tlc_trace("misc", "DateFmt_Trace", [{"who": "probe", "op": "probe", "shape": "leap", "text": events[bi]["text"]} for bi in rejected]))
    for j, bi in enumerate(rejected):
        ev, (c, r) = events[bi], owner[bi]
        vios.append({"kind": "random", "classes": ["trace"] + (["leapsecond"] if j in leap else []), "shape": {"leapsecond": j in leap},
                     "form": c.get("fmt", "parse"), "case": c,
                     "mismatch": ["observation rejected by DateFmt_Trace: %s -> %s" % (txt(ev["text"]), show_p({"ok": ev["ok"], "secs": txt(ev["psecs"]), "offset": ev["poffset"], "neg": ev["pneg"], "err": ""}))],
                     "text": txt(ev["text"]), "event": ev, "result": r})
    vios.sort(key=lambda v: len(v["text"]))
    seen, first, rest = set(), [], []
    for v in vios:
        k = tuple(v["classes"])
        (rest if k in seen else first).append(v)
        seen.add(k)
    for v in first + rest:
        ctx.violation(v)
    if vios:
        summary = {}
        for v in vios:
            k = "/".join(v["classes"])
            summary[k] = summary.get(k, 0) + 1
        ctx.log("mismatches by class: %s" % json.dumps(summary, sort_keys=True))
    ctx.cov["rule"] = ("A: DateFmt_Gen (%s constants): every (day, second of day, offset, format) of the instant/offset alphabets inside the "
                       "representable domain, and every text laid out from the field tokens in each grammar; B: %d random times x formats and %d "
                       "random texts. Non-trivial = (format) non-UTC offset, -0000 or negative instant, (parse) a text in a judged grammar that is "
                       "either not a real calendar time or comparable with git; distinct by input." % ("wide" if ctx.thorough else "quick", n, n))
    ctx.assumptions += ["git 2.39.5 is the reference: for-each-ref %(authordate:<fmt>) for formatting, parse_date (fast-import --date-format=rfc2822) for parsing",
                        "representable = civil years 1..9999, offsets of whole minutes below 26 h (outside, Time::format panics: reported as an observation, not judged)",
                        "git comparison only where git's strict parser yields an instant: a time of day is present, years 1971..2098, bare numbers from 100000000, offsets up to 14 h",
                        "texts outside the canonical grammars (relative dates, free-form RFC 2822 variants) are not judged"]


def replay(ctx, rec):
    binary = ctx.build("vh-c52")
    c = rec["case"]
    r = ctx.harness(binary, [to_exec(c) if "want" in c or "back" in c else c])[0]
    if rec.get("kind") == "gen":
        cls, bad = judge(c, r)
        if bad:
            ctx.violation(dict(rec, mismatch=bad, result=r))
        return
    gg = r.get("got")
    if gg is None or "format_panic" in gg or "parse_panic" in gg.get("parse", {}):
        p = {"ok": False, "secs": "", "offset": 0, "neg": False}
        text = gg.get("text", []) if gg else []
    else:
        p, text = gg["parse"], gg.get("text", c.get("text"))
    ev = {"who": "gix", "op": c["op"], "text": text, "ok": p["ok"], "psecs": b2l(p["secs"].encode()), "poffset": p["offset"], "pneg": p["neg"]}
    if c["op"] == "format":
        ev.update({"fmt": c["fmt"], "secs": b2l(c["secs"].encode()), "offset": c["offset"], "negz": c["negz"]})
    if ctx.tlc_trace("misc", "DateFmt_Trace", [ev]):
        ctx.violation(dict(rec, event=ev, result=r))
