"""C01 - Object encoding round-trips and declares its exact size.

spec/object/ObjFormat.tla: abstract commit/tag/tree/blob values, RenderObj (the git object format byte for byte),
SizeByParts (the size added up field by field), ObjHeader/ObjPreimage (loose header, hash preimage), Canon (the
normal form the format forces), ParseObj (reference parser); laws ParseObj(RenderObj(o)) = Canon(o) and
SizeByParts(o) = Len(RenderObj(o)) are invariants of the generator run (self-test: Bug_TimeSizeLadder breaks the
second).
 A: ObjFormat_Gen enumerates values (boundary seconds 0, +-1, +-9, +-(10^k-1), +-10^k, +-(10^k+1), i64 MIN/MAX x
    offsets for author/committer/tagger; parents x extra-header shapes x encoding x messages x identities; tag
    shapes; trees with every mode; blobs) with the expected bytes, size, header, preimage and decoded value.
    Replayed through gix_object::{Commit,Tag,Tree,Blob}::{size,write_to,loose_header}, compute_hash,
    ObjectRef::from_bytes(..).into_owned(), the *Ref re-encoding, gix_date::Time::{size,write_to} and
    gix_odb::loose::Store::write (file content inflated by Python zlib).
 B: seeded random values (digit-length classes of i64 seconds, many parents, long/binary messages, multi-line
    headers); all observations (also those of A) are judged by ObjFormat_Trace.
 C: git audit: `git hash-object --literally -w` computes the ids of the spec's bytes; `git log`, `git for-each-ref`,
    `git ls-tree` read the spec's bytes back into the abstract fields (for values git's own parser accepts).
SHA-1 = hashlib, zlib = Python zlib (uninterpreted in the spec).
"""
import re
import zlib
from vf import *

LEVEL = "exploration"
META = {
    "technique": "TLA+ model of the git object format (render, size by parts, canonical form, reference parser) checked by TLC on every enumerated value; values replayed through gix-object/gix-actor/gix-date/gix-odb; observations judged by a TLC trace module; spec audited against git plumbing",
    "note": "Domain: values gitoxide documents as writable and the format can represent (whole-minute offsets consistent with the sign, first line of an extra-header value non-empty, tag message free of an armored-signature start). SHA-1/zlib evaluated by hashlib/zlib/git.",
}

SPEC = ("object", "ObjFormat_Trace")


def text(b):
    return show_bytes(b)


def secs_of(o):
    v = o["v"]
    if o["kind"] == "commit":
        ts = [v["author"]["time"], v["committer"]["time"]]
    elif o["kind"] == "tag" and v["tagger"]["some"]:
        ts = [v["tagger"]["v"]["time"]]
    else:
        ts = []
    return [text(t["secs"]) for t in ts]


def describe(o):
    v = o["v"]
    d = {"kind": o["kind"], "seconds": secs_of(o)}
    if o["kind"] == "commit":
        d.update(parents=len(v["parents"]), extra=[[text(h["name"]), text(h["value"])] for h in v["extra"]],
                 encoding=text(v["encoding"]["v"]) if v["encoding"]["some"] else None, message=text(v["message"])[:80])
    elif o["kind"] == "tag":
        d.update(name=text(v["name"]), tagger=v["tagger"]["some"], message=text(v["message"])[:80], pgp=v["pgp"]["some"])
    elif o["kind"] == "tree":
        d.update(entries=["%s %s" % (text(e["mode"]), text(e["name"])) for e in v["entries"]])
    else:
        d.update(len=len(v["data"]))
    return d


def inflate(raw):
    try:
        return b2l(zlib.decompress(l2b(raw)))
    except zlib.error as e:
        return "zlib: %s" % e


def judge_gen(c, r):
    """binding A: field-by-field comparison with what ObjFormat_Gen printed"""
    if "got" not in r:
        return ["crash: %s" % json.dumps(r)[:300]]
    g = r["got"]
    bad = []
    if not g["write_ok"]:
        bad.append("write: refused a value of the writable domain: %s" % g["write_err"])
    if g["bytes"] != c["bytes"]:
        bad.append("bytes: written %r, spec %r" % (text(g["bytes"])[:200], text(c["bytes"])[:200]))
    if g["size"] != c["size"]:
        bad.append("size: declared %d, spec (and bytes written) %d" % (g["size"], c["size"]))
    if g["header"] != c["header"]:
        bad.append("header: loose header %r, spec %r" % (text(g["header"]), text(c["header"])))
    want = b2l(hashlib.sha1(l2b(c["preimage"])).digest())
    if g["id"] != want:
        bad.append("id: computed %s, git's %s" % (l2b(g["id"]).hex(), l2b(want).hex()))
    for t in g["times"]:
        if t["size"] != len(t["written"]):
            bad.append("time_size: Time::size() = %d but %r is written for seconds %s" % (t["size"], text(t["written"]), text(t["secs"])))
    if not g["decode_ok"]:
        bad.append("decode: cannot decode what was written: %s" % g.get("decode_err"))
    elif g["decoded"] != c["canon"]:
        bad.append("decoded: %s, spec %s" % (json.dumps(describe(g["decoded"])), json.dumps(describe(c["canon"]))))
    if g["decode_ok"] and (not g["ref_ok"] or g["ref_bytes"] != c["bytes"] or g["ref_size"] != c["size"]):
        bad.append("ref: decoded object re-encodes to %d bytes / declares %d, spec %d" % (len(g["ref_bytes"]), g["ref_size"], c["size"]))
    if "loose_ok" in g:
        if not g["loose_ok"]:
            bad.append("loose: store refused the object: %s" % g.get("loose_err"))
        else:
            content = inflate(g["loose_raw"])
            if content != c["preimage"]:
                bad.append("loose: object file holds %r..., spec %r..." % (
                    text(content[:40]) if isinstance(content, list) else content, text(c["preimage"][:40])))
            if g["loose_id"] != want:
                bad.append("loose_id: store returned %s, git's id %s" % (l2b(g["loose_id"]).hex(), l2b(want).hex()))
    return bad


def classes(bad):
    return sorted({b.split(":")[0] for b in bad})


def event_of(o, got):
    ev = {"o": o}
    for k in ("write_ok", "bytes", "size", "header", "id", "times", "decode_ok", "decoded", "offsets", "ref_ok", "ref_size", "ref_bytes"):
        ev[k] = got[k]
    ev["sha1"] = b2l(hashlib.sha1(l2b(got["header"]) + l2b(got["bytes"])).digest())
    ev["has_loose"] = "loose_ok" in got
    ev["loose_ok"] = got.get("loose_ok", False)
    content = inflate(got["loose_raw"]) if got.get("loose_ok") else []
    if not isinstance(content, list):
        content = []
    ev["loose"] = content
    ev["loose_id"] = got.get("loose_id", [])
    ev["sha1_loose"] = b2l(hashlib.sha1(l2b(content)).digest())
    return ev


NEGPOW10 = re.compile(r"^-10+$")


def report(ctx, kind, o, bad, extra=None):
    secs = secs_of(o)
    rec = {"kind": kind, "case": {"o": o, "loose": True}, "about": describe(o), "mismatch": bad, "classes": classes(bad),
           "seconds": secs, "neg_pow10_seconds": any(NEGPOW10.match(s) for s in secs)}
    if extra:
        rec.update(extra)
    ctx.violation(rec)


# ---------------------------------------------------------------------------------- random values (inputs only)
HEXD = "0123456789abcdef"


def rnd_id(rng):
    return b2l("".join(rng.choice(HEXD) for _ in range(40)).encode())


def rnd_secs(rng):
    k = rng.random()
    if k < 0.25:
        n = rng.choice([1, -1]) * (10 ** rng.randint(0, 18)) + rng.choice([-1, 0, 0, 1])
    elif k < 0.3:
        n = rng.choice([-2 ** 63, 2 ** 63 - 1, 0, -2 ** 63 + 1])
    else:
        digits = rng.randint(1, 19)
        n = rng.choice([1, -1]) * rng.randrange(10 ** (digits - 1), 10 ** digits)
    n = max(-2 ** 63, min(2 ** 63 - 1, n))
    return b2l(str(n).encode())


def rnd_time(rng):
    return {"secs": rnd_secs(rng), "sign": rng.choice([43, 45]), "hh": rng.choice([0, 0, 1, 5, 9, 10, 12, 14, 99, rng.randint(0, 99)]),
            "mm": rng.choice([0, 0, 30, 45, 59, rng.randint(0, 59)])}


def rnd_token(rng, maxlen=24):
    n = rng.choice([0, 1, 2, rng.randint(0, maxlen)])
    alphabet = [x for x in range(1, 256) if x not in (60, 62, 10)]
    s = bytes(rng.choice(alphabet) if rng.random() < 0.3 else rng.choice(b"abcXYZ .-_@\xc3\xa9") for _ in range(n))
    return b2l(s.strip(b" \t\n\x0c\r"))


def rnd_sig(rng):
    return {"name": rnd_token(rng), "email": rnd_token(rng), "time": rnd_time(rng)}


def rnd_bytes(rng, maxlen):
    n = rng.choice([0, 1, 2, 7, rng.randint(0, maxlen)])
    mode = rng.random()
    if mode < 0.5:
        return [rng.choice(b"abc \n\n.-m\xc3\xa9") for _ in range(n)]
    return [rng.randrange(256) for _ in range(n)]


RESERVED = {b"tree", b"parent", b"author", b"committer", b"encoding"}


def rnd_extra(rng):
    while True:
        name = bytes(rng.choice(b"abcxyz-_GPS0") for _ in range(rng.randint(1, 10)))
        if name not in RESERVED:
            break
    if rng.random() < 0.3:
        name = rng.choice([b"gpgsig", b"mergetag", b"gpgsig-sha256", b"HG:extra"])
    nlines = rng.choice([1, 1, 2, 3, 6])
    lines = []
    for i in range(nlines):
        ln = bytes(rng.choice(b"ab =-+/\xff ") for _ in range(rng.randint(0, 12)))
        if i == 0 and not ln:
            ln = b"v"
        lines.append(ln)
    value = b"\n".join(lines)
    if rng.random() < 0.4:
        value += b"\n"
    return {"name": b2l(name), "value": b2l(value)}


TAGNAMES = [b"v1.0", b"a/b", b"\xc3\xa9", b"release-2024.01", b"x_y", b"v", b"1", b"a.b/c-d"]
SIGBLOCK = b"-----BEGIN PGP SIGNATURE-----\n\niQEz\n=abcd\n-----END PGP SIGNATURE-----\n"


def rnd_value(rng):
    k = rng.random()
    if k < 0.55:
        return {"kind": "commit", "v": {
            "tree": rnd_id(rng), "parents": [rnd_id(rng) for _ in range(rng.choice([0, 1, 1, 2, 3, 8]))],
            "author": rnd_sig(rng), "committer": rnd_sig(rng),
            "encoding": {"some": True, "v": b2l(rng.choice([b"ISO-8859-1", b"x", b"Shift JIS"]))} if rng.random() < 0.3 else {"some": False, "v": []},
            "extra": [rnd_extra(rng) for _ in range(rng.choice([0, 0, 1, 2, 4]))],
            "message": rnd_bytes(rng, 600)}}
    if k < 0.85:
        msg = l2b(rnd_bytes(rng, 300)).replace(b"\n-----BEGIN PGP SIGNATURE-----", b"\n-----begin-----")
        pgp = rng.random() < 0.4
        return {"kind": "tag", "v": {
            "target": rnd_id(rng), "target_kind": b2l(rng.choice([b"commit", b"tree", b"blob", b"tag"])),
            "name": b2l(rng.choice(TAGNAMES)),
            "tagger": {"some": True, "v": rnd_sig(rng)} if rng.random() < 0.8 else {"some": False, "v": rnd_sig(rng)},
            "message": b2l(msg),
            "pgp": {"some": True, "v": b2l(SIGBLOCK if rng.random() < 0.7 else SIGBLOCK[:-1] + b" trailer")} if pgp else {"some": False, "v": []}}}
    if k < 0.93:
        firsts = sorted(rng.sample([x for x in range(1, 256) if x != 47], rng.randint(0, 12)))
        modes = [b"40000", b"100644", b"100755", b"120000", b"160000", b"100664"]
        es = []
        for f in firsts:   # distinct first bytes: the order of entries is decided by the first byte alone
            nm = bytes([f]) + bytes(rng.choice([x for x in range(1, 256) if x != 47]) for _ in range(rng.randint(0, 6)))
            es.append({"mode": b2l(rng.choice(modes)), "name": b2l(nm), "id": [rng.randrange(256) for _ in range(20)]})
        return {"kind": "tree", "v": {"entries": es}}
    return {"kind": "blob", "v": {"data": rnd_bytes(rng, 2000)}}


# ---------------------------------------------------------------------------------- binding C
def raw_date(secs, t):
    """what `--date=raw` shows; git's display turns a zero offset into +0000 whatever its stored sign"""
    sign = b"+" if (t["hh"], t["mm"]) == (0, 0) else bytes([t["sign"]])
    return b"%d %s%02d%02d" % (secs, sign, t["hh"], t["mm"])


def audit(ctx, cases, limit):
    """the spec's bytes, stored by git, read back by git's own parsers into the abstract fields"""
    repo = os.path.join(ctx.work, "audit.git")
    git(["init", "-q", "--bare", repo], check=True)
    files = os.path.join(ctx.work, "audit-files")
    os.makedirs(files, exist_ok=True)
    picked = cases if len(cases) <= limit else ctx.rng.sample(cases, limit)
    by_kind = {}
    for i, c in enumerate(picked):
        p = os.path.join(files, "%d" % i)
        with open(p, "wb") as f:
            f.write(l2b(c["bytes"]))
        by_kind.setdefault(c["o"]["kind"], []).append((p, c))
    n_ids = 0
    ids = {}
    for kind, lst in by_kind.items():
        out = git(["-c", "core.fsync=none", "hash-object", "--literally", "-w", "-t", kind, "--stdin-paths"], cwd=repo,
                  input=("\n".join(p for p, _ in lst) + "\n").encode(), check=True, timeout=900).stdout.split()
        if len(out) != len(lst):
            raise ToolError("git hash-object returned %d ids for %d files" % (len(out), len(lst)))
        for (p, c), gid in zip(lst, out):
            want = hashlib.sha1(l2b(c["preimage"])).hexdigest()
            if gid.decode() != want:
                audit_mismatch(ctx, "ObjFormat preimage", {"about": describe(c["o"]), "git": gid.decode(), "spec": want})
            ids[id(c)] = want
            n_ids += 1
    # commits: git's parser gives back the fields
    n_fields = 0
    commits = [c for _, c in by_kind.get("commit", [])]
    if commits:
        fmt = "%H%x00%T%x00%P%x00%an%x00%ae%x00%ad%x00%cn%x00%ce%x00%cd%x00%e%x00%B%x01"
        out = git(["log", "--no-walk=unsorted", "--encoding=none", "--date=raw", "--format=" + fmt, "--stdin"], cwd=repo,
                  input=("\n".join(ids[id(c)] for c in commits) + "\n").encode(), check=True, timeout=900).stdout
        recs = {}
        for chunk in out.split(b"\x01"):
            chunk = chunk.lstrip(b"\n")
            if chunk:
                f = chunk.split(b"\x00")
                recs[f[0].decode()] = f
        for c in commits:
            f = recs.get(ids[id(c)])
            if f is None:
                raise ToolError("git log did not print commit %s" % ids[id(c)])
            v = c["canon"]["v"]
            plain = not v["encoding"]["some"]
            want = [l2b(v["tree"]), b" ".join(l2b(p) for p in v["parents"])]
            got = [f[1], f[2]]
            for who, (n_i, e_i, d_i) in (("author", (3, 4, 5)), ("committer", (6, 7, 8))):
                s = v[who]
                # git's ident display is only comparable for the shapes git itself would write
                # (with an encoding header git's pretty-printer re-codes non-ASCII text to UTF-8 for display)
                if s["name"] and s["email"] and (plain or max(s["name"] + s["email"]) < 128):
                    want += [l2b(s["name"]), l2b(s["email"])]
                    got += [f[n_i], f[e_i]]
                secs = int(l2b(s["time"]["secs"]))
                if 0 <= secs < 2 ** 31 and s["time"]["hh"] < 24:
                    want.append(raw_date(secs, s["time"]))
                    got.append(f[d_i])
            want.append(l2b(v["encoding"]["v"]) if v["encoding"]["some"] else b"")
            got.append(f[9])
            # %B: git prints the raw message (it appends a newline only when the message lacks one)
            msg = l2b(v["message"])
            if b"\x00" not in msg and (plain or max(msg + b"\x00") < 128):
                want.append(msg if msg.endswith(b"\n") or not msg else msg + b"\n")
                got.append(f[10] if f[10].endswith(b"\n") or not f[10] else f[10] + b"\n")
            if want != got:
                audit_mismatch(ctx, "ObjFormat commit fields", {"about": describe(c["o"]), "git": [x.decode("latin1") for x in got],
                                                                "spec": [x.decode("latin1") for x in want]})
            n_fields += 1
    # tags: for-each-ref reads them back
    # (one git process per target kind: git refuses to see one target id under two types in one process)
    all_tags = [c for _, c in by_kind.get("tag", [])]
    for tk in sorted({text(c["o"]["v"]["target_kind"]) for c in all_tags}):
        tags = [c for c in all_tags if text(c["o"]["v"]["target_kind"]) == tk]
        upd = "".join("create refs/tags/%s/t%d %s\n" % (tk, i, ids[id(c)]) for i, c in enumerate(tags))
        git(["update-ref", "--stdin"], cwd=repo, input=upd.encode(), check=True, timeout=900)
        fmt = "%(refname)%00%(object)%00%(type)%00%(tag)%00%(taggername)%00%(taggeremail)%00%(taggerdate:raw)%01"
        out = git(["for-each-ref", "--format=" + fmt, "refs/tags/" + tk], cwd=repo, check=True, timeout=900).stdout
        recs = {}
        for chunk in out.split(b"\x01"):
            chunk = chunk.lstrip(b"\n")
            if chunk:
                f = chunk.split(b"\x00")
                recs[f[0].decode()] = f
        for i, c in enumerate(tags):
            f = recs.get("refs/tags/%s/t%d" % (tk, i))
            if f is None:
                raise ToolError("git for-each-ref did not print tag %s/%d" % (tk, i))
            v = c["canon"]["v"]
            want = [l2b(v["target"]), l2b(v["target_kind"]), l2b(v["name"])]
            got = [f[1], f[2], f[3]]
            if v["tagger"]["some"]:
                s = v["tagger"]["v"]
                if s["name"] and s["email"]:
                    want += [l2b(s["name"]), b"<" + l2b(s["email"]) + b">"]
                    got += [f[4], f[5]]
                secs = int(l2b(s["time"]["secs"]))
                if 0 <= secs < 2 ** 31 and s["time"]["hh"] < 24:
                    want.append(raw_date(secs, s["time"]))
                    got.append(f[6])
            if want != got:
                audit_mismatch(ctx, "ObjFormat tag fields", {"about": describe(c["o"]), "git": [x.decode("latin1") for x in got],
                                                             "spec": [x.decode("latin1") for x in want]})
            n_fields += 1
    # trees: ls-tree
    for c in [c for _, c in by_kind.get("tree", [])][:200]:
        out = git(["ls-tree", "-z", ids[id(c)]], cwd=repo, check=True).stdout
        got = [x for x in out.split(b"\x00") if x]
        want = []
        for e in c["canon"]["v"]["entries"]:
            m = l2b(e["mode"])
            typ = b"tree" if m == b"40000" else b"commit" if m == b"160000" else b"blob"
            shown = b"100644" if m == b"100664" else m      # ls-tree shows canon_mode(): the legacy group-writable mode as 100644
            want.append(shown.rjust(6, b"0") + b" " + typ + b" " + l2b(e["id"]).hex().encode() + b"\t" + l2b(e["name"]))
        if got != want:
            audit_mismatch(ctx, "ObjFormat tree entries", {"git": [x.decode("latin1") for x in got], "spec": [x.decode("latin1") for x in want]})
        n_fields += 1
    ctx.cov["git_audited"] = ctx.cov.get("git_audited", 0) + n_ids
    ctx.cov["git_field_audited"] = ctx.cov.get("git_field_audited", 0) + n_fields
    ctx.log("audit: git hash-object agrees on %d ids; git log/for-each-ref/ls-tree read %d objects back into the spec's fields" % (n_ids, n_fields))


def trace_judge(ctx, events, inputs, kind):
    """binding B; a rejected event is a violation unless the value is outside the writable domain (generator slip)"""
    chunk = 6000
    nrej = 0
    for s in range(0, len(events), chunk):
        rej = ctx.tlc_trace(*SPEC, events[s:s + chunk], timeout=3000)
        if not rej:
            continue
        dom = ctx.tlc_trace(*SPEC, [events[s + i] for i in rej], consts={"DomainOnly": "TRUE"}, timeout=3000)
        if dom:
            raise ToolError("generated value outside the writable domain: %s" % json.dumps(describe(events[s + rej[dom[0]]]["o"])))
        for i in rej:
            nrej += 1
            report(ctx, kind, inputs[s + i], ["trace: event rejected by ObjFormat_Trace"],
                   {"observed": {k: events[s + i][k] for k in ("size", "write_ok", "decode_ok")},
                    "bytes_written": len(events[s + i]["bytes"]),
                    "size_declared_minus_written": events[s + i]["size"] - len(events[s + i]["bytes"])})
    return nrej


def run(ctx):
    binary = ctx.build("vh-c01")
    if ctx.thorough:
        consts = {"Ks": "{%s}" % ", ".join(str(k) for k in range(1, 19)), "Wide": "TRUE"}
        ctx.tlc_mc("object", "ObjFormat_Gen", consts={"Bug_TimeSizeLadder": "TRUE", "Ks": "{1}", "Wide": "FALSE"},
                   expect_violation="InvSize", coverage=False)
    else:
        consts = {"Ks": "{1, 2, 9, 10, 18}", "Wide": "FALSE"}
    cases = ctx.tlc_gen("object", "ObjFormat_Gen", consts=consts, timeout=3000)
    cases.sort(key=lambda c: json.dumps(c, sort_keys=True))
    ctx.cov["exhaustive"] = True
    results = ctx.harness(binary, [{"o": c["o"], "loose": True} for c in cases], timeout=1800)
    gen_events, gen_inputs = [], []
    for i, (c, r) in enumerate(zip(cases, results)):
        bad = judge_gen(c, r)
        if bad:
            report(ctx, "gen", c["o"], bad, {"family": c["family"]})
        elif "got" in r and (ctx.thorough or i % 3 == 0):
            # judged once more by TLC below (adds the raw decoded offsets and the loose store's id)
            gen_events.append(event_of(c["o"], r["got"]))
            gen_inputs.append(c["o"])
        if c["family"] in ("ctime", "ttime") or c["canon"] != c["o"] or (c["o"]["kind"] == "commit" and c["o"]["v"]["extra"]):
            ctx.nontrivial(json.dumps(c["o"], sort_keys=True))
    for fam in ("ctime", "cshape", "tshape"):
        k = [c for c in cases if c["family"] == fam]
        ctx.sample({"family": fam, "value": describe(k[len(k) // 2]["o"]), "spec_size": k[len(k) // 2]["size"]})
    audit(ctx, cases, 100000)

    nrand = 20000 if ctx.thorough else 800
    rnd = [rnd_value(ctx.rng) for _ in range(nrand)]
    res = ctx.harness(binary, [{"o": o, "loose": True} for o in rnd], timeout=1800)
    events, inputs = [], []
    for o, r in zip(rnd, res):
        if "got" not in r:
            report(ctx, "random", o, ["crash: %s" % json.dumps(r)[:300]])
            continue
        events.append(event_of(o, r["got"]))
        inputs.append(o)
        ctx.nontrivial(json.dumps(o, sort_keys=True))
    nrej = trace_judge(ctx, events + gen_events, inputs + gen_inputs, "trace")
    ctx.log("trace: %d of %d random + %d enumerated observations rejected" % (nrej, len(events), len(gen_events)))
    ctx.cov["rule"] = ("A: ObjFormat_Gen families ctime/ttime (boundary seconds for k in %s x %d offsets x author|committer|tagger), cshape "
                       "(parents 0..3 x extra-header shapes x encoding x messages x identities), tshape, tree (<= 3 of 7 entries, every mode), blob. "
                       "B: %d seeded random values. Non-trivial = a boundary-seconds case, a value with extra headers, or a value that differs "
                       "from its canonical form (A); every random value (B: random seconds by digit-length class, offsets, multi-line "
                       "headers, binary messages); distinct by value." % (consts["Ks"], 8 if ctx.thorough else 5, nrand))
    ctx.assumptions += ["time offsets are whole minutes below 100 hours and their sign agrees with the sign field",
                        "names/emails have no '<', '>', newline or surrounding whitespace; the first line of an extra-header value is not empty; "
                        "extra-header names are not tree/parent/author/committer/encoding",
                        "a tag message does not contain a line starting an armored signature unless it is the signature",
                        "SHA-1 by hashlib, inflate by Python zlib; git 2.39.5 parses the spec's bytes back (audited every run)"]


def replay(ctx, rec):
    binary = ctx.build("vh-c01")
    o = rec["case"]["o"]
    r = ctx.harness(binary, [rec["case"]])[0]
    if "got" not in r:
        ctx.violation(dict(rec, result=r))
        return
    ev = event_of(o, r["got"])
    if ctx.tlc_trace(*SPEC, [ev]):
        if ctx.tlc_trace(*SPEC, [ev], consts={"DomainOnly": "TRUE"}):
            raise ToolError("replayed value is outside the writable domain")
        ctx.violation(dict(rec, observed={"size": ev["size"], "bytes_written": len(ev["bytes"])}))
