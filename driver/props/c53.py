"""C53 - Mailmap resolution agrees with git.

spec/misc/Mailmap.tla transcribes git's mailmap.c (read_mailmap_line, parse_name_and_email,
add_mapping, map_user) and names the one deviation gix-mailmap documents (the e-mail takes the
mailmap's spelling): ResolveNormalisingCase.
 A: Mailmap_Gen enumerates mailmaps of <= MaxLines lines over the line alphabet and resolves every
    identity of the identity alphabet; replayed through gix_mailmap::Snapshot::from_bytes(..).resolve.
 B: seeded random mailmaps / identities; gitoxide's answers are judged by TLC (Mailmap_Trace).
 C: `git check-mailmap --stdin` audits the specification on the enumerated cases (compared with the
    printed expectation) and on the random ones (judged by Mailmap_Trace as `who = "git"` events).
"""
import concurrent.futures
from vf import *

LEVEL = "exploration"
SHAPES = ("junk", "accumulate", "oddemail", "oddspace")


def txt(l):
    return show_bytes(l)


class Git:
    def __init__(self, ctx):
        self.dir = os.path.join(ctx.work, "mm")
        os.makedirs(self.dir, exist_ok=True)
        self.repo = os.path.join(self.dir, "repo")
        git(["init", "-q", self.repo], check=True)
        self.n = 0
        import threading
        self.lock = threading.Lock()

    def check(self, mailmap, ids):
        """-> [(name, email)] as printed by git check-mailmap, or None if an identity is not expressible"""
        for i in ids:
            s = l2b(i["name"]) + l2b(i["email"])
            if any(c in s for c in b"<>\n\0") or l2b(i["name"]).strip() != l2b(i["name"]) or not i["name"]:
                return None
        with self.lock:
            self.n += 1
            path = os.path.join(self.dir, "m%d" % self.n)
        with open(path, "wb") as f:
            f.write(l2b(mailmap))
        # read back: the file git will read is the abstract mailmap
        if open(path, "rb").read() != l2b(mailmap):
            raise ToolError("mailmap file differs from abstract content")
        inp = b"".join(l2b(i["name"]) + b" <" + l2b(i["email"]) + b">\n" for i in ids)
        p = git(["-c", "mailmap.file=" + path, "-c", "mailmap.blob=", "check-mailmap", "--stdin"], cwd=self.repo, input=inp)
        os.remove(path)
        if p.returncode != 0:
            raise ToolError("git check-mailmap failed: %s" % p.stderr.decode("utf-8", "replace")[-300:])
        out = p.stdout.split(b"\n")[:-1]
        if len(out) != len(ids):
            raise ToolError("git check-mailmap printed %d lines for %d identities" % (len(out), len(ids)))
        res = []
        for line in out:
            k = line.rfind(b"<")
            if k < 0 or not line.endswith(b">"):
                raise ToolError("check-mailmap line %r" % line)
            res.append((line[:k].rstrip(b" ") if k > 0 else b"", line[k + 1:-1]))
        return res


def judge(c, r):
    """c: Mailmap_Gen case; r: executor result -> [(identity index, message)]"""
    if "got" not in r:
        return [(-1, "executor crashed: %s" % json.dumps(r)[:300])]
    bad = []
    for k, (i, want, got) in enumerate(zip(c["ids"], c["gix"], r["got"]["res"])):
        if got["name"] != want["name"] or got["email"] != want["email"]:
            bad.append((k, "%s <%s> resolves to %s <%s>, git: %s <%s>%s" % (
                txt(i["name"]), txt(i["email"]), txt(got["name"]), txt(got["email"]), txt(c["git"][k]["name"]), txt(c["git"][k]["email"]),
                "" if c["git"][k] == want else " (with the documented e-mail spelling: <%s>)" % txt(want["email"]))))
        elif not got["cow_same"]:
            bad.append((k, "resolve_cow differs from resolve"))
        elif got["mapped"] != (want["name"] != i["name"] or want["email"] != i["email"]):
            bad.append((k, "try_resolve is_some=%s although the identity %s" % (got["mapped"], "changes" if not got["mapped"] else "does not change")))
    return bad


PIECES_NAME = [b"N", b"M", b"A", b"a", b"B", b"A B", b"\xc3\x89", b"", b" ", b"x\x0c"]
PIECES_MAIL = [b"a@x", b"A@X", b"A@x", b"b@x", b"n@y", b"m@y", b"\xc3\xa9@x", b"", b" a@x", b"a@x "]
ID_NAMES = [b"A", b"a", b"B", b"A B", b"\xc3\x89", b"N"]
ID_MAILS = [b"a@x", b"A@X", b"b@x", b"n@y", b"\xc3\xa9@x"]


def rand_line(rng):
    k = rng.random()
    if k < 0.06:
        return b"# " + rng.choice(PIECES_NAME) + b" <" + rng.choice(PIECES_MAIL) + b">"
    if k < 0.10:
        return rng.choice([b"", b"  ", b"N <a@x", b"<a@x>", b"N a@x>", b"junk", b"N <n@y> <a@x> <b@x>", b"N <a@x>\r"])
    sp = lambda: rng.choice([b" ", b" ", b" ", b"", b"  ", b"\t"])
    line = rng.choice(PIECES_NAME) + sp() + b"<" + rng.choice(PIECES_MAIL) + b">"
    if rng.random() < 0.6:
        line += sp() + (rng.choice(PIECES_NAME) if rng.random() < 0.5 else b"") + sp() + b"<" + rng.choice(PIECES_MAIL[:7]) + b">"
    if rng.random() < 0.12:
        line += rng.choice([b" # c", b" j", b"  ", b"x"])
    return line


def run(ctx):
    binary = ctx.build("vh-c53")
    g = Git(ctx)
    vios = []
    consts = {"MaxLines": 3, "Wide": "TRUE" if ctx.thorough else "FALSE"}
    cases = ctx.tlc_gen("misc", "Mailmap_Gen", consts=consts, timeout=3000)
    ctx.cov["exhaustive"] = True
    results = ctx.harness(binary, cases)
    for c, r in zip(cases, results):
        classes = sorted(k for k in SHAPES if c["shapes"][k])
        if c["entries"] >= 2 and any(w != {"name": i["name"], "email": i["email"]} for i, w in zip(c["ids"], c["git"])):
            ctx.nontrivial(bytes(c["mailmap"]))
        bad = judge(c, r)
        if bad:
            vios.append({"kind": "gen", "classes": classes, "shape": c["shapes"], "case": c, "mailmap_text": txt(c["mailmap"]),
                         "mismatch": [m for _k, m in bad][:4], "result": r})
    ctx.log("executor replayed %d mailmaps x %d identities" % (len(cases), len(cases[0]["ids"])))
    ctx.cov["evaluations"] += len(cases) * (len(cases[0]["ids"]) - 1)
    mid = cases[len(cases) // 2]
    ctx.sample({"mailmap": txt(mid["mailmap"]), "identity": "%s <%s>" % (txt(mid["ids"][0]["name"]), txt(mid["ids"][0]["email"])),
                "git": "%s <%s>" % (txt(mid["git"][0]["name"]), txt(mid["git"][0]["email"]))})

    # C: git check-mailmap on the enumerated cases
    n_audit = 400 if not ctx.thorough else 6000
    sample = cases[:: max(1, len(cases) // n_audit)]
    per = {}
    for c in cases:
        for k in SHAPES:
            if c["shapes"][k] and per.get(k, 0) < 10:
                per[k] = per.get(k, 0) + 1
                sample.append(c)
    audited = 0
    with concurrent.futures.ThreadPoolExecutor(12) as ex:
        for c, res in zip(sample, ex.map(lambda c: g.check(c["mailmap"], c["ids"]), sample)):
            if res is None:
                # identities with an empty e-mail cannot all be expressed: retry with those that can
                ids = [(k, i) for k, i in enumerate(c["ids"]) if i["name"]]
                res2 = g.check(c["mailmap"], [i for _k, i in ids])
                pairs = [(c["git"][k], rr) for (k, _i), rr in zip(ids, res2)] if res2 is not None else []
            else:
                pairs = list(zip(c["git"], res))
            for want, (n, e) in pairs:
                audited += 1
                if b2l(n) != want["name"] or b2l(e) != want["email"]:
                    audit_mismatch(ctx, "Mailmap (git check-mailmap)", {"mailmap": txt(c["mailmap"]), "git": "%s <%s>" % (n.decode("utf-8", "replace"), e.decode("utf-8", "replace")),
                                                                         "spec": "%s <%s>" % (txt(want["name"]), txt(want["email"]))})
    ctx.log("audit: git check-mailmap agreed with the specification on %d resolutions" % audited)
    ctx.cov["git_audited_gen"] = audited

    # B: random mailmaps
    n = 600 if not ctx.thorough else 8000
    n_git = 150 if not ctx.thorough else 3000
    rnd = []
    for _ in range(n):
        nl = ctx.rng.choice([1, 2, 2, 3, 3, 4, 5, 6])
        mm = b"".join(rand_line(ctx.rng) + ctx.rng.choice([b"\n", b"\n", b"\n", b"\r\n"]) for _ in range(nl))
        if ctx.rng.random() < 0.1 and mm.endswith(b"\n"):
            mm = mm[:-1]
        ids = [{"name": b2l(ctx.rng.choice(ID_NAMES)), "email": b2l(ctx.rng.choice(ID_MAILS))} for _ in range(4)]
        rnd.append({"mailmap": b2l(mm), "ids": ids})
    rres = ctx.harness(binary, rnd)
    events, owner = [], []
    for c, r in zip(rnd, rres):
        if "got" not in r:
            vios.append({"kind": "random", "classes": ["crash"], "case": c, "mailmap_text": txt(c["mailmap"]), "mismatch": ["executor crashed"], "result": r})
            continue
        for i, got in zip(c["ids"], r["got"]["res"]):
            events.append({"who": "gix", "mailmap": c["mailmap"], "name": i["name"], "email": i["email"], "rname": got["name"], "remail": got["email"]})
            owner.append(c)
        ctx.nontrivial(bytes(c["mailmap"]))
    n_gix = len(events)
    with concurrent.futures.ThreadPoolExecutor(12) as ex:
        sub = rnd[:n_git]
        for c, res in zip(sub, ex.map(lambda c: g.check(c["mailmap"], c["ids"]), sub)):
            if res is None:
                continue
            for i, (nn, ee) in zip(c["ids"], res):
                events.append({"who": "git", "mailmap": c["mailmap"], "name": i["name"], "email": i["email"], "rname": b2l(nn), "remail": b2l(ee)})
                owner.append(c)
    ctx.cov["git_audited_random"] = len(events) - n_gix
    rejected = ctx.tlc_trace("misc", "Mailmap_Trace", events)
    for bi in rejected:
        if bi >= n_gix:
            ev = events[bi]
            audit_mismatch(ctx, "Mailmap_Trace (git event)", {"mailmap": txt(ev["mailmap"]), "identity": "%s <%s>" % (txt(ev["name"]), txt(ev["email"])),
                                                               "git": "%s <%s>" % (txt(ev["rname"]), txt(ev["remail"]))})
    by_case = {}
    for bi in rejected:
        by_case.setdefault(id(owner[bi]), (owner[bi], []))[1].append(events[bi])
    rej_cases = list(by_case.values())
    labels = {}
    if rej_cases:
        probes = [{"who": "probe", "mailmap": c["mailmap"], "shape": k} for c, _e in rej_cases for k in SHAPES]
        for pi in ctx.tlc_trace("misc", "Mailmap_Trace", probes):
            labels.setdefault(pi // len(SHAPES), []).append(SHAPES[pi % len(SHAPES)])
    for j, (c, evs) in enumerate(rej_cases):
        vios.append({"kind": "random", "classes": sorted(labels.get(j, [])), "shape": {k: k in labels.get(j, []) for k in SHAPES}, "case": c, "mailmap_text": txt(c["mailmap"]),
                     "mismatch": ["%s <%s> resolved to %s <%s>: rejected by Mailmap_Trace" % (txt(e["name"]), txt(e["email"]), txt(e["rname"]), txt(e["remail"])) for e in evs][:4]})
    # smallest representative of each class first
    vios.sort(key=lambda v: len(v["case"]["mailmap"]))
    seen, first, rest = set(), [], []
    for v in vios:
        k = tuple(v["classes"])
        (rest if k in seen else first).append(v)
        seen.add(k)
    first.sort(key=lambda v: len(v["classes"]))
    for v in first + rest:
        ctx.violation(v)
    if vios:
        summary = {}
        for v in vios:
            k = "+".join(v["classes"]) or "-"
            summary[k] = summary.get(k, 0) + 1
        ctx.log("mismatching mailmaps by shape: %s" % json.dumps(summary, sort_keys=True))
    ctx.cov["rule"] = ("A: all mailmaps of <= %s lines over the %s line alphabet of Mailmap_Gen x %d identities (exhaustive); B: %d seeded random "
                       "mailmaps x 4 identities. Non-trivial = (A) at least two lines take effect and some identity changes, (B) every random "
                       "mailmap; distinct by mailmap bytes." % (consts["MaxLines"], "wide" if ctx.thorough else "quick", len(cases[0]["ids"]), n))
    ctx.assumptions += ["git 2.39.5 `git check-mailmap` with mailmap.file is the reference (audited on every run)",
                        "gitoxide's documented deviation (the e-mail takes the mailmap's spelling) is part of the expectation (ResolveNormalisingCase)",
                        "judged domain: no NUL, one- and two-byte UTF-8 only (byte-exact comparison for non-UTF-8 is documented); lines shorter than git's 1024-byte line buffer"]


def replay(ctx, rec):
    binary = ctx.build("vh-c53")
    c = rec["case"]
    r = ctx.harness(binary, [c])[0]
    if rec.get("kind") == "gen":
        bad = judge(c, r)
        if bad:
            ctx.violation(dict(rec, mismatch=[m for _k, m in bad][:4], result=r))
        return
    if "got" not in r:
        ctx.violation(dict(rec, result=r))
        return
    events = [{"who": "gix", "mailmap": c["mailmap"], "name": i["name"], "email": i["email"], "rname": got["name"], "remail": got["email"]}
              for i, got in zip(c["ids"], r["got"]["res"])]
    rej = ctx.tlc_trace("misc", "Mailmap_Trace", events)
    if rej:
        ctx.violation(dict(rec, events=[events[i] for i in rej]))
