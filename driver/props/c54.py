"""C54 - Connectivity checks report exactly the missing objects.

spec/history/Conn.tla: worlds of blobs, trees (entries: file / executable / symlink / subtree / submodule) and commits;
Missing(w, present) = the objects met by walking from the commits' root trees through *present* trees that the object
database does not hold (nothing below a missing tree is visible, submodule entries are not followed); the design of the
checker (FIFO of trees, one seen set) is shown to meet it (invariant DesignOk of the generator run).
 A: Conn_Gen enumerates every junk-free world of <= NT trees / NB blobs / MaxEnt entries x two commits x every deleted
    subset, with the specification's missing set. All worlds live in ONE loose-only repository (unique blob contents per
    world; git fast-import, exploded by its unpackLimit), are read back with git cat-file (every tree's entries), then the
    deleted objects' loose files are unlinked and presence is re-read with git. gix_fsck::Connectivity::check_commit runs
    on every commit of a world with one instance; its callbacks are compared as a duplicate-free set.
 B: seeded random larger worlds (deeper trees, shared subtrees, three commits); the callbacks are judged by Conn_Trace.
 C: one `git fsck --connectivity-only --no-dangling <all commits>`; its "missing <type> <id>" lines, split by world, must
    be the specification's set (A) / are judged by the same trace module (B).
"""
import hashlib
from vf import *
from props.c46 import gitc

LEVEL = "exploration"
MODE = {"blob": "100644", "exe": "100755", "link": "120000", "commit": "160000", "tree": "040000"}


class Worlds:
    """cases[w] = {"nblob", "trees": [[{"k","r"}..]..], "commits": [root tree..], "delb", "delt"}"""

    def __init__(self, ctx, cases, tag):
        self.cases = cases
        self.root = os.path.join(ctx.work, tag)
        os.makedirs(self.root)
        self.git = os.path.join(self.root, "w.git")
        gitc(["init", "-q", "--bare", self.git], cwd=self.root)
        t0 = time.time()
        out = []
        mark = 0
        self.blobmark, self.commitmark = [], []
        for w, c in enumerate(cases):
            bm = []
            for n in range(1, c["nblob"] + 1):
                mark += 1
                data = "w%d b%d\n" % (w, n)
                out.append("blob\nmark :%d\ndata %d\n%s\n" % (mark, len(data), data))
                bm.append(mark)
            self.blobmark.append(bm)
            fake = hashlib.sha1(b"submodule of world %d" % w).hexdigest()
            cm = []
            for k, root in enumerate(c["commits"]):
                mark += 1
                msg = "w%d c%d\n" % (w, k + 1)
                out.append("commit refs/heads/w%d\nmark :%d\ncommitter C <c@x> 1600000000 +0000\ndata %d\n%sdeleteall\n" % (w, mark, len(msg), msg))
                for path, e in self.paths(c, root, ""):
                    if e["k"] == "commit":
                        out.append("M 160000 %s %s\n" % (fake, path))
                    else:
                        out.append("M %s :%d %s\n" % (MODE[e["k"]], bm[e["r"] - 1], path))
                out.append("\n")
                cm.append(mark)
            self.commitmark.append(cm)
            out.append("reset refs/heads/w%d\n\n" % w)
        marks = os.path.join(self.root, "marks")
        p = git(["-c", "core.fsync=none", "-c", "fastimport.unpackLimit=2000000000", "-c", "gc.auto=0", "fast-import", "--quiet", "--done",
                 "--export-marks=" + marks], cwd=self.git, input=("".join(out) + "done\n").encode(), timeout=3600,
                env={"MALLOC_TRIM_THRESHOLD_": "268435456", "MALLOC_TOP_PAD_": "16777216", "MALLOC_MMAP_THRESHOLD_": "33554432"})
        if p.returncode != 0:
            raise ToolError("git fast-import failed: %s" % p.stderr.decode("utf-8", "replace")[-400:])
        if os.listdir(os.path.join(self.git, "objects", "pack")):
            raise ToolError("the object database is not loose-only")
        bym = {}
        for line in open(marks):
            m, h = line.split()
            bym[int(m[1:])] = h
        self.commits = [[bym[m] for m in cm] for cm in self.commitmark]
        self.blobs = [[bym[m] for m in bm] for bm in self.blobmark]
        self.readback()
        ctx.log("materialised %d worlds (%d objects, loose) with git fast-import and read them back in %.1fs"
                % (len(cases), len(self.key), time.time() - t0))
        self.delete(ctx)

    @staticmethod
    def paths(c, tree, prefix):
        """leaf entries (blob-ish and submodule) below tree with their paths; entry j of a tree is named e<j>"""
        for j, e in enumerate(c["trees"][tree - 1], 1):
            if e["k"] == "tree":
                yield from Worlds.paths(c, e["r"], "%se%d/" % (prefix, j))
            else:
                yield "%se%d" % (prefix, j), e

    @staticmethod
    def tree_paths(c, tree, prefix):
        """(path, tree index) of every occurrence of a tree below (and including) `tree`"""
        yield prefix, tree
        for j, e in enumerate(c["trees"][tree - 1], 1):
            if e["k"] == "tree":
                yield from Worlds.tree_paths(c, e["r"], "%se%d/" % (prefix, j))

    def readback(self):
        """every tree is read with git (level by level, starting at `<commit>^{tree}`) and compared entry by entry with the
        abstract tree; this also yields the ids of the trees. The same abstract object must have one id, different
        objects different ids."""
        self.trees = [[None] * len(c["trees"]) for c in self.cases]
        seen = {}
        req = []
        for w, c in enumerate(self.cases):
            for k, root in enumerate(c["commits"]):
                req.append(("%s^{tree}" % self.commits[w][k], w, root))
        while req:
            data = gitc(["cat-file", "--batch"], cwd=self.git, input=("\n".join(r[0] for r in req) + "\n").encode())
            nxt = []
            pos = 0
            for (_spec, w, t) in req:
                nl = data.index(b"\n", pos)
                head = data[pos:nl].split()
                if len(head) != 3 or head[1] != b"tree":
                    raise ToolError("read-back: %r" % data[pos:nl])
                size = int(head[2])
                body = data[nl + 1: nl + 1 + size]
                pos = nl + 1 + size + 1
                tid = head[0].decode()
                if self.trees[w][t - 1] not in (None, tid):
                    raise ToolError("read-back: one abstract tree, two ids")
                self.trees[w][t - 1] = tid
                if tid in seen:
                    if seen[tid] != (w, t):
                        raise ToolError("read-back: two abstract trees share the id %s" % tid)
                    continue
                seen[tid] = (w, t)
                ents = []
                i = 0
                while i < len(body):
                    sp = body.index(b" ", i)
                    nul = body.index(b"\0", sp)
                    ents.append((body[i:sp].decode().zfill(6), body[sp + 1:nul].decode(), body[nul + 1:nul + 21].hex()))
                    i = nul + 21
                want = [(MODE[e["k"]], "e%d" % j, e) for j, e in enumerate(self.cases[w]["trees"][t - 1], 1)]
                if [(m, n) for m, n, _h in ents] != [(m, n) for m, n, _e in want]:
                    raise ToolError("read-back mismatch in world %d tree %d: git has %s" % (w, t, ents))
                for (_m, _n, h), (_m2, _n2, e) in zip(ents, want):
                    if e["k"] == "tree":
                        if self.trees[w][e["r"] - 1] not in (None, h):
                            raise ToolError("read-back: subtree id differs")
                        if self.trees[w][e["r"] - 1] is None:
                            self.trees[w][e["r"] - 1] = h
                            nxt.append((h, w, e["r"]))
                    elif e["k"] != "commit" and h != self.blobs[w][e["r"] - 1]:
                        raise ToolError("read-back: blob id differs in world %d tree %d" % (w, t))
            req = nxt
        self.key = {}
        for w, c in enumerate(self.cases):
            for n, h in enumerate(self.blobs[w], 1):
                self.key[h] = (w, "blob", n)
            for t, h in enumerate(self.trees[w], 1):
                if h is None:
                    raise ToolError("world %d tree %d is not reachable" % (w, t))
                if h in self.key:
                    raise ToolError("id collision between worlds")
                self.key[h] = (w, "tree", t)

    def loose(self, h):
        return os.path.join(self.git, "objects", h[:2], h[2:])

    def delete(self, ctx):
        gone = set()
        for w, c in enumerate(self.cases):
            for n in c["delb"]:
                gone.add(self.blobs[w][n - 1])
            for t in c["delt"]:
                gone.add(self.trees[w][t - 1])
        for h in gone:
            os.remove(self.loose(h))
        # the database now holds exactly the present objects (asked of git, not assumed)
        allh = sorted(self.key)
        out = gitc(["cat-file", "--batch-check"], cwd=self.git, input=("\n".join(allh) + "\n").encode()).decode().splitlines()
        for h, line in zip(allh, out):
            if line.endswith(" missing") != (h in gone):
                raise ToolError("after deletion git says %r (deleted=%s)" % (line, h in gone))
        ctx.log("deleted %d objects; presence re-read with git cat-file" % len(gone))
        self.gone = gone


def run_gix(ctx, binary, ws, chunk=2000):
    res = []
    for i in range(0, len(ws.cases), chunk):
        case = {"objects": os.path.join(ws.git, "objects"), "worlds": ws.commits[i:i + chunk]}
        r = ctx.harness(binary, [case])[0]
        if "got" not in r:
            raise ToolError("executor failed outside of a check: %s" % json.dumps(r)[:300])
        res.extend(r["got"]["worlds"])
        ctx.cov["evaluations"] += len(r["got"]["worlds"]) - 1     # one evaluation per world, not per executor case
    return res


def observed(ws, w, r):
    """executor answer -> abstract observation"""
    if "missing" not in r:
        return {"failed": r}
    rep = []
    for h, kind in r["missing"]:
        ww, k, n = ws.key.get(h, (None, None, None))
        rep.append({"k": kind if ww == w and k == kind else "foreign:%s:%s" % (kind, k), "n": n if ww == w else 0})
    return {"reported": rep, "errors": r["errors"]}


def git_fsck(ctx, ws, chunk=8000):
    """binding C: missing objects according to git fsck, per world: [{"k","n"}..]"""
    per = [[] for _ in ws.cases]
    flat = [h for cs in ws.commits for h in cs]
    for i in range(0, len(flat), chunk):
        p = git(["fsck", "--connectivity-only", "--no-dangling", "--no-progress"] + flat[i:i + chunk], cwd=ws.git, input=b"", timeout=3600)
        for line in p.stdout.decode().splitlines():
            f = line.split()
            if f[0] == "missing":
                if f[2] not in ws.key or ws.key[f[2]][1] != f[1]:
                    raise ToolError("git fsck reports an object outside the worlds: " + line)
                w, k, n = ws.key[f[2]]
                if {"k": k, "n": n} not in per[w]:      # fsck may print the line once per referencing entry; the audit is about the set
                    per[w].append({"k": k, "n": n})
            elif f[0] not in ("broken", "to", "dangling", "notice:"):
                raise ToolError("unexpected git fsck output: " + line)
    return per


def as_sets(rep):
    return (sorted(r["n"] for r in rep if r["k"] == "blob"), sorted(r["n"] for r in rep if r["k"] == "tree"))


def classes_of(c, obs):
    if "failed" in obs:
        return ["panic"]
    cl = []
    rep = obs["reported"]
    if obs["errors"]:
        cl.append("error")
    if any(r["k"].startswith("foreign") for r in rep):
        cl.append("wrong-object-or-kind")
    keys = [(r["k"], r["n"]) for r in rep]
    if len(set(keys)) != len(keys):
        cl.append("duplicate")
    want = {("blob", n) for n in c["missb"]} | {("tree", n) for n in c["misst"]} if "missb" in c else None
    if want is not None:
        if set(keys) - want:
            cl.append("extra")
        if want - set(keys):
            cl.append("not-reported")
    return cl or ["other"]


def gen_consts(ctx):
    if ctx.thorough:
        return [{"NB": 3, "NT": 2, "MaxEnt": 3, "MaxDel": 5}, {"NB": 2, "NT": 3, "MaxEnt": 2, "MaxDel": 2}]
    return [{"NB": 2, "NT": 2, "MaxEnt": 2, "MaxDel": 4}, {"NB": 1, "NT": 3, "MaxEnt": 2, "MaxDel": 1}]


def run(ctx):
    binary = ctx.build("vh-c54")
    cases = []
    for consts in gen_consts(ctx):
        cases += ctx.tlc_gen("history", "Conn_Gen", consts=consts, workers=6, timeout=3000)
    ctx.cov["exhaustive"] = True
    ws = Worlds(ctx, cases, "gen")
    # binding C
    t0 = time.time()
    for w, (c, g) in enumerate(zip(cases, git_fsck(ctx, ws))):
        if as_sets(g) != (c["missb"], c["misst"]) or len(g) != len(c["missb"]) + len(c["misst"]):
            audit_mismatch(ctx, "Conn!Missing", {"case": c, "git_fsck": g})
    ctx.cov["git_audited"] = len(cases)
    ctx.log("audit: git fsck --connectivity-only agreed with the specification on %d worlds (%.1fs)" % (len(cases), time.time() - t0))
    # binding A
    res = run_gix(ctx, binary, ws)
    for w, (c, r) in enumerate(zip(cases, res)):
        obs = observed(ws, w, r)
        if c["delb"] or c["delt"]:
            ctx.nontrivial(w)
        ok = "failed" not in obs and not obs["errors"] and all(not x["k"].startswith("foreign") for x in obs["reported"]) \
            and as_sets(obs["reported"]) == (c["missb"], c["misst"]) and len(obs["reported"]) == len(c["missb"]) + len(c["misst"])
        if not ok:
            ctx.violation({"kind": "gen", "case": c, "observed": obs, "classes": classes_of(c, obs),
                           "ids": {"commits": ws.commits[w], "blobs": ws.blobs[w], "trees": ws.trees[w]}})
    ctx.cov["worlds_with_hidden_missing_objects"] = sum(1 for c in cases if len(c["missb"]) + len(c["misst"]) < len(c["delb"]) + len(c["delt"]))
    ctx.sample(cases[len(cases) // 2])
    random_part(ctx, binary)
    ctx.violations.sort(key=lambda v: (len(v["case"]["trees"]), sum(map(len, v["case"]["trees"])), len(v["case"]["delb"]) + len(v["case"]["delt"])))
    ctx.cov["rule"] = ("A: every junk-free world (Conn_Gen constants %s: NB blobs, <= NT trees nested up to NT levels, 1..MaxEnt entries of "
                       "kinds file/symlink/executable/subtree/submodule, the same object possibly twice) x 2 commits x every deleted subset "
                       "of <= MaxDel objects; B: seeded random worlds (<= 6 blobs, <= 7 trees, <= 4 entries, 3 commits). Non-trivial = "
                       "a world with at least one deleted object; distinct by world." % json.dumps(gen_consts(ctx)))
    ctx.assumptions += ["git 2.39.5 fsck --connectivity-only --no-dangling is the reference for Conn!Missing (audited on every world)",
                        "object ids are uninterpreted: objects are numbered, the driver maps numbers to the ids git assigned",
                        "commits are always present (a missing commit is an error of check_commit by its documentation); the empty tree, "
                        "entries whose mode contradicts the object's type, packed objects and alternates are outside the judged domain",
                        "only the set of callbacks and 'each once' are judged, not their order"]


def random_world(rng):
    nb = rng.randint(1, 6)
    nt = rng.randint(1, 7)
    trees = []
    for i in range(1, nt + 1):
        ents = []
        for _ in range(rng.randint(1, 4)):
            x = rng.random()
            if i > 1 and x < 0.45:
                ents.append({"k": "tree", "r": rng.randint(max(1, i - 3), i - 1)})
            elif x < 0.55:
                ents.append({"k": "commit", "r": 0})
            else:
                ents.append({"k": rng.choice(["blob", "blob", "exe", "link"]), "r": rng.randint(1, nb)})
        if ents in trees:       # content addressed: the same entries would be the same object
            ents.append({"k": "commit", "r": 0})
            while ents in trees:
                ents.append({"k": "commit", "r": 0})
        trees.append(ents)
    # the top tree is a root, so most objects are reachable; unreachable ones are simply not materialised -> renumber
    roots = [nt, rng.randint(1, nt), rng.choice([nt, rng.randint(1, nt)])]
    return {"nblob": nb, "trees": trees, "commits": roots}


def prune(c):
    """drop objects that no commit reaches and renumber (data plumbing: fast-import cannot create unreachable trees)"""
    used_t, used_b = set(), set()
    stack = list(c["commits"])
    while stack:
        t = stack.pop()
        if t in used_t:
            continue
        used_t.add(t)
        for e in c["trees"][t - 1]:
            if e["k"] == "tree":
                stack.append(e["r"])
            elif e["k"] != "commit":
                used_b.add(e["r"])
    tmap = {t: i for i, t in enumerate(sorted(used_t), 1)}
    bmap = {b: i for i, b in enumerate(sorted(used_b), 1)}
    trees = []
    for t in sorted(used_t):
        trees.append([{"k": e["k"], "r": tmap[e["r"]] if e["k"] == "tree" else bmap[e["r"]] if e["k"] != "commit" else 0}
                      for e in c["trees"][t - 1]])
    return {"nblob": len(bmap), "trees": trees, "commits": [tmap[t] for t in c["commits"]]}


def random_part(ctx, binary):
    n = 400 if not ctx.thorough else 5000
    cases = []
    for _ in range(n):
        c = prune(random_world(ctx.rng))
        p = ctx.rng.choice([0.1, 0.25, 0.5])
        c["delb"] = [b for b in range(1, c["nblob"] + 1) if ctx.rng.random() < p]
        c["delt"] = [t for t in range(1, len(c["trees"]) + 1) if ctx.rng.random() < p]
        cases.append(c)
    ws = Worlds(ctx, cases, "rnd")
    gitrep = git_fsck(ctx, ws)
    res = run_gix(ctx, binary, ws)
    events, meta = [], []
    for w, c in enumerate(cases):
        base = {"nblob": c["nblob"], "trees": c["trees"], "commits": c["commits"], "delb": c["delb"], "delt": c["delt"]}
        events.append(dict(base, reported=gitrep[w], errors=0, src="git"))
        meta.append(("git", w, None))
        obs = observed(ws, w, res[w])
        if c["delb"] or c["delt"]:
            ctx.nontrivial(("r", w))
        if "failed" in obs or any(x["k"].startswith("foreign") for x in obs["reported"]):
            ctx.violation({"kind": "random", "case": c, "observed": obs, "classes": classes_of(c, obs),
                           "ids": {"commits": ws.commits[w], "blobs": ws.blobs[w], "trees": ws.trees[w]}})
            continue
        events.append(dict(base, reported=obs["reported"], errors=len(obs["errors"]), src="gix"))
        meta.append(("gix", w, obs))
    rejected = ctx.tlc_trace("history", "Conn_Trace", events)
    for k in rejected:
        if meta[k][0] == "git":
            audit_mismatch(ctx, "Conn!Missing (random)", {"case": cases[meta[k][1]], "git_fsck": events[k]["reported"]})
    for k in rejected:
        _src, w, obs = meta[k]
        ctx.violation({"kind": "trace", "case": cases[w], "observed": obs, "classes": ["trace"] + [x for x in classes_of(cases[w], obs) if x != "other"],
                       "ids": {"commits": ws.commits[w], "blobs": ws.blobs[w], "trees": ws.trees[w]}})
    ctx.cov["random_worlds"] = n
    ctx.cov["git_audited"] += n
    ctx.sample({"random_world": cases[0], "git_fsck": gitrep[0]})


def replay(ctx, rec):
    binary = ctx.build("vh-c54")
    c = rec["case"]
    ws = Worlds(ctx, [c], "replay")
    g = git_fsck(ctx, ws)[0]
    obs = observed(ws, 0, run_gix(ctx, binary, ws)[0])
    ctx.log("gitoxide: %s   git fsck: %s" % (obs, g))
    if "failed" in obs or any(x["k"].startswith("foreign") for x in obs["reported"]):
        ctx.violation(dict(rec, observed=obs))
        return
    base = {"nblob": c["nblob"], "trees": c["trees"], "commits": c["commits"], "delb": c["delb"], "delt": c["delt"]}
    rej = ctx.tlc_trace("history", "Conn_Trace", [dict(base, reported=g, errors=0, src="git"),
                                                  dict(base, reported=obs["reported"], errors=len(obs["errors"]), src="gix")])
    if 0 in rej:
        audit_mismatch(ctx, "Conn!Missing (replay)", {"case": c, "git_fsck": g})
    if 1 in rej:
        ctx.violation(dict(rec, observed=obs))
