"""C30 - Ref advertisements are understood exactly.

spec/proto/Advert.tla: a server = HEAD (symbolic / detached) + refs (direct / symbolic) + annotated tags;
AdvertV0 / AdvertV2 = what git upload-pack says (v0/v1 advertisement with ^{} lines and the symref=
capability; v2 ls-refs with symref-target: / peeled: / unborn and ref-prefix filtering), DecodeV0 / DecodeV2 =
the same read back from the wire bytes, ReadV0 / ReadV2 = the references a client must report.
 A: Advert_Gen enumerates every server with <= MaxRefs refs from a 10-ref alphabet (branch, nested branch,
    lightweight / annotated / nested tag, symbolic ref to branch / to tag / dangling / chained,
    refs/remotes/o/HEAD) x 7 HEAD kinds, with the expected client view for v0/v1 and for v2 under 5 prefix
    sets. Each world is materialised (loose or packed refs), read back with `git for-each-ref`, and gitoxide
    performs the real handshake (+ ls_refs) against `git upload-pack` over the file transport with protocol
    0, 1 and 2; reported refs vs expectation as multisets.
 B: the bytes git upload-pack sent (captured by the driver from the same repository) are decoded by TLC
    (Advert_Trace) and gitoxide's report - live and replayed through an in-memory connection - must be the
    specification's reading of them.
 C: Advert_Audit: the captured wire is what the specification says such a server advertises; `git ls-remote
    --symref` is a second observer of the expectation. Mismatch = tool error.
"""
import concurrent.futures
import os
import subprocess
from vf import *

LEVEL = "exploration"
META = {
    "technique": "TLA+ transcription of git's ref advertisement (v0/v1, v2 ls-refs) as encoder, wire decoder and client reading; TLC enumerates servers with the expected client view; real handshakes of gitoxide against git upload-pack compared; captured wire decoded and judged by TLC; spec audited against the captured wire and git ls-remote",
    "note": "Servers are git-made repositories (sha1) with <= 4 of 10 alphabet refs and 7 HEAD kinds, loose and packed; protocol 0/1/2 over the file transport (which never asks for `version=1`, so a literal `version 1` banner is only replayed and recorded, not judged: documented shortcoming in gix-transport's Capabilities docs). Shallow servers, namespaces and hidden refs are not modelled. SHA-1 is uninterpreted (ids are data from git).",
}

PKT_FLUSH = b"0000"


def pkt(s):
    return b"%04x" % (len(s) + 4) + s


def split_pkts(data):
    """-> list of sections (split at flush): (raw bytes incl. the flush, [payloads]); delimiters are dropped"""
    sections, cur, i, start = [], [], 0, 0
    while i + 4 <= len(data):
        n = int(data[i:i + 4], 16)
        if n == 0:
            i += 4
            sections.append((data[start:i], cur))
            cur = []
            start = i
        elif n < 4:
            i += 4
        else:
            cur.append(data[i + 4:i + n])
            i += n
    if cur:
        sections.append((data[start:], cur))
    return sections


def template(ctx):
    d = os.path.join(ctx.work, "template.git")
    git(["init", "-q", "--bare", d], check=True)
    tree = git(["mktree"], cwd=d, input=b"", check=True).stdout.decode().strip()
    c1 = git(["commit-tree", "-m", "one", tree], cwd=d, check=True).stdout.decode().strip()
    c2 = git(["commit-tree", "-m", "two", "-p", c1, tree], cwd=d, check=True).stdout.decode().strip()

    def mktag(obj, typ, name):
        body = "object %s\ntype %s\ntag %s\ntagger T <t@x> 1000000000 +0000\n\nmsg\n" % (obj, typ, name)
        return git(["mktag"], cwd=d, input=body.encode(), check=True).stdout.decode().strip()
    t1 = mktag(c1, "commit", "t")
    tt = mktag(t1, "tag", "tt")
    ids = {"c1": c1, "c2": c2, "t1": t1, "tt": tt}
    params = os.path.join(ctx.work, "params.json")
    with open(params, "w") as f:
        json.dump({k: b2l(v.encode()) for k, v in ids.items()}, f)
    return d, params, ids


def materialise(ctx, tmpl, case, idx, packed):
    """write the abstract server as a bare repository borrowing the template's objects"""
    d = os.path.join(ctx.work, "srv", "%05d.git" % idx)
    shutil.rmtree(d, ignore_errors=True)
    os.makedirs(os.path.join(d, "objects", "info"))
    os.makedirs(os.path.join(d, "refs", "heads"))
    os.makedirs(os.path.join(d, "refs", "tags"))
    with open(os.path.join(d, "objects", "info", "alternates"), "w") as f:
        f.write(os.path.join(tmpl, "objects") + "\n")
    with open(os.path.join(d, "config"), "w") as f:
        f.write("[core]\n\trepositoryformatversion = 0\n\tbare = true\n")
    srv = case["server"]
    for r in srv["refs"]:
        p = os.path.join(d, l2b(r["name"]).decode())
        os.makedirs(os.path.dirname(p), exist_ok=True)
        with open(p, "wb") as f:
            f.write((b"ref: " if r["k"] == "sym" else b"") + l2b(r["v"]) + b"\n")
    with open(os.path.join(d, "HEAD"), "wb") as f:
        f.write((b"ref: " if srv["head"]["k"] == "sym" else b"") + l2b(srv["head"]["v"]) + b"\n")
    if packed:
        git(["pack-refs", "--all"], cwd=d, check=True)
    # read back with git plumbing: the world must be the abstract one
    out = git(["for-each-ref", "--format=%(refname) %(objectname) %(symref)"], cwd=d, check=True).stdout.decode()
    seen = []
    for line in out.splitlines():
        parts = line.split(" ")
        seen.append({"name": b2l(parts[0].encode()), "oid": b2l(parts[1].encode()),
                     "sym": b2l(parts[2].encode()) if len(parts) > 2 else []})
    if seen != case["foreach"]:
        raise ToolError("materialisation: git for-each-ref shows %s, the model %s" % (seen, case["foreach"]))
    return d


def ls_args(prefixes):
    return [b"symrefs", b"peel", b"unborn"] + [b"ref-prefix " + l2b(p) for p in prefixes]


def ls_request(prefixes):
    return (pkt(b"command=ls-refs\n") + pkt(b"agent=git/vh-c30\n") + b"0001" +
            b"".join(pkt(a + b"\n") for a in ls_args(prefixes)) + PKT_FLUSH)


def capture(path, version, prefix_sets):
    """what git upload-pack says. v0/v1: (raw, [lines]); v2: one session with one ls-refs command per
    prefix set: (raw, [lines per command])"""
    env = dict(os.environ)
    for k in list(env):
        if k.startswith("GIT_"):
            env.pop(k)
    env.update({"GIT_CONFIG_NOSYSTEM": "1", "GIT_CONFIG_GLOBAL": "/dev/null", "GIT_PROTOCOL": "version=%d" % version})
    inp = PKT_FLUSH if version != 2 else b"".join(ls_request(p) for p in prefix_sets) + PKT_FLUSH
    p = subprocess.run(["git", "upload-pack", path], input=inp, env=env, stdout=subprocess.PIPE, stderr=subprocess.PIPE, timeout=300)
    if p.returncode != 0:
        raise ToolError("git upload-pack %s failed: %s" % (path, p.stderr.decode("utf-8", "replace")[-300:]))
    secs = split_pkts(p.stdout)
    if version == 2:
        if len(secs) != 1 + len(prefix_sets):
            raise ToolError("git upload-pack v2 answered %d sections for %d commands" % (len(secs) - 1, len(prefix_sets)))
        return p.stdout, [sec[1] for sec in secs[1:]]
    return p.stdout, [secs[0][1] if secs else []]


def by_name(refs):
    return sorted(refs, key=lambda r: (r["name"], r["k"], r["tag"], r["object"], r["target"]))


def show_ref(r):
    return "%s(%s%s%s%s)" % (r["k"], show_bytes(r["name"]), " -> " + show_bytes(r["target"]) if r["target"] else "",
                              " tag=" + show_bytes(r["tag"])[:8] if r["tag"] else "", " obj=" + show_bytes(r["object"])[:8] if r["object"] else "")


def head_kind(srv, ids):
    h = srv["head"]
    if h["k"] == "oid":
        return "detached-tag" if show_bytes(h["v"]) == ids["t1"] else "detached"
    return "sym:" + show_bytes(h["v"])


def ls_remote_audit(ctx, path, version, exp):
    """second observer: git's own client reading of the same server"""
    out = git(["-c", "protocol.version=%d" % version, "ls-remote", "--symref", "file://" + path], check=True).stdout.decode()
    sym, direct, peeled = {}, {}, {}
    for line in out.splitlines():
        a, b = line.split("\t")
        if a.startswith("ref: "):
            sym[b] = a[5:]
        elif b.endswith("^{}"):
            peeled[b[:-3]] = a
        else:
            direct[b] = a
    for r in exp:
        n = show_bytes(r["name"])
        if r["k"] == "Unborn":
            if n in direct:
                audit_mismatch(ctx, "ls-remote", {"path": path, "ref": n, "why": "spec says unborn, git lists it"})
            continue
        first = show_bytes(r["tag"]) if r["tag"] else show_bytes(r["object"])
        pl = show_bytes(r["object"]) if r["tag"] else None
        if direct.get(n) != first or peeled.get(n) != pl or sym.get(n) != (show_bytes(r["target"]) if r["k"] == "Symbolic" else None):
            audit_mismatch(ctx, "ls-remote", {"path": path, "ref": n, "spec": show_ref(r), "git": [direct.get(n), peeled.get(n), sym.get(n)]})
    extra = set(direct) - {show_bytes(r["name"]) for r in exp}
    if extra:
        audit_mismatch(ctx, "ls-remote", {"path": path, "git lists refs the spec does not": sorted(extra)})


def check_worlds(ctx, binary, tmpl, ids, cases, packed_of, n_lsremote, n_banner):
    with concurrent.futures.ThreadPoolExecutor(6) as ex:
        paths = list(ex.map(lambda ic: materialise(ctx, tmpl, ic[1], ic[0], packed_of(ic[0])), enumerate(cases)))
    ctx.log("materialised %d servers (read back with git for-each-ref)" % len(paths))
    # sessions: (case index, version); a v2 session asks once per prefix set on the same connection
    jobs = []
    for ci, c in enumerate(cases):
        jobs += [(ci, 0), (ci, 2)]
        if ci % max(1, len(cases) // max(1, n_banner)) == 0:
            jobs.append((ci, 1))      # literal `version 1` banner, replayed only
    psets = lambda ci: [v["prefixes"] for v in cases[ci]["v2"]]
    with concurrent.futures.ThreadPoolExecutor(6) as ex:
        caps = list(ex.map(lambda j: capture(paths[j[0]], j[1], psets(j[0])), jobs))
    capof = {j: c for j, c in zip(jobs, caps)}
    runs = []    # (kind, case index, version asked of gitoxide, wire lines per conversation, expected per conversation, harness case)
    for ci, c in enumerate(cases):
        exp2 = [v["exp"] for v in c["v2"]]
        raw0, lines0 = capof[(ci, 0)]
        raw2, lines2 = capof[(ci, 2)]
        for v in (0, 1):
            # the file transport never asks for `version=1`: git answers the v1 request in the v0 format
            runs.append(("live", ci, v, lines0, [c["exp_v0"]], {"op": "live", "path": paths[ci], "version": v, "prefix_sets": []}))
        runs.append(("live", ci, 2, lines2, exp2, {"op": "live", "path": paths[ci], "version": 2, "prefix_sets": psets(ci)}))
        runs.append(("replay", ci, 0, lines0, [c["exp_v0"]], {"op": "replay", "wire": b2l(raw0), "version": 0, "prefix_sets": []}))
        runs.append(("replay", ci, 2, lines2, exp2, {"op": "replay", "wire": b2l(raw2), "version": 2, "prefix_sets": psets(ci)}))
        if (ci, 1) in capof:
            raw1, lines1 = capof[(ci, 1)]
            runs.append(("banner", ci, 1, lines1, [c["exp_v0"]], {"op": "replay", "wire": b2l(raw1), "version": 1, "prefix_sets": []}))
    results = ctx.harness(binary, [r[5] for r in runs], timeout=3000)
    ctx.log("%d sessions of gitoxide with git upload-pack (live) or its captured bytes (replay)" % len(runs))

    events, owner = [], []
    banner = {"ok": 0, "failed": 0}
    for (kind, ci, v, lines, exps, hc), r in zip(runs, results):
        c = cases[ci]
        srv = c["server"]
        rec = {"kind": kind, "case": {"server": srv, "version": v, "packed": packed_of(ci)},
               "head": head_kind(srv, ids), "version": v, "server_text": describe(srv)}
        if "got" not in r:
            ctx.violation(dict(rec, classes=["crash"], what="handshake panicked/hung", result=r))
            continue
        g = r["got"]
        if kind == "banner":
            # documented shortcoming (gix_transport::client::Capabilities docs) - recorded only
            banner["ok" if g["ok"] and g["convs"] and by_name(g["convs"][0]["refs"]) == by_name(exps[0]) else "failed"] += 1
            continue
        convs = g["convs"] if g["ok"] else []
        for k, exp in enumerate(exps):
            pf = psets(ci)[k] if v == 2 else []
            cv = convs[k] if k < len(convs) else {"ok": False, "err": g["err"] or "earlier ls-refs command failed", "refs": [], "ls_args": []}
            rec2 = dict(rec, prefixes=[show_bytes(p) for p in pf])
            if v == 2 and cv["ok"] and cv["ls_args"] != [b2l(a) for a in ls_args(pf)]:
                raise ToolError("gitoxide sent ls-refs arguments %s, the capture used %s" % (cv["ls_args"], ls_args(pf)))
            # binding A: the specification's expectation, computed by TLC from the abstract server
            if not cv["ok"] or by_name(cv["refs"]) != by_name(exp):
                ctx.violation(dict(rec2, classes=["v%d" % v, "error" if not cv["ok"] else "refs-differ"], err=cv["err"],
                                   expected=[show_ref(x) for x in by_name(exp)], reported=[show_ref(x) for x in by_name(cv["refs"])],
                                   what="refs reported by gitoxide differ from the specification's expectation for this server"))
            events.append({"version": v, "server": srv, "prefixes": pf, "unborn": True,
                           "wire": [b2l(x) for x in lines[k]], "ok": cv["ok"], "reported": cv["refs"]})
            owner.append(rec2)
            if pf or any(x["k"] != "Direct" for x in exp):
                ctx.nontrivial(json.dumps([srv["head"], srv["refs"], v, pf, packed_of(ci)], sort_keys=True))
    ctx.cov["v1_banner_replays"] = banner

    # binding C first: the wire must be what the specification says the server advertises
    # (one event per captured wire: live and replayed conversations saw the same bytes)
    seen_w, audit_ev = set(), []
    for e in events:
        key = json.dumps([e["server"], e["version"] == 2, e["prefixes"], e["wire"]])
        if key not in seen_w:
            seen_w.add(key)
            audit_ev.append(e)
    bad = ctx.tlc_trace("proto", "Advert_Trace", audit_ev, cfg="Advert_Audit.cfg")
    if bad:
        e = audit_ev[bad[0]]
        audit_mismatch(ctx, "Advert (wire vs model)", {"server": describe(e["server"]), "version": e["version"],
                                                       "prefixes": [show_bytes(p) for p in e["prefixes"]],
                                                       "wire": [show_bytes(w) for w in e["wire"]][:12]})
    # binding B: gitoxide's report is the specification's reading of the bytes git sent
    for bi in ctx.tlc_trace("proto", "Advert_Trace", events):
        rec = owner[bi]
        e = events[bi]
        ctx.violation(dict(rec, classes=["v%d" % e["version"], "trace"], reported=[show_ref(x) for x in by_name(e["reported"])],
                           wire=[show_bytes(w) for w in e["wire"]][:12],
                           what="gitoxide's report is not the specification's reading of the advertisement git sent"))
    # second observer
    step = max(1, len(cases) // max(1, n_lsremote))
    n = 0
    for ci in range(0, len(cases), step):
        ls_remote_audit(ctx, paths[ci], 0, cases[ci]["exp_v0"])
        ls_remote_audit(ctx, paths[ci], 2, cases[ci]["v2"][0]["exp"])
        n += 2
    ctx.cov["git_ls_remote_audited"] = ctx.cov.get("git_ls_remote_audited", 0) + n
    ctx.cov["wire_audited_conversations"] = ctx.cov.get("wire_audited_conversations", 0) + len(audit_ev)
    classes = {}
    for v in ctx.violations:
        k = "%s head=%s %s" % ("/".join(v.get("classes", [])), v.get("head"), (v.get("err") or "")[:80])
        classes[k] = classes.get(k, 0) + 1
    ctx.cov["violation_classes"] = classes
    if classes:
        ctx.log("violation classes: %s" % json.dumps(classes, sort_keys=True))
    return paths


def describe(srv):
    return {"HEAD": ("ref: " if srv["head"]["k"] == "sym" else "") + show_bytes(srv["head"]["v"]),
            "refs": {show_bytes(r["name"]): ("ref: " if r["k"] == "sym" else "") + show_bytes(r["v"]) for r in srv["refs"]}}


def run(ctx):
    binary = ctx.build("vh-c30")
    tmpl, params, ids = template(ctx)
    maxrefs = 4 if ctx.thorough else 2
    cases = ctx.tlc_gen("proto", "Advert_Gen", consts={"MaxRefs": maxrefs}, env={"PARAMS": params}, workers=6)
    cases.sort(key=lambda c: json.dumps(c["server"], sort_keys=True))
    full = 2 if ctx.thorough else 1          # executed exhaustively up to this many refs, sampled above
    small = [c for c in cases if len(c["server"]["refs"]) <= full]
    big = [c for c in cases if len(c["server"]["refs"]) > full]
    ctx.rng.shuffle(big)
    chosen = small + big[: (500 if ctx.thorough else 14)]
    ctx.cov["exhaustive"] = True
    ctx.cov["servers_enumerated"] = len(cases)
    ctx.cov["servers_executed"] = len(chosen)
    # every third world has its refs packed (peeled ids then come from packed-refs)
    check_worlds(ctx, binary, tmpl, ids, chosen, lambda i: i % 3 == 2, 6 if not ctx.thorough else 60, 5 if not ctx.thorough else 40)
    mid = chosen[len(chosen) // 2]
    ctx.sample({"server": describe(mid["server"]), "expected_v0": [show_ref(r) for r in mid["exp_v0"]],
                "expected_v2": [show_ref(r) for r in mid["v2"][0]["exp"]]})
    ctx.cov["rule"] = ("A: every server of Advert_Gen with <= %d of 10 alphabet refs x 7 HEAD kinds enumerated by TLC; executed: all with <= %d refs "
                       "plus a seeded sample of the larger ones; each in 7 conversations (v0, v1, v2 x 5 prefix sets), live and replayed. "
                       "Non-trivial = the expected view contains a peeled, symbolic or unborn ref, or prefixes were sent; distinct by (server, version, prefixes, packed)."
                       % (maxrefs, full))
    ctx.assumptions += ["git 2.39.5 upload-pack is the server; its bytes are audited against the specification on every run",
                        "a literal `version 1` banner is outside the judged domain (documented shortcoming of gix-transport)",
                        "no shallow grafts, namespaces or hidden refs on the server"]


def replay(ctx, rec):
    binary = ctx.build("vh-c30")
    tmpl, params, ids = template(ctx)
    c = rec["case"]
    cases = [x for x in ctx.tlc_gen("proto", "Advert_Gen", consts={"MaxRefs": len(c["server"]["refs"])}, env={"PARAMS": params}, workers=6)
             if describe(x["server"]) == describe(c["server"])]
    if not cases:
        raise ToolError("replay: server not in the generator's space")
    check_worlds(ctx, binary, tmpl, ids, cases, lambda i: bool(c.get("packed")), 1, 1)
