"""C26 - Config files round-trip losslessly.

spec/config/ConfigFormat.tla transcribes git's config reader (git_parse_source, get_next_char,
get_base_var, get_extended_base_var, get_value, parse_value) over byte sequences and gives a canonical
writer with the model-level law Abstract(Render(L)) = L (checked by TLC on every listing of the run).
 A: ConfigFormat_Gen enumerates texts over two token alphabets (value tokens behind `[a]<lf>k=`;
    structure tokens: BOM, plain / legacy / quoted / escaped headers, keys, `=`, comments, blanks,
    LF / CRLF) with the spec's verdict and listing. The real parser must reproduce every text it
    accepts byte for byte from its events (parse::Events -> Event::write_to); a loaded File,
    serialised with to_bstring, must parse again.
 B: what the real code wrote (event concatenation, File::to_bstring) is judged by TLC
    (ConfigFormat_Trace): concat = input, and for git-valid inputs the serialised text is git-valid
    with the same sections, keys and values - on the enumerated texts whose serialisation differs
    from the input, and on seeded random mutations of real-world-shaped config files.
 C: `git config -f F --list -z` accepts exactly the spec-valid texts and lists exactly the spec's
    entries (mismatch = tool error).
"""
import concurrent.futures
from vf import *

LEVEL = "exploration"
META = {
    "technique": "TLA+ transcription of git's config reader as oracle; token-alphabet enumeration by TLC replayed through gix_config::parse::Events / File; outputs of the real writer judged by a TLC trace spec; spec audited against git config --list -z",
    "note": "Byte round-trip is judged on every text gitoxide parses; the same-sections-and-values statement on every text git accepts. Trusted: TLC, the installed git as reference of the transcription.",
}

BOM = b"\xef\xbb\xbf"

BASES = [
    b"[core]\n\trepositoryformatversion = 0\n\tfilemode = true\n\tbare = false\n\tlogallrefupdates = true\n"
    b"[remote \"origin\"]\n\turl = https://example.com/a/b.git\n\tfetch = +refs/heads/*:refs/remotes/origin/*\n"
    b"[branch \"main\"]\n\tremote = origin\n\tmerge = refs/heads/main\n",
    b"# global\n[user]\n  name = A U Thor ; the author\n  email = \"a@example.com\"\n[alias]\n  l = log \\\n     --oneline \\\n     --graph\n  st = \"status -sb\"\n"
    b"[core]\n  autocrlf\n  pager = \"less -R\" # pager\n\n[includeIf \"gitdir:~/work/\"]\n  path = ~/.gitconfig-work\n",
    b"[core]\r\n\teditor = \"C:\\\\Program Files\\\\vim.exe\"\r\n\tsymlinks = false\r\n[Remote.Up]\r\n\tURL = x\r\n[url \"ssh://git@host/\"]\r\n\tinsteadOf = \"gh:\"\r\n",
    BOM + b"[section]\n\tkey = value with \\\"quotes\\\" and \\ttab\n\tflag\n\tempty =\n; trailing comment",
    b"[a]k=v\n[a \"x\\\\y\\\"z\"] k = 1k\n\t  k2 = \"a;b#c\" ;c\n[a.b]\n\tk = a\\nb\n",
]
MUT = [b"a", b"k", b" ", b"\t", b"\"", b"\\\"", b"\\\\", b"\\n", b"\\t", b"\\b", b"\\\n", b"\\\r\n", b";", b"#", b"\n", b"\r\n",
       b"=", b"[", b"]", b".", b"[a]", b"[a \"b\"]", b"[a.B]", b"[a \"x\\y\"]", BOM, b"\\", b"-", b"1", b"\xc3\xa9", b"\r"]


def mutate(rng, base):
    s = bytearray(base)
    for _ in range(rng.randint(1, 4)):
        op = rng.randrange(3)
        pos = rng.randint(0, len(s))
        if op == 0:
            s[pos:pos] = rng.choice(MUT)
        elif op == 1 and len(s) > 1:
            del s[pos:pos + rng.randint(1, 3)]
        else:
            s[pos:pos + 1] = rng.choice(MUT)
    return bytes(s)


def classes_of(inp, got):
    """stable labels of a byte mismatch (for known-finding matchers); not a verdict"""
    cl = []
    b, c = bytes(inp), bytes(got)
    if b.startswith(BOM) and not c.startswith(BOM):
        cl.append("bom-dropped")
        b = b[3:]
    if b != c:
        cl.append("subsection-escape-dropped" if len(c) < len(b) and b.replace(b"\\", b"") == c.replace(b"\\", b"") else "bytes-differ")
    return cl


def expected_git_output(c):
    out = b""
    for e in c["list"]:
        out += bytes(e["name"]) + ((b"\n" + bytes(e["val"])) if e["hasval"] else b"") + b"\0"
    return out


def audit(ctx, cases, tag):
    """binding C: git accepts exactly the spec-valid texts and lists the spec's entries"""
    d = os.path.join(ctx.work, "audit-" + tag)
    os.makedirs(d, exist_ok=True)

    def one(ic):
        i, c = ic
        if 0 in c["input"]:
            return None
        p = os.path.join(d, "%d.cfg" % i)
        with open(p, "wb") as f:
            f.write(bytes(c["input"]))
        r = git(["config", "-f", p, "--list", "-z"])
        os.remove(p)
        return (c, r.returncode == 0, r.stdout)
    n = 0
    with concurrent.futures.ThreadPoolExecutor(12) as ex:
        for r in ex.map(one, enumerate(cases)):
            if r is None:
                continue
            c, ok, out = r
            n += 1
            if ok != c["valid"] or (ok and out != expected_git_output(c)):
                audit_mismatch(ctx, "ConfigFormat", {"input": show_bytes(c["input"]), "bytes": c["input"], "git_ok": ok,
                                                      "git_out": out.decode("latin1"), "spec_valid": c["valid"],
                                                      "spec_out": expected_git_output(c).decode("latin1")})
    ctx.log("audit(%s): git config --list -z agreed with the specification on %d texts" % (tag, n))
    ctx.cov["git_audited"] = ctx.cov.get("git_audited", 0) + n


def event_of(c, g):
    """skip_concat: the byte mismatch of this text was already reported (with its class) by judge_direct;
    TLC then judges only the remaining statement about sections and values."""
    return {"input": c["input"], "parse_ok": bool(g.get("parse_ok")), "concat": g.get("concat", []),
            "skip_concat": bool(g.get("parse_ok")) and g.get("concat") != c["input"],
            "file_ok": bool(g.get("file_ok")), "ser": g.get("ser", [])}


def judge_direct(ctx, c, r, kind):
    """what needs no oracle beyond identity: crash, byte round trip, re-parse of the written file.
    Returns the violation records (not yet reported)."""
    out = []
    if "got" not in r:
        return [{"kind": kind, "what": "crash", "classes": ["crash"], "case": {"input": c["input"]},
                 "input_text": show_bytes(c["input"]), "result": r}]
    g = r["got"]
    if g.get("parse_ok") and g["concat"] != c["input"]:
        out.append({"kind": kind, "what": "events do not reproduce the input", "classes": classes_of(c["input"], g["concat"]),
                    "case": {"input": c["input"]}, "input_text": show_bytes(c["input"]), "written_text": show_bytes(g["concat"])})
    if g.get("file_ok"):
        if not g.get("reparse_ok"):
            out.append({"kind": kind, "what": "to_bstring output does not parse", "classes": ["reparse"],
                        "case": {"input": c["input"]}, "input_text": show_bytes(c["input"]), "written_text": show_bytes(g["ser"])})
        elif g["listing2"] != g["listing"]:
            out.append({"kind": kind, "what": "File -> to_bstring -> File changes sections/values", "classes": ["listing-changed"],
                        "case": {"input": c["input"]}, "input_text": show_bytes(c["input"]), "written_text": show_bytes(g["ser"]),
                        "before": g["listing"], "after": g["listing2"]})
    return out


def run(ctx):
    binary = ctx.build("vh-c26")
    n = 5 if ctx.thorough else 4
    plan = [("value", 4, "FALSE"), ("struct", 4, "FALSE")]
    if ctx.thorough:
        plan = [("value", 5, "FALSE"), ("value", 3, "TRUE"), ("struct", 4, "FALSE"), ("struct", 3, "TRUE")]
    cases, seen = [], set()
    for mode, mt, wide in plan:
        for c in ctx.tlc_gen("config", "ConfigFormat_Gen", consts={"MaxToks": mt, "Mode": '"%s"' % mode, "Wide": wide}, workers=6):
            k = bytes(c["input"])
            if k not in seen:
                seen.add(k)
                cases.append(c)
    ctx.cov["exhaustive"] = True
    results = ctx.harness(binary, cases)
    events, owner = [], []
    nvalid = naccepted = 0
    for ci, (c, r) in enumerate(zip(cases, results)):
        for v in judge_direct(ctx, c, r, "gen"):
            ctx.violation(v)
        if "got" not in r:
            continue
        g = r["got"]
        nvalid += c["valid"]
        naccepted += bool(g.get("parse_ok"))
        if g.get("parse_ok") and (len(c["list"]) > 0 or not c["valid"]):
            ctx.nontrivial(bytes(c["input"]))
        # the statement about sections and values needs the oracle only when the writer changed the text
        if g.get("file_ok") and c["valid"] and g["ser"] != c["input"]:
            events.append(event_of(c, g))
            owner.append(ci)
    ctx.cov["spec_valid"] = nvalid
    ctx.cov["gix_accepted"] = naccepted
    ctx.cov["writer_changed_text"] = len(events)
    step = max(1, len(cases) // 400)
    for ci in range(0, len(cases), step):       # plus a sample of the unchanged ones
        if "got" in results[ci]:
            events.append(event_of(cases[ci], results[ci]["got"]))
            owner.append(ci)
    for bi in ctx.tlc_trace("config", "ConfigFormat_Trace", events):
        c = cases[owner[bi]]
        g = results[owner[bi]]["got"]
        ctx.violation({"kind": "gen-trace", "what": "serialised file is not git-valid with the same sections/values (or events differ)",
                       "classes": ["abstract-changed"], "case": {"input": c["input"]}, "input_text": show_bytes(c["input"]),
                       "written_text": show_bytes(g.get("ser", [])), "spec": c})
    mid = cases[len(cases) // 2]
    ctx.sample({"input": show_bytes(mid["input"]), "spec_valid": mid["valid"], "spec_listing": [show_bytes(e["name"]) for e in mid["list"]]})

    # binding C
    lim = 1200 if not ctx.thorough else 8000
    sub = cases if len(cases) <= lim else [cases[i] for i in sorted(ctx.rng.sample(range(len(cases)), lim))]
    audit(ctx, sub, "gen")

    # binding B on mutated real-world-shaped files
    nr = 600 if not ctx.thorough else 4000
    rnd = [{"input": b2l(b)} for b in BASES]
    while len(rnd) < nr:
        b = mutate(ctx.rng, ctx.rng.choice(BASES))
        if b"\0" not in b:
            rnd.append({"input": b2l(b)})
    res = ctx.harness(binary, rnd)
    evs, own = [], []
    for i, (c, r) in enumerate(zip(rnd, res)):
        for v in judge_direct(ctx, c, r, "random"):
            ctx.violation(v)
        if "got" in r:
            evs.append(event_of(c, r["got"]))
            own.append(i)
            if r["got"].get("parse_ok"):
                ctx.nontrivial(bytes(c["input"]))
    for bi in ctx.tlc_trace("config", "ConfigFormat_Trace", evs):
        c, g = rnd[own[bi]], res[own[bi]]["got"]
        ctx.violation({"kind": "random-trace", "what": "serialised file is not git-valid with the same sections/values",
                       "classes": ["abstract-changed"], "case": {"input": c["input"]}, "input_text": show_bytes(c["input"]),
                       "written_text": show_bytes(g.get("ser", []))})
    # the spec's own reading of (a part of) the random texts, audited against git
    na = 300 if not ctx.thorough else 3000
    ev_cases = ctx.tlc_gen("config", "ConfigFormat_Trace", cfg="ConfigFormat_Eval.cfg", workers=1,
                           env={"TRACE": write_nd(ctx, [{"input": c["input"]} for c in rnd[:na]])})
    audit(ctx, ev_cases, "random")
    hist = {}
    for v in ctx.violations:
        k = v["kind"] + ":" + "+".join(v["classes"])
        hist[k] = hist.get(k, 0) + 1
    ctx.cov["violation_classes"] = hist
    ctx.cov["rule"] = ("A: every text of ConfigFormat_Gen for (mode, tokens, wide alphabet) in %s (exhaustive); "
                       "B: %d seeded mutations of 5 real-world-shaped files. Non-trivial = gitoxide parses the "
                       "text and it has at least one entry or is not git-valid; distinct by input bytes." % (plan, nr))
    ctx.assumptions += ["git 2.39.5 `config --list -z` is the reference for the transcription (audited on every run)",
                        "texts contain no NUL byte"]


def write_nd(ctx, objs):
    p = os.path.join(ctx.work, "eval-%d.ndjson" % len(os.listdir(ctx.work)))
    with open(p, "w") as f:
        for o in objs:
            f.write(json.dumps(o, separators=(",", ":")) + "\n")
    return p


def replay(ctx, rec):
    binary = ctx.build("vh-c26")
    c = {"input": rec["case"]["input"]}
    r = ctx.harness(binary, [c])[0]
    vs = judge_direct(ctx, c, r, rec.get("kind", "replay"))
    for v in vs:
        ctx.violation(v)
    if "got" in r and not vs:
        if ctx.tlc_trace("config", "ConfigFormat_Trace", [event_of(c, r["got"])]):
            ctx.violation(dict(rec, what="replayed: rejected by ConfigFormat_Trace"))
