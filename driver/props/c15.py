"""C15 - Reference names are validated like git; sanitising always yields a valid name.

spec/ref/RefName.tla transcribes git's check_refname_format.
 A: RefName_Gen enumerates every token string (<= MaxToks tokens) with the spec's verdicts; replayed
    through gix_validate::reference::{name, name_partial, name_partial_or_sanitize}, tag::name,
    gix_ref::{FullName, PartialName}. The same TLC run checks the design-level sanitiser contract.
 B: seeded random byte strings; the recorded verdicts and sanitised outputs are judged by TLC
    (RefName_Trace) as reference interpreter.
 C: git check-ref-format [--allow-onelevel] audits the transcription (mismatch = tool error).
"""
import concurrent.futures
from vf import *

LEVEL = "exploration"
ALPHABET = [b"a", b"A", b".", b"/", b"@", b"{", b"*", b"~", b"\x01", b"-", b"_", b"\xc3\xa9", b".lock", b":", b" ",
            b"\x7f", b"\\", b"[", b"?", b"^", b"\x00", b"\xff", b"lock", b"HEAD", b"refs/", b"heads", b"..", b"@{", b"//"]


def judge(ctx, case, res):
    """compare one executor result with the specification's verdicts (fields of `case`)"""
    bad = []
    if "panic" in res or "hang" in res or "abort" in res:
        return ["validator crashed: %s" % json.dumps(res)[:200]]
    g = res["got"]
    if g["partial"] != case["partial"]:
        bad.append("name_partial accepts=%s, git check-ref-format --allow-onelevel accepts=%s" % (g["partial"], case["partial"]))
    if g["partialname"] != case["partial"]:
        bad.append("PartialName accepts=%s, spec=%s" % (g["partialname"], case["partial"]))
    if g["tag"] != case["tag"]:
        bad.append("tag::name accepts=%s, spec=%s" % (g["tag"], case["tag"]))
    if case["fulldom"]:
        if g["full"] != case["full"]:
            bad.append("reference::name accepts=%s, spec=%s" % (g["full"], case["full"]))
        if g["fullname"] != case["full"]:
            bad.append("FullName accepts=%s, spec=%s" % (g["fullname"], case["full"]))
    if "sanitize_panic" in g:
        bad.append("sanitiser panicked: " + g["sanitize_panic"])
    elif not g["sanitized_ok"]:
        bad.append("sanitised output rejected by name_partial: %r" % show_bytes(g["sanitized"]))
    return bad


def classify(bad):
    """stable class of a mismatch, used by known-finding matchers"""
    return sorted({b.split(":")[0].split(" accepts")[0] for b in bad})


def audit(ctx, cases):
    """binding C: every spec verdict on an observable input must be git's."""
    def one(c):
        s = l2b(c["input"])
        if not s or b"\x00" in s or s.startswith(b"-"):
            return None  # not observable through the command line
        a = git(["check-ref-format", "--allow-onelevel", s]).returncode == 0
        b = git(["check-ref-format", s]).returncode == 0
        return (c, a, b)
    n = 0
    with concurrent.futures.ThreadPoolExecutor(16) as ex:
        for r in ex.map(one, cases):
            if r is None:
                continue
            c, a, b = r
            n += 1
            if a != c["partial"] or b != c["gitfull"]:
                audit_mismatch(ctx, "RefName", {"input": c["input"], "git_onelevel": a, "git_full": b, "spec": c})
    ctx.log("audit: git check-ref-format agreed with the specification on %d names" % n)
    ctx.cov["git_audited"] = n


def run(ctx):
    binary = ctx.build("vh-c15")
    consts = {"MaxToks": 4, "Wide": "FALSE"} if not ctx.thorough else {"MaxToks": 4, "Wide": "TRUE"}
    cases = ctx.tlc_gen("ref", "RefName_Gen", consts=consts)
    ctx.cov["exhaustive"] = True
    results = ctx.harness(binary, cases)
    for c, r in zip(cases, results):
        bad = judge(ctx, c, r)
        # non-trivial: at least one of the special rules fires (rejected by the spec, or sanitiser changed it)
        if not c["partial"] or ("got" in r and r["got"].get("sanitized") != c["input"]):
            ctx.nontrivial(bytes(c["input"]))
        if bad:
            ctx.violation({"kind": "gen", "case": c, "input_text": show_bytes(c["input"]), "mismatch": bad,
                           "classes": classify(bad), "result": r})
    ctx.sample({"input": show_bytes(cases[len(cases) // 2]["input"]), "spec": cases[len(cases) // 2]})

    # binding C on the small end of the space
    small = [c for c in cases if len(c["input"]) <= (3 if not ctx.thorough else 4)]
    audit(ctx, small[: 3000 if not ctx.thorough else 20000])

    # binding B: random strings
    n = 3000 if not ctx.thorough else 40000
    rnd = []
    for _ in range(n):
        k = ctx.rng.randint(0, 9)
        s = b"".join(ctx.rng.choice(ALPHABET) for _ in range(k))
        if ctx.rng.random() < 0.2:
            s += bytes(ctx.rng.randrange(256) for _ in range(ctx.rng.randint(1, 4)))
        rnd.append({"input": b2l(s)})
    res = ctx.harness(binary, rnd)
    # TLC judges what the implementation said, for the random strings and (again, now including
    # the sanitised output, which the spec must find valid) for the enumerated ones
    events = []
    for c, r in list(zip(rnd, res)) + list(zip(cases, results)):
        if "got" not in r or "sanitize_panic" in r["got"]:
            if c in rnd:
                why = "sanitiser panicked" if "got" in r else "validator crashed"
                ctx.violation({"kind": "random", "case": c, "input_text": show_bytes(c["input"]),
                               "mismatch": [why], "classes": [why], "result": r})
            continue
        g = r["got"]
        events.append({"input": c["input"], "partial": g["partial"], "full": g["full"], "tag": g["tag"],
                       "sanitized": g["sanitized"]})
    for badi in ctx.tlc_trace("ref", "RefName_Trace", events):
        ev = events[badi]
        ctx.violation({"kind": "trace", "case": {"input": ev["input"]}, "input_text": show_bytes(ev["input"]),
                       "mismatch": ["event rejected by RefName_Trace"], "classes": ["trace"], "event": ev})
    for e in events:
        if e["sanitized"] != e["input"]:
            ctx.nontrivial(bytes(e["input"]))
    ctx.cov["rule"] = ("A: all strings of <= %s tokens over the %s token alphabet of RefName_Gen (exhaustive); B: seeded random "
                       "strings over a 29-token alphabet + raw bytes. Non-trivial = the spec rejects the name or the "
                       "sanitiser has to change it; distinct by input bytes." % (consts["MaxToks"], "wide" if ctx.thorough else "quick"))
    ctx.assumptions += ["git 2.39.5 check-ref-format is the reference for the transcription (audited on every run)",
                        "one-level names containing '-' are outside the judged domain of the complete-name rule"]


def replay(ctx, rec):
    binary = ctx.build("vh-c15")
    c = rec["case"]
    if "partial" not in c:
        cases = [x for x in ctx.tlc_gen("ref", "RefName_Gen", consts={"MaxToks": 4, "Wide": "TRUE"}) if x["input"] == c["input"]]
        if not cases:
            res = ctx.harness(binary, [c])
            ev = res[0].get("got")
            if ev is None or "sanitize_panic" in ev:
                ctx.violation(dict(rec, result=res[0]))
                return
            e = {"input": c["input"], "partial": ev["partial"], "full": ev["full"], "tag": ev["tag"], "sanitized": ev["sanitized"]}
            if ctx.tlc_trace("ref", "RefName_Trace", [e]) is not None:
                ctx.violation(dict(rec, event=e))
            return
        c = cases[0]
    r = ctx.harness(binary, [c])[0]
    bad = judge(ctx, c, r)
    if bad:
        ctx.violation({"kind": "gen", "case": c, "input_text": show_bytes(c["input"]), "mismatch": bad, "classes": classify(bad), "result": r})
