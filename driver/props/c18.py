"""C18 - Reference lookup and iteration match git.

spec/ref/RefIter.tla: loose files and packed records as sets of (name, value); Iterate = every name
once, ascending byte order of full names, loose value wins; Merge = the two-stream merge the
implementation performs (model-checked equal to Iterate on every placement; the self-test switch
Bug_DirOrder, a loose stream in per-directory file-name order, violates it); Find = git's
ref_rev_parse_rules candidate list for short names.
 A: RefIter_Gen enumerates every placement of a name universe rich in bytes below '/' next to a
    directory boundary (a, a-b, a.b, a/b, a0, a/b/c, tags/a) into loose / packed / both (stale packed
    value); each is materialised as real files; Store::iter().all(), prefixed(refs, refs/heads,
    refs/tags) and try_find(short) must equal the specification exactly.
 C: for a sample git for-each-ref and git rev-parse --symbolic-full-name audit the specification
    (mismatch = tool error).
"""
from vf import *
import refstore as rs

LEVEL = "model_checking"
META = {
    "technique": "TLA+ specification of iteration/merge/lookup model-checked by TLC (merge = sorted union, bug-switch self-test); all TLC-enumerated stores materialised and read through gix-ref; git for-each-ref / rev-parse audit",
    "note": "Prefix iteration is judged for directory prefixes that exist as such (refs, refs/heads, refs/tags); name universes are UTF-8. Trusted: TLC, git 2.39.5 as reference for the transcription.",
}


def norm(items):
    return [(bytes(i["name"]), i["val"]) if "name" in i else ("error", i.get("error")) for i in items]


def judge(c, g):
    bad = []
    if norm(g["all"]) != norm(c["all"]):
        bad.append("iter().all(): got %s want %s" % ([n.decode() if isinstance(n, bytes) else n for n, _ in norm(g["all"])],
                                                     [n.decode() for n, _ in norm(c["all"])]))
    want_p = {bytes(p["prefix"]): norm(p["items"]) for p in c["prefixed"]}
    for p in g["prefixed"]:
        if norm(p["items"]) != want_p[bytes(p["prefix"])]:
            bad.append("prefixed(%s): got %s want %s" % (bytes(p["prefix"]).decode(), norm(p["items"]), want_p[bytes(p["prefix"])]))
    want_f = {bytes(f["short"]): f["hit"] for f in c["find"]}
    for f in g["find"]:
        w = want_f[bytes(f["short"])]
        h = f["hit"]
        if "error" in h or bytes(h["name"]) != bytes(w["name"]) or h["val"] != w["val"]:
            bad.append("try_find(%s): got %s want %s" % (bytes(f["short"]).decode(), h, w))
    return bad


def audit(ctx, c, g):
    if g["git_all"] is None:
        return 0
    if norm(g["git_all"]) != norm(c["all"]):
        audit_mismatch(ctx, "RefIter.Iterate vs git for-each-ref", {"git": str(norm(g["git_all"])), "spec": str(norm(c["all"]))})
    want_f = {bytes(f["short"]): f["hit"] for f in c["find"]}
    for f in g["git_find"]:
        w = want_f[bytes(f["short"])]
        h = f["hit"]
        if not h["name"] and h["val"] != "none":
            h = dict(h, name=w["name"])  # ambiguous short name: git resolves it but does not print the full name
        if bytes(h["name"]) != bytes(w["name"]) or h["val"] != w["val"]:
            audit_mismatch(ctx, "RefIter.Find vs git rev-parse", {"short": bytes(f["short"]).decode(), "git": str(h), "spec": str(w)})
    return 1


def run(ctx):
    binary = ctx.build("vh-c18")
    env = rs.template(ctx)
    ctx.tlc_mc("ref", "RefIter_Gen", consts={"Bug_DirOrder": "TRUE"}, expect_violation="InvMerge", coverage=False)
    cases = ctx.tlc_gen("ref", "RefIter_Gen", consts={"Wide": "TRUE" if ctx.thorough else "FALSE"}, timeout=3000)
    cases.sort(key=lambda c: json.dumps(c, sort_keys=True))
    every = 10 if not ctx.thorough else 3
    for i, c in enumerate(cases):
        c["git"] = (i % every == 0)
    results = ctx.harness(binary, cases, env=env, timeout=3000)
    audited = 0
    for c, r in zip(cases, results):
        if "got" not in r:
            ctx.violation({"kind": "crash", "case": c, "result": r, "mismatch": ["crashed"], "classes": ["crash"]})
            continue
        audited += audit(ctx, c, r["got"])
        bad = judge(c, r["got"])
        names = [bytes(e["name"]) for e in c["all"]]
        # non-trivial: a name with a byte below '/' sits next to a directory of the same stem, or a stale packed value is shadowed
        if any(n + b"/" == m[:len(n) + 1] or (n[:-2] + b"/") in m for n in names for m in names if n != m) or \
           any(e["val"] == "o2" for e in c["packed"]):
            ctx.nontrivial(json.dumps([c["loose"], c["packed"]], sort_keys=True))
        if bad:
            ctx.violation({"kind": "store", "case": c, "mismatch": bad, "classes": sorted({b.split("(")[0].split(":")[0] for b in bad}),
                           "loose_names": sorted(bytes(e["name"]).decode() for e in c["loose"])})
    ctx.cov["exhaustive"] = True
    ctx.cov["git_audited"] = audited
    mid = cases[len(cases) // 2]
    ctx.sample({"loose": [bytes(e["name"]).decode() for e in mid["loose"]], "packed": [bytes(e["name"]).decode() + "=" + e["val"] for e in mid["packed"]],
                "expected_order": [bytes(e["name"]).decode() for e in mid["all"]]})
    ctx.cov["rule"] = ("TLC enumerates every placement (absent/loose/packed/both-with-stale-packed) of the %d-name universe without loose "
                       "directory/file conflicts; per store: full iteration, 3 prefix iterations, 9 short-name lookups. Non-trivial = a byte "
                       "below '/' meets a directory boundary or a stale packed value is shadowed; distinct by (loose, packed)." % (10 if ctx.thorough else 8))


def replay(ctx, rec):
    binary = ctx.build("vh-c18")
    env = rs.template(ctx)
    c = rec["case"]
    r = ctx.harness(binary, [c], env=env)[0]
    bad = judge(c, r["got"]) if "got" in r else ["crashed"]
    if bad:
        ctx.violation({"kind": "store", "case": c, "mismatch": bad, "classes": sorted({b.split("(")[0].split(":")[0] for b in bad})})
