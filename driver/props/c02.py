"""C02 - Objects created by git decode identically in both parsers and re-encode verbatim.

spec/object/ObjTokens.tla (on top of ObjFormat.tla): the reference grammar ParseObj, the token sequence Tokens(kind,
bytes) a streaming decoder must yield, Fields(tokens); laws Fields(Tokens(b)) = ParseObj(b) and RenderObj(ParseObj(b))
= b are invariants of the generator run.
 A: ObjTokens_Gen enumerates commit/tag/tree values in git's shapes (multi-line headers with empty continuation lines,
    gpgsig blocks, two signature headers, nested mergetag, encoding, messages without final newline / binary, tags with
    and without tagger, PGP block, empty message, tags ending right after their headers) and renders them; git stores
    them (`git mktag` (strict), `git hash-object -t commit|tag -w`, `git mktree`) and `git cat-file --batch` returns
    the bytes (they must be the spec's: materialisation check). Replayed through CommitRef/TagRef/TreeRef::from_bytes,
    CommitRefIter/TagRefIter/TreeRefIter (+ their accessors) and WriteTo of the borrowed and owned objects.
 B: a seeded random history made by real git commands (commit-tree with -m/-F, i18n.commitEncoding, tag -a, notes,
    fast-import incl. tagger-less tags, mktree); every commit/tag/tree of the repository is decoded by gitoxide and the
    observations are judged by ObjTokens_Trace (TLC as reference decoder); the id must be git's object name.
SHA-1: git's object names / hashlib.
"""
import concurrent.futures
from vf import *

LEVEL = "exploration"
META = {
    "technique": "TLA+ reference grammar + token-sequence specification of git objects; TLC enumerates shapes (laws checked), git materialises them, gitoxide's two decoders and encoders replayed; git-made random histories judged by a TLC trace module",
    "note": "Domain: objects in git's canonical format as produced by the git commands listed; blobs are out of scope (no parser). A git-made object the grammar does not cover is a tool error, not a verdict.",
}

SPEC = ("object", "ObjTokens_Trace")


def text(b):
    return show_bytes(b)


def about(kind, data):
    return {"kind": kind, "bytes": text(data)[:400]}


def judge_gen(c, r):
    if "got" not in r:
        return ["crash: %s" % json.dumps(r)[:300]]
    g = r["got"]
    bad = []
    if not g["full"]["ok"]:
        bad.append("full: decoder refuses a git-made object: %s" % g["full"]["err"][:200])
    elif g["full"]["v"] != c["o"]["v"]:
        bad.append("full_fields: decoded fields differ from the spec's ParseObj")
    if not g["iter"]["ok"]:
        bad.append("iter: streaming decoder fails after %d tokens: %s" % (len(g["iter"]["tokens"]), g["iter"]["err"][:200]))
    elif g["iter"]["tokens"] != c["tokens"]:
        bad.append("iter_tokens: streaming decoder yields %s, spec %s" % ([t.get("t", "entry") for t in g["iter"]["tokens"]],
                                                                          [t.get("t", "entry") for t in c["tokens"]]))
    for which in ("reenc_ref", "reenc"):
        e = g[which]
        if g["full"]["ok"] and (not e["ok"] or e["bytes"] != c["bytes"]):
            bad.append("%s: re-encoding gives %d bytes %r, original %d bytes" % (which, len(e["bytes"]), text(e["bytes"])[-30:], len(c["bytes"])))
        elif g["full"]["ok"] and e["size"] != len(e["bytes"]):
            bad.append("%s_size: declares %d, writes %d" % (which, e["size"], len(e["bytes"])))
    want = b2l(hashlib.sha1(l2b(c["preimage"])).digest())
    if g["id_in"] != want:
        bad.append("id_in: compute_hash gives %s, git %s" % (l2b(g["id_in"]).hex(), l2b(want).hex()))
    if g["full"]["ok"] and g["reenc"]["ok"] and g["reenc"]["id"] != want:
        bad.append("reenc_id: re-encoded object hashes to %s, git %s" % (l2b(g["reenc"]["id"]).hex(), l2b(want).hex()))
    return bad


def classes(bad):
    return sorted({b.split(":")[0] for b in bad})


def event_of(kind, data, gid_hex, got):
    ev = {"kind": kind, "bytes": data, "gid": b2l(bytes.fromhex(gid_hex))}
    for k in ("full", "iter", "helpers", "reenc_ref", "reenc", "id_in"):
        ev[k] = got[k]
    if kind == "tree":
        ev["helpers"] = {"none": True}
    return ev


def report(ctx, how, kind, data, bad, extra=None):
    rec = {"kind": how, "case": {"kind": kind, "bytes": data}, "about": about(kind, data), "mismatch": bad, "classes": classes(bad),
           "ends_after_headers": kind == "tag" and not (l2b(data).startswith(b"\n") or b"\n\n" in l2b(data))}
    if extra:
        rec.update(extra)
    ctx.violation(rec)


# ---------------------------------------------------------------------------------- materialisation by git
def new_repo(ctx, name):
    repo = os.path.join(ctx.work, name)
    git(["init", "-q", repo], check=True)
    return repo


FAST = ["-c", "core.fsync=none", "-c", "core.looseCompression=0"]


def cat_batch(repo, ids):
    q = git(["cat-file", "--batch"], cwd=repo, input=("\n".join(ids) + "\n").encode(), check=True, timeout=900)
    data, pos, out = q.stdout, 0, []
    for i in ids:
        nl = data.index(b"\n", pos)
        hid, kind, size = data[pos:nl].split()
        if hid.decode() != i:
            raise ToolError("git cat-file --batch: unexpected header %r" % data[pos:nl])
        out.append((kind.decode(), data[nl + 1:nl + 1 + int(size)]))
        pos = nl + 1 + int(size) + 1
    return out


def target_repo(ctx):
    """scratch repository holding one object of every kind; their ids are handed to ObjTokens_Gen as data"""
    repo = new_repo(ctx, "gen-repo")
    blob = git(FAST + ["hash-object", "-w", "--stdin"], cwd=repo, input=b"x\n", check=True).stdout.strip().decode()
    tree = git(FAST + ["mktree"], cwd=repo, input=("100644 blob %s\tf\n" % blob).encode(), check=True).stdout.strip().decode()
    commit = git(FAST + ["commit-tree", tree, "-m", "c"], cwd=repo, check=True).stdout.strip().decode()
    tag = git(FAST + ["mktag"], cwd=repo, input=("object %s\ntype commit\ntag t\ntagger T <t@x> 1 +0000\n\nm\n" % commit).encode(),
              check=True).stdout.strip().decode()
    path = os.path.join(ctx.work, "targets.json")
    with open(path, "w") as f:
        f.write(json.dumps({"commit": b2l(commit.encode()), "tree": b2l(tree.encode()), "blob": b2l(blob.encode()), "tag": b2l(tag.encode())}) + "\n")
    os.environ["C02_TARGETS"] = path
    return repo


def materialise(ctx, repo, cases):
    """have git store the spec-rendered objects; returns per case (id hex | None, tool)"""
    files = os.path.join(ctx.work, "gen-files")
    os.makedirs(files, exist_ok=True)
    made = [None] * len(cases)
    # commits: one batch; a rejected object kills the batch, then fall back to one process each
    commits = [i for i, c in enumerate(cases) if c["kind"] == "commit"]
    paths = []
    for i in commits:
        p = os.path.join(files, "%d" % i)
        with open(p, "wb") as f:
            f.write(l2b(cases[i]["bytes"]))
        paths.append(p)
    if commits:
        p = git(FAST + ["hash-object", "-t", "commit", "-w", "--stdin-paths"], cwd=repo, input=("\n".join(paths) + "\n").encode(), timeout=900)
        ids = p.stdout.split()
        if p.returncode == 0 and len(ids) == len(commits):
            for i, gid in zip(commits, ids):
                made[i] = (gid.decode(), "hash-object")
        else:
            for i, path in zip(commits, paths):
                q = git(FAST + ["hash-object", "-t", "commit", "-w", path], cwd=repo)
                if q.returncode == 0:
                    made[i] = (q.stdout.strip().decode(), "hash-object")

    def mk_tag(i):
        data = l2b(cases[i]["bytes"])
        q = git(FAST + ["mktag"], cwd=repo, input=data)
        if q.returncode == 0:
            return i, (q.stdout.strip().decode(), "mktag")
        q = git(FAST + ["hash-object", "-t", "tag", "-w", "--stdin"], cwd=repo, input=data)
        if q.returncode == 0:
            return i, (q.stdout.strip().decode(), "hash-object")
        return i, None
    tags = [i for i, c in enumerate(cases) if c["kind"] == "tag"]
    with concurrent.futures.ThreadPoolExecutor(8) as ex:
        for i, res in ex.map(mk_tag, tags):
            made[i] = res
    # trees: git builds the bytes itself from the entries
    trees = [i for i, c in enumerate(cases) if c["kind"] == "tree"]
    if trees:
        inp = bytearray()
        for i in trees:
            for e in cases[i]["o"]["v"]["entries"]:
                m = l2b(e["mode"])
                typ = b"tree" if m == b"40000" else b"commit" if m == b"160000" else b"blob"
                inp += m + b" " + typ + b" " + l2b(e["id"]).hex().encode() + b"\t" + l2b(e["name"]) + b"\0"
            inp += b"\0"
        ids = git(FAST + ["mktree", "--missing", "-z", "--batch"], cwd=repo, input=bytes(inp), check=True, timeout=900).stdout.split()
        if len(ids) != len(trees):
            raise ToolError("git mktree returned %d ids for %d trees" % (len(ids), len(trees)))
        for i, gid in zip(trees, ids):
            made[i] = (gid.decode(), "mktree")
    # read back: what git stored must be the spec's bytes
    have = [i for i in range(len(cases)) if made[i]]
    for i, (kind, body) in zip(have, cat_batch(repo, [made[i][0] for i in have])):
        if kind != cases[i]["kind"] or body != l2b(cases[i]["bytes"]):
            if cases[i]["kind"] == "tree":
                audit_mismatch(ctx, "ObjTokens tree bytes", {"git": b2l(body), "spec": cases[i]["bytes"]})
            raise ToolError("materialisation: git stored something else than the rendered bytes for case %d" % i)
        if made[i][0] != hashlib.sha1(l2b(cases[i]["preimage"])).hexdigest():
            audit_mismatch(ctx, "ObjTokens preimage", {"git": made[i][0], "case": i})
    return made


# ---------------------------------------------------------------------------------- random history by real git commands
def rnd_words(rng, n):
    return " ".join(rng.choice(["fix", "add", "über", "naïve", "x", "re-do", "日本", "a/b", "Q&A", "(wip)"]) for _ in range(n))


def rnd_message(rng):
    k = rng.random()
    if k < 0.15:
        return b""
    if k < 0.5:
        m = rnd_words(rng, rng.randint(1, 6)).encode()
    elif k < 0.8:
        m = (rnd_words(rng, 3) + "\n\n" + "\n".join(rnd_words(rng, rng.randint(0, 8)) for _ in range(rng.randint(1, 5)))).encode()
    else:
        m = bytes(rng.choice([x for x in range(1, 256)]) for _ in range(rng.randint(1, 120)))
    if rng.random() < 0.6:
        m += b"\n"
    if rng.random() < 0.1:
        m += b"\n\n"
    if rng.random() < 0.1:
        m = b"\n" + m
    return m


def rnd_ident_env(rng, who):
    name = rng.choice(["A U Thor", "é ü", "O'Neil", "a.b-c", "  padded  ", "J. R. \"Bob\" Dobbs", "李"])
    email = rng.choice(["a@x", "x y@z", "", "weird@@host", "é@ü"])
    secs = rng.choice([0, 1, 1234567890, 2 ** 31 - 1, 2 ** 31, 4102444800, rng.randrange(0, 2 ** 32)])
    tz = rng.choice(["+0000", "-0000", "+0100", "-1130", "+1400", "-0059", "+0530"])
    return {"GIT_%s_NAME" % who: name, "GIT_%s_EMAIL" % who: email, "GIT_%s_DATE" % who: "%d %s" % (secs, tz)}


def random_history(ctx, n):
    """real git commands on one repository; returns (repo, number of commands run)"""
    rng = ctx.rng
    repo = new_repo(ctx, "hist-repo")
    msgfile = os.path.join(ctx.work, "msg")
    empty_tree = git(FAST + ["mktree"], cwd=repo, input=b"", check=True).stdout.strip().decode()
    blob = git(FAST + ["hash-object", "-w", "--stdin"], cwd=repo, input=b"hello\n", check=True).stdout.strip().decode()
    trees = [empty_tree]
    commits, tags = [], []
    ran = 0
    for step in range(n):
        op = rng.random()
        env = {}
        env.update(rnd_ident_env(rng, "AUTHOR"))
        env.update(rnd_ident_env(rng, "COMMITTER"))
        if op < 0.12:
            names = rng.sample(["a", "a-", "a.", "a0", "ab", "b", "é", "a b"], rng.randint(1, 5))
            lines = b""
            for nm in names:
                if rng.random() < 0.3:
                    lines += b"040000 tree " + rng.choice(trees).encode() + b"\t" + nm.encode() + b"\0"
                else:
                    lines += rng.choice([b"100644", b"100755", b"120000"]) + b" blob " + blob.encode() + b"\t" + nm.encode() + b"\0"
            q = git(FAST + ["mktree", "-z"], cwd=repo, input=lines)
            if q.returncode == 0:
                trees.append(q.stdout.strip().decode())
            ran += 1
        elif op < 0.62 or not commits:
            args = list(FAST)
            if rng.random() < 0.25:
                args += ["-c", "i18n.commitEncoding=" + rng.choice(["ISO-8859-1", "latin1", "Shift_JIS"])]
            args += ["commit-tree", rng.choice(trees)]
            for p in rng.sample(commits, min(len(commits), rng.choice([0, 1, 1, 1, 2, 3]))):
                args += ["-p", p]
            msg = rnd_message(rng).replace(b"\x00", b"?")
            if rng.random() < 0.4 and msg and b"\n" not in msg.rstrip(b"\n"):
                try:
                    args += ["-m", msg.decode("utf-8")]
                    if rng.random() < 0.3:
                        args += ["-m", "second paragraph"]
                except UnicodeDecodeError:
                    with open(msgfile, "wb") as f:
                        f.write(msg)
                    args += ["-F", msgfile]
            else:
                with open(msgfile, "wb") as f:
                    f.write(msg)
                args += ["-F", msgfile]
            q = git(args, cwd=repo, env=env, input=b"")       # (an empty -F file makes commit-tree read stdin)
            if q.returncode == 0:
                commits.append(q.stdout.strip().decode())
            ran += 1
        elif op < 0.8:
            name = "t%d%s" % (step, rng.choice(["", "/x", "-é", ".1"]))
            target = rng.choice(commits + trees[:1] + [blob] + tags)
            msg = rnd_message(rng).replace(b"\x00", b"?") or b"m"
            with open(msgfile, "wb") as f:
                f.write(msg)
            args = FAST + ["tag", "-a", "-F", msgfile]
            if rng.random() < 0.5:
                args += ["--cleanup=verbatim"]
            q = git(args + [name, target], cwd=repo, env=env, input=b"")
            if q.returncode == 0:
                tags.append(git(["rev-parse", "refs/tags/" + name], cwd=repo, check=True).stdout.strip().decode())
            ran += 2
        elif op < 0.88:
            git(FAST + ["notes", "add", "-f", "-m", rnd_words(rng, 3), rng.choice(commits)], cwd=repo, env=env, input=b"")
            ran += 1
        else:
            # fast-import: commits with an encoding, tags with and without a tagger
            msg = rnd_message(rng) or b"fi"
            enc = rng.choice([b"", b"encoding ISO-8859-1\n"])
            stream = b"commit refs/heads/fi%d\nmark :1\n" % step
            if rng.random() < 0.5:
                stream += b"author Fi A <fa@x> 1111 +0200\n"
            stream += b"committer Fi C <fc@x> 2222 -0330\n" + enc + b"data %d\n" % len(msg) + msg + b"\n"
            if commits and rng.random() < 0.5:
                stream += b"from " + rng.choice(commits).encode() + b"\n"
            stream += b"M 100644 inline f\ndata 2\nx\n\n"
            tmsg = rnd_message(rng)
            stream += b"tag fi-tag-%d\nfrom :1\n" % step
            if rng.random() < 0.5:
                stream += b"tagger Tag Ger <t@x> 3333 +0000\n"
            stream += b"data %d\n" % len(tmsg) + tmsg + b"\n"
            q = git(FAST + ["fast-import", "--quiet"], cwd=repo, input=stream)
            if q.returncode == 0:
                commits.append(git(["rev-parse", "refs/heads/fi%d" % step], cwd=repo, check=True).stdout.strip().decode())
            ran += 1
    return repo, ran


def all_objects(repo):
    q = git(["cat-file", "--batch-all-objects", "--batch-check"], cwd=repo, check=True, timeout=900)
    ids = [l.split()[0].decode() for l in q.stdout.splitlines() if l.split()[1] in (b"commit", b"tag", b"tree")]
    return [(i, k, b) for i, (k, b) in zip(ids, cat_batch(repo, ids))]


def trace_judge(ctx, events, how):
    chunk = 4000
    nrej = 0
    for s in range(0, len(events), chunk):
        rej = ctx.tlc_trace(*SPEC, events[s:s + chunk], timeout=3000)
        if not rej:
            continue
        dom = ctx.tlc_trace(*SPEC, [events[s + i] for i in rej], consts={"DomainOnly": "TRUE"}, timeout=3000)
        if dom:
            e = events[s + rej[dom[0]]]
            raise ToolError("the specification's grammar does not cover a git-made %s: %r" % (e["kind"], text(e["bytes"])[:300]))
        for i in rej:
            e = events[s + i]
            nrej += 1
            report(ctx, how, e["kind"], e["bytes"], ["trace: event rejected by ObjTokens_Trace"],
                   {"git_id": l2b(e["gid"]).hex(), "reenc_len": len(e["reenc"]["bytes"]), "full_ok": e["full"]["ok"], "iter_ok": e["iter"]["ok"]})
    return nrej


def run(ctx):
    binary = ctx.build("vh-c02")
    repo0 = target_repo(ctx)
    cases = ctx.tlc_gen("object", "ObjTokens_Gen", consts={"Wide": "TRUE" if ctx.thorough else "FALSE"}, timeout=3000)
    cases.sort(key=lambda c: json.dumps(c, sort_keys=True))
    ctx.cov["exhaustive"] = True
    made = materialise(ctx, repo0, cases)
    kept = [i for i in range(len(cases)) if made[i]]
    dropped = len(cases) - len(kept)
    tools = {}
    for i in kept:
        tools[made[i][1]] = tools.get(made[i][1], 0) + 1
    ctx.cov["materialised_by"] = tools
    ctx.cov["rejected_by_git"] = dropped
    ctx.log("git stored %d of %d rendered objects (%s); %d refused by git and dropped" % (len(kept), len(cases), tools, dropped))
    if dropped > len(cases) // 2:
        raise ToolError("git refuses most rendered objects: the generator is off")
    results = ctx.harness(binary, [{"kind": cases[i]["kind"], "bytes": cases[i]["bytes"]} for i in kept], timeout=1800)
    events = []
    for i, r in zip(kept, results):
        c = cases[i]
        bad = judge_gen(c, r)
        if bad:
            report(ctx, "gen", c["kind"], c["bytes"], bad, {"made_by": made[i][1], "headers_only": c["headers_only"]})
        elif "got" in r and i % (2 if ctx.thorough else 4) == 0:
            events.append(event_of(c["kind"], c["bytes"], made[i][0], r["got"]))
        o = c["o"]
        if (c["kind"] == "commit" and (o["v"]["extra"] or o["v"]["encoding"]["some"] or not l2b(o["v"]["message"]).endswith(b"\n"))) or \
                (c["kind"] == "tag" and (not o["v"]["tagger"]["some"] or o["v"]["pgp"]["some"] or c["headers_only"])) or c["kind"] == "tree":
            ctx.nontrivial(json.dumps(c["bytes"]))
    for k in ("commit", "tag"):
        pick = [cases[i] for i in kept if cases[i]["kind"] == k]
        if pick:
            ctx.sample({"git_stored": text(pick[len(pick) // 2]["bytes"]), "spec_tokens": [t["t"] for t in pick[len(pick) // 2]["tokens"]]})

    # binding B: git-made history
    repo, ran = random_history(ctx, 1500 if ctx.thorough else 160)
    objs = all_objects(repo)
    res = ctx.harness(binary, [{"kind": k, "bytes": b2l(b)} for _, k, b in objs], timeout=1800)
    nb = 0
    for (gid, k, b), r in zip(objs, res):
        if "got" not in r:
            report(ctx, "history", k, b2l(b), ["crash: %s" % json.dumps(r)[:300]], {"git_id": gid})
            continue
        events.append(event_of(k, b2l(b), gid, r["got"]))
        nb += 1
        ctx.nontrivial(gid)
    ctx.log("history: %d git commands made %d commits/tags/trees" % (ran, len(objs)))
    nrej = trace_judge(ctx, events, "trace")
    ctx.log("trace: %d of %d observations rejected" % (nrej, len(events)))
    if objs:
        g = [o for o in objs if o[1] == "commit"]
        if g:
            ctx.sample({"git_made_commit": text(b2l(g[len(g) // 2][2]))[:300]})
    ctx.cov["rule"] = ("A: ObjTokens_Gen (parents 0..3 x %d extra-header shapes x encoding x %d messages x %d identities x 3 times; tag shapes "
                       "incl. tagger-less, PGP block, headers-only; trees of <= 3 of 7 entries), stored by git mktag / hash-object / mktree. "
                       "B: every commit/tag/tree of a history made by %d real git commands (commit-tree, tag -a, notes, fast-import, mktree). "
                       "Non-trivial = A: commits with extra headers, encoding or a message without final newline, tags without tagger / with "
                       "signature block / headers-only, trees; B: every git-made object; distinct by bytes / object name."
                       % (((11, 9, 4) if ctx.thorough else (6, 5, 2)) + (ran,)))
    ctx.assumptions += ["objects are in git's canonical format as written by git 2.39.5's own commands; hash-object is used for header shapes "
                        "no unsigned git command can emit (gpgsig, mergetag)",
                        "objects git refuses to store are dropped from the domain (counted in coverage.rejected_by_git)",
                        "blobs have no structure and are not judged"]


def replay(ctx, rec):
    binary = ctx.build("vh-c02")
    c = rec["case"]
    r = ctx.harness(binary, [c])[0]
    if "got" not in r:
        ctx.violation(dict(rec, result=r))
        return
    data = l2b(c["bytes"])
    gid = hashlib.sha1(c["kind"].encode() + b" %d\x00" % len(data) + data).hexdigest()     # git's object name (git hash-object)
    q = git(["hash-object", "--literally", "-t", c["kind"], "--stdin"], input=data)
    if q.returncode == 0:
        gid = q.stdout.strip().decode()
    ev = event_of(c["kind"], c["bytes"], gid, r["got"])
    if ctx.tlc_trace(*SPEC, [ev]):
        if ctx.tlc_trace(*SPEC, [ev], consts={"DomainOnly": "TRUE"}):
            raise ToolError("replayed object is outside the specification's grammar")
        ctx.violation(dict(rec, reenc_len=len(ev["reenc"]["bytes"])))
