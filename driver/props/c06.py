"""C06 - Untrusted bytes never crash a parser.

spec/misc/Mutate.tla        the mutation operators named by the property (flip, truncate, extreme length prefix - hex4 / be32 /
                            decimal, drop / duplicate / empty / swap component, splice, chains) and the rule Allowed = {value, error}
spec/misc/Mutate_Seeds.tla  seeds for the two formats without a module elsewhere (EWAH bitmaps, revision-spec token strings)
spec/misc/Mutate_Gen.tla    binding A: TLC applies every single mutation at the positions / components / length fields of every
                            seed and prints the mutant with the allowed outcomes; mode "chain" applies seeded mutation chains
spec/misc/Mutate_Trace.tla  binding B: outcomes of seeded random byte strings judged by TLC
 Seeds = what the format modules of the other properties render (ObjFormat, PackedRefs, ReflogLine, PktLine, Url, RefspecParse,
 CQuote, CredCtx, CredCtxDec, Mailmap, DateFmt, RefName, Pathspec, ConfigFormat, Attr, Ignore - their *_Gen emitters are run
 through ctx.tlc_gen) + files made by the installed git (index with extensions, commit-graph, multi-pack-index, loose objects,
 refs, reflog, config, ref advertisements and fetch responses of `git upload-pack`).  The seeds rendered by the format modules
 are read from spec/misc/Mutate_Corpus.ndjson (regenerate with `python3 driver/props/c06.py`, ~5 min; with VERIF_C06_RENDER=1 a
 run renders them afresh with larger constants, ~8 min extra).
 The executor runs 31 entry points (the 26 anchors) under catch_unwind, a 10 s deadline and a 4 GiB address-space limit.
 Reference names: verdicts and the sanitiser contract are judged by ref/RefName_Trace on the same mutants.
"""
import concurrent.futures
import glob
import zlib
if __name__ == "__main__":
    import os as _os
    import sys as _sys
    _sys.path.insert(0, _os.path.dirname(_os.path.dirname(_os.path.abspath(__file__))))
from vf import *

LEVEL = "exploration"
META = {
    "technique": "specification-driven mutation: TLA+ mutation operators applied by TLC to valid encodings rendered by the format "
                 "specifications and to git-made files; every mutant replayed through the real parser entry points under "
                 "catch_unwind + deadline; allowed outcomes come from the specification; reference-name verdicts judged by RefName_Trace",
    "note": "this is generation from specifications, not coverage-guided fuzzing: absence of panics outside the generated shapes is not claimed",
}
CORPUS = os.path.join(SPEC, "misc", "Mutate_Corpus.ndjson")

# entry point -> how its seeds may be mutated (component separators, kinds of length fields, position windows)
EPS = {
    "object.commit": dict(seps=[10, 32], lens=["dec"]), "object.tag": dict(seps=[10, 32], lens=["dec"]),
    "object.tree": dict(seps=[0, 32], lens=[]), "object.blob": dict(seps=[], lens=[]),
    "object.loose": dict(seps=[0, 32], lens=["dec"]),
    "packed-refs": dict(seps=[10, 32], lens=[]), "loose-ref": dict(seps=[10, 32], lens=[]),
    "reflog": dict(seps=[10, 32, 9], lens=["dec"]),
    "index": dict(seps=[], lens=["be32"], head=16, tail=100, strides=24),
    "ewah": dict(seps=[], lens=["be32"], head=24, tail=16, strides=8),
    "config": dict(seps=[10, 61, 91], lens=[]),
    "pktline": dict(seps=[10], lens=["hex4"]),
    "advert.v1": dict(seps=[10, 0, 32], lens=["hex4"], head=12, tail=8, strides=12),
    "advert.v2": dict(seps=[10, 32], lens=["hex4"], head=12, tail=8, strides=12),
    "fetch.v1": dict(seps=[10], lens=["hex4"], head=12, tail=8, strides=12),
    "fetch.v2": dict(seps=[10], lens=["hex4"], head=12, tail=8, strides=12),
    "url": dict(seps=[47, 58, 64], lens=[]), "refspec": dict(seps=[58, 47, 42], lens=[]),
    "revspec": dict(seps=[46, 94, 123], lens=["dec"]), "pathspec": dict(seps=[58, 40, 44], lens=[]),
    "attributes": dict(seps=[10, 32, 61], lens=[]), "ignore": dict(seps=[10, 47], lens=[]),
    "mailmap": dict(seps=[10, 60, 62], lens=[]), "date": dict(seps=[32, 58, 45], lens=["dec"]),
    "quote": dict(seps=[92, 34], lens=[]), "credentials": dict(seps=[10, 61], lens=[]),
    "commitgraph": dict(seps=[], lens=["be32"], head=24, tail=48, strides=32),
    "midx": dict(seps=[], lens=["be32"], head=24, tail=48, strides=32),
    "refname": dict(seps=[47, 46], lens=[]),
}
MAXSEED = 3000     # longer seeds are cut: TLC applies the operators byte by byte


# ---------------------------------------------------------------- seeds rendered by the format modules
def _objformat(cs, out):
    for c in cs:
        kind = c["o"].get("kind") if isinstance(c.get("o"), dict) else None
        fam = c.get("family", "")
        ep = {"commit": "object.commit", "tag": "object.tag", "tree": "object.tree", "blob": "object.blob"}.get(
            kind, "object.commit" if fam.startswith("c") else "object.tag" if fam.startswith("tt") or fam.startswith("ts") else
            "object.tree" if fam.startswith("tree") else "object.blob")
        out[ep].append(c["bytes"])
        out["object.loose"].append(c["preimage"])


def _field(ep, *names):
    def f(cs, out):
        for c in cs:
            for n in names:
                if n in c and isinstance(c[n], list) and (not c[n] or isinstance(c[n][0], int)):
                    out[ep].append(c[n])
    return f


def _pkt(cs, out):
    for c in cs:
        for n in ("input", "stream", "exp"):
            if isinstance(c.get(n), list) and c[n] and isinstance(c[n][0], int):
                out["pktline"].append(c[n])


def _srcs(ep):
    def f(cs, out):
        for c in cs:
            for s in c.get("srcs", []):
                if isinstance(s.get("content"), list):
                    out[ep].append(s["content"])
    return f


def _reflog(cs, out):
    prev = []
    for c in cs:
        out["reflog"].append(c["line"])
        out["reflog"].append(prev + c["line_tab"])
        prev = c["line"]


def gens(wide):
    W = "TRUE" if wide else "FALSE"
    return [
        ("object", "ObjFormat_Gen", {"Ks": "{1, 9}" if wide else "{1}"}, _objformat),
        ("ref", "PackedRefs_Gen", {"MaxRecs": 3 if wide else 2}, _field("packed-refs", "buf")),
        ("ref", "ReflogLine_Gen", {}, _reflog),
        ("proto", "PktLine_Gen", {"MaxData": 20, "LineToks": 2 if wide else 1, "BandToks": 2 if wide else 1, "Big": "FALSE"}, _pkt),
        ("proto", "Url_Gen", {}, _field("url", "input")),
        ("proto", "RefspecParse_Gen", {"MaxToks": 4 if wide else 3}, _field("refspec", "input")),
        ("misc", "CQuote_Gen", {"MaxToks": 3 if wide else 2}, _field("quote", "text", "printed")),
        ("proto", "CredCtx_Gen", {"FocusToks": 2}, _field("credentials", "wire")),
        ("proto", "CredCtxDec_Gen", {"MaxToks": 4 if wide else 3}, _field("credentials", "input")),
        ("misc", "Mailmap_Gen", {"MaxLines": 2}, _field("mailmap", "mailmap")),
        ("misc", "DateFmt_Gen", {"Mode": '"parse"'}, _field("date", "text")),
        ("ref", "RefName_Gen", {"MaxToks": 3}, _field("refname", "input")),
        ("match", "Pathspec_Gen", {"Mode": '"parse"', "MaxToks": 4 if wide else 3}, _field("pathspec", "input")),
        ("config", "ConfigFormat_Gen", {"MaxToks": 3, "Mode": '"struct"'}, _field("config", "input")),
        ("config", "ConfigFormat_Gen", {"MaxToks": 3, "Mode": '"value"'}, _field("config", "input")),
        ("match", "Attr_Gen", {"LMax": 2 if wide else 1}, _srcs("attributes")),
        ("match", "Ignore_Gen", {"LMax": 2 if wide else 1}, _srcs("ignore")),
        ("misc", "Mutate_Seeds", {"MaxToks": 3 if wide else 2}, None),
    ]


def rendered_seeds(ctx, wide, per_ep):
    """run the format modules' generators (in parallel, 2 workers each) and pick a spread of their renderings"""
    out = {ep: [] for ep in EPS}
    lock_ids = {}

    def one(g):
        area, mod, consts, ex = g
        # distinct cfg/meta names for concurrent runs of the same module
        cs = ctx.tlc_gen(area, mod, consts=consts, workers=2, timeout=1500)
        return g, cs
    groups = gens(wide)
    # the same module twice must not run concurrently (run ids are derived from the module name)
    first = [g for i, g in enumerate(groups) if g[1] not in [h[1] for h in groups[:i]]]
    second = [g for g in groups if g not in first]
    for batch in (first, second):
        with concurrent.futures.ThreadPoolExecutor(6) as ex:
            for g, cs in ex.map(one, batch):
                if g[3] is None:
                    for c in cs:
                        out[c["ep"]].append(c["bytes"])
                else:
                    g[3](cs, out)
    r = random.Random(ctx.seed)
    picked = {}
    for ep, lst in out.items():
        uniq = sorted({bytes(x) for x in lst if 0 < len(x) <= MAXSEED}, key=lambda b: (len(b), b))
        if ep == "refname":
            uniq = uniq[:260]            # every name of <= 2 tokens (cheap entry point; `/`, `//`, `.lock` ... must stay in)
        elif len(uniq) > per_ep:
            # shortest, longest and a seeded spread in between
            mid = r.sample(uniq[1:-1], per_ep - 2)
            uniq = [uniq[0]] + sorted(mid, key=lambda b: (len(b), b)) + [uniq[-1]]
        picked[ep] = [list(b) for b in uniq]
    return picked


def load_corpus():
    out = {ep: [] for ep in EPS}
    for line in open(CORPUS):
        d = json.loads(line)
        out[d["ep"]].append(d["bytes"])
    return out


# ---------------------------------------------------------------- git-made seeds
def pkt(b):
    return b"%04x" % (len(b) + 4) + b


def git_seeds(ctx):
    out = {ep: [] for ep in EPS}
    repo = os.path.join(ctx.work, "seedrepo")
    g = lambda *a, **k: git(list(a), cwd=repo, check=True, **k)
    git(["init", "-q", "-b", "main", repo], check=True)
    g("config", "core.fsync", "none")
    g("config", "user.name", "A U Thor")
    g("config", "user.email", "a@example.com")
    os.makedirs(os.path.join(repo, "dir", "sub"))
    files = {"a": b"a\n", "dir/b": b"b\n", "dir/sub/c": b"c\n" * 40, ".gitattributes": b"*.txt text eol=lf\n[attr]bin -diff -text\n\"q uoted\" bin foo=bar !baz\n",
             ".gitignore": b"# c\n*.o\n!keep.o\n/build/\ndir/**/tmp\n\\#literal\n", ".mailmap": b"Proper Name <proper@x> Commit Name <commit@x>\n<p@x> <c@x>\n# comment\nN <p2@x> <c2@x>\n"}
    for p, c in files.items():
        with open(os.path.join(repo, p), "wb") as f:
            f.write(c)
    os.symlink("a", os.path.join(repo, "link"))
    os.chmod(os.path.join(repo, "dir", "b"), 0o755)
    g("add", "-A")
    g("commit", "-q", "-m", "first\n\nbody")
    with open(os.path.join(repo, "a"), "ab") as f:
        f.write(b"more\n")
    g("commit", "-q", "-am", "second")
    g("tag", "-a", "-m", "annotated tag\n\nwith body", "v1")
    g("branch", "side", "HEAD~1")
    g("repack", "-q", "-d")                       # pack 1
    with open(os.path.join(repo, "untracked.txt"), "wb") as f:
        f.write(b"u")
    with open(os.path.join(repo, "dir", "b"), "ab") as f:
        f.write(b"changed\n")
    g("commit", "-q", "-am", "third")
    g("repack", "-q", "-d")                       # pack 2
    g("multi-pack-index", "write")
    g("commit-graph", "write", "--reachable", "--changed-paths")
    g("pack-refs", "--all")
    g("update-ref", "refs/heads/loose", "HEAD")
    g("symbolic-ref", "refs/heads/sym", "refs/heads/main")
    rd = lambda *p: open(os.path.join(repo, ".git", *p), "rb").read()
    out["commitgraph"].append(rd("objects", "info", "commit-graph"))
    for m in glob.glob(os.path.join(repo, ".git", "objects", "pack", "multi-pack-index")):
        out["midx"].append(open(m, "rb").read())
    out["packed-refs"].append(rd("packed-refs"))
    out["loose-ref"] += [rd("HEAD"), rd("refs", "heads", "loose"), rd("refs", "heads", "sym")]
    out["reflog"] += [rd("logs", "HEAD"), rd("logs", "refs", "heads", "main")]
    out["config"].append(rd("config"))
    out["attributes"].append(files[".gitattributes"])
    out["ignore"].append(files[".gitignore"])
    out["mailmap"].append(files[".mailmap"])
    # index variants
    out["index"].append(rd("index"))
    g("update-index", "--untracked-cache")
    g("status", "-s")
    out["index"].append(rd("index"))
    g("update-index", "--index-version", "4")
    out["index"].append(rd("index"))
    g("update-index", "--index-version", "3", "--skip-worktree", "a")
    out["index"].append(rd("index"))
    g("update-index", "--index-version", "2", "--no-skip-worktree", "a")
    g("update-index", "--split-index")
    out["index"].append(rd("index"))
    for sh in glob.glob(os.path.join(repo, ".git", "sharedindex.*")):
        out["index"].append(open(sh, "rb").read())
    g("update-index", "--no-split-index")
    g("-c", "index.threads=4", "-c", "index.recordOffsetTable=true", "-c", "index.recordEndOfIndexEntries=true", "update-index", "--force-write-index")
    out["index"].append(rd("index"))
    # objects: loose form and bodies
    for rev, ep in (("HEAD", "object.commit"), ("HEAD~1", "object.commit"), ("v1", "object.tag"), ("HEAD^{tree}", "object.tree"),
                    ("HEAD:dir", "object.tree"), ("HEAD:a", "object.blob")):
        typ = g("cat-file", "-t", rev).stdout.decode().strip()
        body = g("cat-file", typ, rev).stdout
        out[ep].append(body)
        out["object.loose"].append(b"%s %d\x00" % (typ.encode(), len(body)) + body)
    # what a server sends
    up = lambda inp, proto=None, *a: git(["upload-pack"] + list(a) + [repo], input=inp, env=({"GIT_PROTOCOL": proto} if proto else None), timeout=60).stdout
    out["advert.v1"].append(up(b"", None, "--advertise-refs"))
    out["advert.v1"].append(up(b"", "version=1", "--advertise-refs"))
    out["advert.v2"].append(up(b"", "version=2", "--advertise-refs"))
    lsrefs = pkt(b"command=ls-refs\n") + pkt(b"object-format=sha1\n") + b"0001" + pkt(b"peel\n") + pkt(b"symrefs\n") + pkt(b"unborn\n") + b"0000"
    out["advert.v2"].append(up(lsrefs, "version=2", "--stateless-rpc"))
    head = g("rev-parse", "HEAD").stdout.strip()
    old = g("rev-parse", "HEAD~1").stdout.strip()
    fetch2 = pkt(b"command=fetch\n") + pkt(b"object-format=sha1\n") + b"0001" + pkt(b"ofs-delta\n") + pkt(b"want " + head + b"\n") + pkt(b"have " + old + b"\n") + b"0000"
    out["fetch.v2"].append(up(fetch2, "version=2", "--stateless-rpc"))
    fetch2d = fetch2[:-4] + pkt(b"done\n") + b"0000"
    out["fetch.v2"].append(up(fetch2d, "version=2", "--stateless-rpc"))
    shallow2 = pkt(b"command=fetch\n") + b"0001" + pkt(b"deepen 1\n") + pkt(b"want " + head + b"\n") + pkt(b"done\n") + b"0000"
    out["fetch.v2"].append(up(shallow2, "version=2", "--stateless-rpc"))
    fetch1 = pkt(b"want " + head + b" multi_ack_detailed side-band-64k ofs-delta\n") + b"0000" + pkt(b"have " + old + b"\n") + pkt(b"done\n")
    out["fetch.v1"].append(up(fetch1, None, "--stateless-rpc"))
    fetch1s = pkt(b"want " + head + b" shallow\n") + pkt(b"deepen 1\n") + b"0000" + pkt(b"done\n")
    out["fetch.v1"].append(up(fetch1s, None, "--stateless-rpc"))
    # recorded server responses shipped with the repository's own tests
    for pat, ep in (("gix-protocol/tests/fixtures/v1/*.response", "fetch.v1"), ("gix-protocol/tests/fixtures/v2/*.response", "fetch.v2"),
                    ("gix-transport/tests/fixtures/v1/clone.response", "advert.v1"), ("gix-transport/tests/fixtures/v2/clone.response", "advert.v2")):
        for p in sorted(glob.glob(os.path.join(REPO, pat))):
            out[ep].append(open(p, "rb").read())
    res = {}
    for ep, lst in out.items():
        res[ep] = [list(b[:MAXSEED]) for b in lst if b]
    return res


# ---------------------------------------------------------------- mutation by TLC
def seed_records(seeds, light_after=None):
    recs = []
    for ep in sorted(seeds):
        lst = seeds[ep]
        for i, b in enumerate(lst):
            cfgd = EPS[ep]
            if light_after is not None and i >= light_after:
                # beyond the budget: the seed itself, its truncations and the flips of its last byte only
                recs.append({"ep": ep, "bytes": b, "seps": [], "lens": [], "head": 0, "tail": 0, "strides": 1, "other": []})
                continue
            other = lst[(i + 1) % len(lst)] if len(lst) > 1 else []
            big = len(b) > 300
            recs.append({"ep": ep, "bytes": b, "seps": [] if big and ep in ("index", "commitgraph", "midx") else cfgd["seps"][: (1 if big else 3)],
                         "lens": cfgd["lens"], "head": cfgd.get("head", 8), "tail": cfgd.get("tail", 8),
                         "strides": cfgd.get("strides", 8), "other": other[:300]})
    return recs


def tlc_mutants(ctx, recs, mode="enum"):
    path = os.path.join(ctx.work, "seeds-%d.ndjson" % len(os.listdir(ctx.work)))
    with open(path, "w") as f:
        for r in recs:
            f.write(json.dumps(r, separators=(",", ":")) + "\n")
    return ctx.tlc_gen("misc", "Mutate_Gen", consts={"Mode": '"%s"' % mode}, env={"SEEDS": path}, workers=6, timeout=3000)


def random_chain(r, ep):
    ops = ["flip", "flip", "trunc", "be32", "hex4", "dec", "drop", "dup", "empty", "splice"]
    seps = EPS[ep]["seps"] or [0]
    return [{"op": r.choice(ops), "a": r.randrange(0, 100000), "b": r.choice(seps), "v": r.randrange(0, 100000)} for _ in range(r.randint(2, 8))]


# ---------------------------------------------------------------- judging
def klass(ep, got):
    d = got.get("detail", "")
    m = re.search(r"@ /repo/([^:]+):\d+", d)
    where = m.group(1) if m else (d[:40] if got["outcome"] == "panic" else "")
    return "%s:%s:%s" % (ep, got["outcome"], where)


def execute(ctx, binary, cases):
    res = ctx.harness(binary, [{"ep": c["ep"], "input": c["input"]} for c in cases], timeout=1800, env={"RUST_BACKTRACE": "0"})
    outs = []
    for c, r in zip(cases, res):
        if "got" in r:
            outs.append(r["got"])
        elif "panic" in r:
            outs.append({"outcome": "panic", "detail": r["panic"]})
        elif "hang" in r:
            outs.append({"outcome": "hang", "detail": "executor killed by the driver's deadline"})
        else:
            outs.append({"outcome": "abort", "detail": "process died: %s %s" % (r.get("abort"), (r.get("stderr") or "")[-200:])})
    return outs


def judge(ctx, cases, outs, kind, worst):
    """binding A: outcome must be one the specification allows (field `allowed`, printed by TLC)"""
    for c, g in zip(cases, outs):
        ctx.cov.setdefault("outcomes", {}).setdefault(c["ep"], {}).setdefault(g["outcome"], 0)
        ctx.cov["outcomes"][c["ep"]][g["outcome"]] += 1
        if g["outcome"] in c["allowed"]:
            continue
        k = klass(c["ep"], g)
        cur = worst.get(k)
        if cur is None or len(c["input"]) < len(cur["case"]["input"]):
            worst[k] = {"kind": kind, "case": {"ep": c["ep"], "input": c["input"]}, "ep": c["ep"], "outcome": g["outcome"], "detail": g.get("detail", ""),
                        "classes": [k], "mutation": {x: c.get(x) for x in ("seed", "op", "a", "b")}, "input_text": show_bytes(c["input"])[:300],
                        "count": (cur["count"] if cur else 0)}
        worst[k]["count"] = worst[k].get("count", 0) + 1


def refname_events(cases, outs):
    evs = []
    for c, g in zip(cases, outs):
        if c["ep"] == "refname" and "sanitized" in g:
            evs.append({"input": c["input"], "partial": g["partial"], "full": g["full"], "tag": g["tag"], "sanitized": g["sanitized"]})
    return evs


def run(ctx):
    binary = ctx.build("vh-c06")
    per_ep = 3 if not ctx.thorough else 12
    # VERIF_C06_RENDER=1: render the seeds afresh from the format modules instead of reading the corpus (adds ~8 min)
    rendered = rendered_seeds(ctx, True, per_ep) if os.environ.get("VERIF_C06_RENDER") else load_corpus()
    made = git_seeds(ctx)
    seeds = {}
    for ep in EPS:
        lst, seen = [], set()
        for b in made.get(ep, []) + rendered.get(ep, []):
            if bytes(b) not in seen:
                seen.add(bytes(b))
                lst.append(b)
        r = random.Random("%d:%s" % (ctx.seed, ep))
        keep = made.get(ep, [])[: per_ep // 2 + 2]
        rest = [b for b in lst if b not in keep]
        r.shuffle(rest)
        seeds[ep] = (keep + rest)[: per_ep + len(keep) // 2]
        if ep == "refname":
            seeds[ep] = seeds[ep] + [b for b in sorted(lst, key=lambda b: (len(b), b)) if b not in seeds[ep]][:260]
        if not seeds[ep]:
            raise ToolError("no seeds for entry point %s" % ep)
    ctx.cov["seeds"] = {ep: len(v) for ep, v in seeds.items()}
    recs = seed_records(seeds, light_after=per_ep + 4)
    ctx.log("seeds: %d for %d entry points (%d git-made)" % (len(recs), len(seeds), sum(len(v) for v in made.values())))
    cases = tlc_mutants(ctx, recs)
    ctx.cov["exhaustive"] = True
    worst = {}
    outs = execute(ctx, binary, cases)
    ctx.log("executed %d mutants" % len(cases))
    judge(ctx, cases, outs, "gen", worst)
    ref_evs = refname_events(cases, outs)

    # ---- binding B: mutation chains applied by TLC + raw random byte strings, judged by TLC
    nchain = 30 if not ctx.thorough else 500
    chain_recs = []
    for ep in sorted(seeds):
        for _ in range(nchain // 10 if ep not in ("index", "commitgraph", "midx", "ewah", "pktline", "advert.v1", "fetch.v2") else nchain):
            b = ctx.rng.choice(seeds[ep])
            chain_recs.append({"ep": ep, "bytes": b, "other": ctx.rng.choice(seeds[ep])[:300], "chain": random_chain(ctx.rng, ep),
                               "seps": [], "lens": [], "head": 0, "tail": 0, "strides": 1})
    chained = tlc_mutants(ctx, chain_recs, "chain")
    alphabet = [b"\x00", b"\xff", b"\n", b" ", b"/", b":", b"@", b"^", b"{", b"}", b"~", b".", b"..", b"\\", b"\"", b"'", b"[", b"]", b"*", b"?", b"#", b";",
                b"=", b"-", b"+", b"0", b"9", b"a", b"Z", b"\t", b"\r", b"%", b"<", b">", b"(", b")", b"!", b"0000", b"ffff", b"\xc3\xa9", b"\x80", b"refs/heads/", b"HEAD"]
    rnd = []
    for ep in sorted(seeds):
        for _ in range(40 if not ctx.thorough else 800):
            k = ctx.rng.randint(0, 12)
            s = b"".join(ctx.rng.choice(alphabet) for _ in range(k))
            if ctx.rng.random() < 0.4:
                s += ctx.rng.randbytes(ctx.rng.randint(1, 40))
            rnd.append({"ep": ep, "input": b2l(s), "allowed": None})
    both = chained + rnd
    outs2 = execute(ctx, binary, both)
    ctx.log("executed %d chained mutants and %d random strings" % (len(chained), len(rnd)))
    events = [{"ep": c["ep"], "outcome": g["outcome"]} for c, g in zip(both, outs2)]
    for bi in ctx.tlc_trace("misc", "Mutate_Trace", events):
        c, g = both[bi], outs2[bi]
        judge(ctx, [dict(c, allowed=[])], [g], "trace", worst)
    for c, g in zip(chained, outs2):                          # the chained mutants also carry TLC's `allowed`
        if g["outcome"] not in c["allowed"] and klass(c["ep"], g) not in worst:
            raise ToolError("Mutate_Trace accepted outcome %s" % g["outcome"])
    ref_evs += refname_events(both, outs2)
    for bi in ctx.tlc_trace("ref", "RefName_Trace", ref_evs):
        e = ref_evs[bi]
        # the lone `@` (accepted by gitoxide's validators, refused by git) is C15's recorded finding; same shape of record here
        k = "refname:lone-at" if e["sanitized"] == [64] else "refname:verdict"
        if k in worst and len(worst[k]["case"]["input"]) <= len(e["input"]):
            worst[k]["count"] += 1
            continue
        worst[k] = {"kind": "refname", "case": {"ep": "refname", "input": e["input"]}, "ep": "refname", "outcome": "value",
                    "detail": "verdicts / sanitised name rejected by RefName_Trace", "classes": [k],
                    "event": e, "input_text": show_bytes(e["input"]), "count": (worst[k]["count"] + 1 if k in worst else 1)}
    for k in sorted(worst):
        ctx.violation(worst[k])
    ctx.cov["violation_classes"] = {k: v["count"] for k, v in worst.items()}
    ctx.cov["refname_events"] = len(ref_evs)
    # non-trivial: the mutant made the parser take its error path, or is a mutant that still parses
    for c, g in list(zip(cases, outs)) + list(zip(both, outs2)):
        if c.get("op", "rand") != "seed":
            ctx.nontrivial((c["ep"], bytes(c["input"])))
    for ep in ("ewah", "pktline", "index"):
        ex = next((c for c, g in zip(cases, outs) if c["ep"] == ep and c["op"] not in ("seed", "flip")), None)
        if ex:
            ctx.sample({"ep": ep, "mutation": [ex["op"], ex["a"], ex["b"]], "input_head": ex["input"][:32], "len": len(ex["input"])})
    ctx.cov["entry_points"] = len(EPS)
    ctx.cov["rule"] = ("A: every single mutation of Mutate.tla (flip x 5-6 values at head/tail/stride positions, truncations, extreme hex4/be32/decimal "
                       "length fields, drop/dup/empty/swap of the first components per separator, 3 splices) of %d seeds for %d entry points; "
                       "B: %d seeded mutation chains of 2-8 steps applied by TLC and %d random byte strings. Non-trivial = any mutant/random input "
                       "(not an unmodified seed); distinct by (entry point, bytes)." % (len(recs), len(EPS), len(chained), len(rnd)))
    ctx.assumptions += ["a parser 'entry point' is the public decode function(s) of the anchored file; accessors used after a successful parse are "
                        "only exercised for objects (into_owned), packed-refs (iter/find), EWAH (for_each_set_bit with a consumer that stops "
                        "at num_bits + 64) and capabilities",
                        "deadline 10 s per call, address space limited to 4 GiB (an allocation of an attacker-chosen size beyond that aborts = violation)",
                        "gix_date::parse takes &str: bytes are converted lossily first",
                        "seeds rendered by the format modules are read from spec/misc/Mutate_Corpus.ndjson unless VERIF_C06_RENDER=1"]


def replay(ctx, rec):
    binary = ctx.build("vh-c06")
    c = rec["case"]
    g = execute(ctx, binary, [c])[0]
    if rec.get("kind") == "refname":
        e = refname_events([c], [g])
        if not e or ctx.tlc_trace("ref", "RefName_Trace", e):
            ctx.violation(dict(rec, result=g))
        return
    if ctx.tlc_trace("misc", "Mutate_Trace", [{"ep": c["ep"], "outcome": g["outcome"]}]):
        ctx.violation(dict(rec, outcome=g["outcome"], detail=g.get("detail", ""), classes=[klass(c["ep"], g)]))


if __name__ == "__main__":
    # regenerate the checked-in corpus from the format modules
    import sys
    ctx = Ctx("C06", "thorough", 1, LEVEL)
    picked = rendered_seeds(ctx, False, 24)
    with open(CORPUS, "w") as f:
        for ep in sorted(picked):
            for b in picked[ep]:
                f.write(json.dumps({"ep": ep, "bytes": b}, separators=(",", ":")) + "\n")
    print("wrote", CORPUS, {ep: len(v) for ep, v in picked.items()})
    shutil.rmtree(ctx.work, ignore_errors=True)
