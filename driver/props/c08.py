"""C08 - Objects read from packs are exact, whatever caches are used.

spec/pack/PackCache.tla: a pack as objects with delta chains, resolution that stops at the first cached
entry and puts intermediate results back, and an LRU cache bounded by entry count and by bytes with
allocator slack; TLC checks Exact (every request returns the requested object), CacheExact, MemAccounted,
MemBounded (the budget is never exceeded, `mem_limit - mem_used` never underflows) and CapBounded for
every request sequence of the instance; the self-test switch Bug_CreditLen (budget test by length,
accounting by capacity - StaticLinkedList::put at the pinned commit) violates MemBounded.
 A: PackCache_Gen enumerates every request sequence with repetition over the objects of git-made packs
    (delta chains of depth 4 made by `git repack --depth`, offset and ref deltas, trees, commits, a tag);
    each sequence runs against every cache implementation and capacity (never, static LRU with tiny /
    small / exact / default / unlimited budgets, memory-capped LRU tiny / small / ample, with and
    without an object cache in front); every answer must have the kind git reports and bytes whose
    recomputed id is the requested id.
 B: seeded random longer request sequences on a larger pack (200 objects, depth 50).
"""
from vf import *

LEVEL = "model_checking"
META = {
    "technique": "TLA+ model of delta resolution through a bounded LRU cache checked by TLC (exactness and accounting invariants, mutant self-test); TLC-enumerated request sequences executed on git-made packs with every cache implementation",
    "note": "zlib and SHA-1 are uninterpreted (an object is exact iff the recomputed id of the returned bytes is the requested id and the kind is git's). Trusted: TLC, git as pack producer and `git cat-file --batch-check` as reference.",
}
CACHES = ["never", "static2-tiny", "static2-small", "static4-exact", "static64-default", "static64-unlimited", "memcap-tiny", "memcap-small", "memcap-ample"]


def make_pack(ctx, name, versions, depth, ref_delta):
    d = os.path.join(ctx.work, name)
    git(["init", "-q", d], check=True)
    rng = random.Random(ctx.seed * 7 + len(name))
    base = [("line %d %s\n" % (i, "x" * rng.randint(5, 40))) for i in range(60)]
    for v in range(versions):
        lines = list(base)
        for _ in range(rng.randint(1, 4)):
            lines[rng.randrange(len(lines))] = "changed in version %d %d\n" % (v, rng.random() * 1e6)
        base = lines
        with open(os.path.join(d, "f.txt"), "w") as f:
            f.write("".join(lines))
        with open(os.path.join(d, "tiny"), "w") as f:
            f.write("t%d" % (v % 3))
        git(["-c", "core.fsync=none", "add", "."], cwd=d, check=True)
        git(["-c", "core.fsync=none", "-c", "user.name=v", "-c", "user.email=v@x", "commit", "-q", "-m", "v%d" % v], cwd=d, check=True)
    git(["-c", "user.name=v", "-c", "user.email=v@x", "tag", "-a", "-m", "t", "t1"], cwd=d, check=True)
    args = ["-c", "core.fsync=none", "-c", "gc.auto=0"] + (["-c", "repack.useDeltaBaseOffset=false"] if ref_delta else []) + \
           ["repack", "-a", "-d", "-f", "-q", "--depth=%d" % depth, "--window=20"]
    git(args, cwd=d, check=True)
    packdir = os.path.join(d, ".git", "objects", "pack")
    idx = [os.path.join(packdir, f) for f in os.listdir(packdir) if f.endswith(".idx")]
    if len(idx) != 1:
        raise ToolError("expected one pack")
    listing = git(["cat-file", "--batch-check", "--batch-all-objects"], cwd=d, check=True).stdout.decode().split("\n")
    objs = [l.split() for l in listing if l]
    vp = git(["verify-pack", "-v", idx[0]], cwd=d, check=True).stdout.decode()
    chain = [l for l in vp.split("\n") if l.startswith("chain length")]
    return idx[0], objs, chain


def judge(ctx, case, r, kinds):
    if "got" not in r:
        ctx.violation({"kind": "crash", "case": case, "what": "executor crashed: %s" % json.dumps(r)[:200]})
        return
    for per in r["got"]:
        if "panic" in per:
            ctx.violation({"kind": "panic", "case": case, "cache": per["cache"], "object_cache": case["object_cache"],
                           "what": "reading through cache %s panicked: %s" % (per["cache"], per["panic"])})
            continue
        for k, (req, res) in enumerate(zip(case["requests"], per["results"])):
            want_id = case["ids"][req - 1]
            if res["sha"] != want_id or res["kind"] != kinds[want_id]:
                ctx.violation({"kind": "wrong", "case": case, "cache": per["cache"], "request_index": k,
                               "what": "request %d (object %s, %s) through %s returned %s %s" % (k, want_id[:8], kinds[want_id], per["cache"], res["kind"], res["sha"][:8])})
                break


def run(ctx):
    binary = ctx.build("vh-c08")
    for cap, lim in [(2, 12), (3, 30), (2, 8)] + ([(3, 12), (4, 40)] if ctx.thorough else []):
        ctx.tlc_mc("pack", "PackCache", consts={"Cap": cap, "MemLimit": lim, "MaxReq": 4 if not ctx.thorough else 6}, coverage=False)
    ctx.tlc_mc("pack", "PackCache", consts={"Bug_CreditLen": "TRUE"}, expect_violation="MemBounded", coverage=False)
    seqs = ctx.tlc_gen("pack", "PackCache_Gen", consts={"NObj": 6, "MaxReq": 4 if not ctx.thorough else 5})
    ctx.cov["exhaustive"] = True
    for pi, (refd, oc) in enumerate([(False, False), (True, True)]):
        idx, objs, chain = make_pack(ctx, "pack%d" % pi, 6, 4, refd)
        kinds = {o[0]: o[1] for o in objs}
        # six objects: the blob versions along the delta chain first, then a tree, a commit
        # three blob versions along the delta chain, a tree or tag, and two tiny blobs (smaller than the allocator minimum)
        blobs = sorted([o for o in objs if o[1] == "blob" and int(o[2]) > 100], key=lambda o: o[0])[:3]
        others = [o for o in objs if o[1] in ("tree", "tag")][:1] + [o for o in objs if o[1] == "blob" and int(o[2]) < 10][:2]
        sel = [o[0] for o in blobs + others]
        if len(sel) != 6:
            raise ToolError("pack does not have the expected objects")
        cases = [{"idx": idx, "ids": sel, "requests": s["requests"], "caches": CACHES, "object_cache": oc} for s in seqs]
        res = ctx.harness(binary, cases, timeout=3000)
        for c, r in zip(cases, res):
            judge(ctx, c, r, kinds)
            if len(set(c["requests"])) < len(c["requests"]):
                ctx.nontrivial(json.dumps([pi, c["requests"]]))
        ctx.cov.setdefault("pack_chains", []).append(chain[:5])
    ctx.sample({"requests": seqs[len(seqs) // 2]["requests"], "caches": CACHES})
    # B: larger pack, random sequences
    idx, objs, chain = make_pack(ctx, "big", 60 if not ctx.thorough else 200, 50, False)
    kinds = {o[0]: o[1] for o in objs}
    ids = [o[0] for o in objs]
    cases = []
    for k in range(20 if not ctx.thorough else 200):
        n = ctx.rng.randint(20, 120)
        hot = ctx.rng.sample(range(1, len(ids) + 1), min(8, len(ids)))
        reqs = [ctx.rng.choice(hot) if ctx.rng.random() < 0.5 else ctx.rng.randint(1, len(ids)) for _ in range(n)]
        cases.append({"idx": idx, "ids": ids, "requests": reqs, "caches": CACHES, "object_cache": bool(k % 2)})
    res = ctx.harness(binary, cases, timeout=3000)
    for c, r in zip(cases, res):
        judge(ctx, dict(c, ids=c["ids"]), r, kinds)
        ctx.nontrivial("rand" + json.dumps(c["requests"][:30]))
    ctx.cov["rule"] = ("A: all request sequences of length %d with repetition over 6 objects (4 along a delta chain) x 2 packs (offset deltas / ref "
                       "deltas + object cache) x 9 cache configurations; B: %d random sequences of 20-120 requests on a pack with chains up to depth 50. "
                       "Non-trivial = a sequence with a repeated object (cache hit possible) or any random sequence." % (4 if not ctx.thorough else 5, len(cases)))


def replay(ctx, rec):
    ctx.log("packs are rebuilt per run (seeded); re-running the tier reproduces the case")
