"""C42 - The worktree path stack stays consistent across failures.

spec/worktree/FsStack.tla models gix_fs::Stack::make_relative_path_current step by step (common
prefix reuse, pops, former-leaf push_directory, per-component push + push_directory, rejections)
together with the delegate's view of pushed directories; TLC proves `Balanced` for the intended
design on every call sequence of the instance and shows (self-test, thorough) that each Bug_*
switch re-creating an accounting slip violates it.
 A: every behaviour of FsStack_Gen (call sequences x delegate reject sets) is replayed through the
    real gix_fs::Stack with a logging/rejecting delegate.
 B: the observed (ok, current path, delegate directory list) of every call is judged by
    FsStack_Trace: current = root + relative, success => current = requested path, directory
    notifications exactly the chain of the current path.
 A': FsStackWt_Gen composes the stack with gix_worktree::Stack in checkout mode over a scratch
    worktree with one attribute file per directory; the attribute state seen at each path must be
    that of its own directory, and exactly the calls touching a `.git` component fail.
"""
from vf import *

LEVEL = "model_checking"
META = {
    "technique": "TLA+ model of the stack/delegate protocol checked by TLC (Balanced invariant, bug-switch self-tests); all TLC behaviours replayed in gix_fs::Stack and gix_worktree::Stack; observed states judged by a TLC trace spec",
    "note": "Exhaustive for call sequences of the stated length over the 8-path alphabet and 9 reject-set combinations; paths are normalised relative paths of normal components (the documented domain). Trusted: TLC, the executor's logging delegate.",
}


def events_of(case, got):
    evs = []
    for call, g in zip(case["calls"], got):
        evs.append({"path": call["path"], "ok": g["ok"], "cur": g["cur"], "dirs": g["dirs"], "abs_ok": g["abs_ok"],
                    "underflow": g["underflow"]})
    return evs


def run(ctx):
    binary = ctx.build("vh-c42")
    if ctx.thorough:
        consts = {"MaxCalls": 3, "PerCallRejects": "TRUE"}
    else:
        consts = {"MaxCalls": 4, "PerCallRejects": "FALSE"}
    cases = ctx.tlc_gen("worktree", "FsStack_Gen", consts=consts)
    if ctx.thorough:
        cases += ctx.tlc_gen("worktree", "FsStack_Gen", consts={"MaxCalls": 5, "PerCallRejects": "FALSE"})
        for bug in ("Bug_PushDirAfterRejectedPush", "Bug_RootPushedAgain", "Bug_LeafFlagAfterRollback"):
            ctx.tlc_mc("worktree", "FsStack_Gen", consts={bug: "TRUE", "MaxCalls": 3}, expect_violation="InvBalanced", coverage=False)
    ctx.cov["exhaustive"] = True
    if len(cases) > 300000:
        # the thorough enumerations have millions of behaviours: a seeded sample is replayed (TLC has visited all of them)
        import random
        ctx.cov["generated_behaviours"] = len(cases)
        cases = random.Random(ctx.seed).sample(cases, 300000)
        ctx.cov["exhaustive"] = False
    for c in cases:
        c["op"] = "fs"
    results = ctx.harness(binary, cases)
    events, owner = [], []
    exact = 0
    ncalls = 0
    for ci, (c, r) in enumerate(zip(cases, results)):
        if "got" not in r:
            ctx.violation({"kind": "crash", "case": c, "result": r, "what": "stack call panicked/hung"})
            continue
        evs = events_of(c, r["got"])
        for k, (call, e) in enumerate(zip(c["calls"], evs)):
            ncalls += 1
            if call["ok"] == e["ok"] and call["cur"] == e["cur"] and call["dirs"] == e["dirs"]:
                exact += 1
            events.append(e)
            owner.append((ci, k))
        if any(call["rp"] or call["rd"] for call in c["calls"]) and any(not call["ok"] for call in c["calls"]):
            ctx.nontrivial(json.dumps(c["calls"], sort_keys=True))
    for bi in ctx.tlc_trace("worktree", "FsStack_Trace", events):
        ci, k = owner[bi]
        ctx.violation({"kind": "fs", "case": cases[ci], "call_index": k, "event": events[bi],
                       "what": "after this call the stack state violates the property (see event)"})
    ctx.cov["exact_agreement_with_intended_design"] = "%d/%d calls" % (exact, ncalls)
    ctx.sample({"behaviour": cases[len(cases) // 3]["calls"], "observed": results[len(cases) // 3].get("got")})

    # composed with gix_worktree::Stack (attribute state per directory)
    wt = ctx.tlc_gen("worktree", "FsStackWt_Gen", consts={"MaxCalls": 3 if not ctx.thorough else 4})
    res = ctx.harness(binary, wt, timeout=1200)
    for c, r in zip(wt, res):
        if "got" not in r:
            ctx.violation({"kind": "crash", "case": c, "result": r, "what": "worktree stack call panicked/hung"})
            continue
        for k, (call, g) in enumerate(zip(c["calls"], r["got"])):
            want_d = ["_".join(call["dir"]) if call["dir"] else "ROOT"]
            if g["ok"] != call["ok"]:
                ctx.violation({"kind": "wt", "case": c, "call_index": k, "got": g,
                               "what": "call %s expected ok=%s" % ("/".join(call["path"]), call["ok"])})
                break
            if g["ok"] and g["d"] != want_d:
                ctx.violation({"kind": "wt", "case": c, "call_index": k, "got": g,
                               "what": "attribute state at %s is that of %s, expected %s" % ("/".join(call["path"]), g["d"], want_d)})
                break
        if any(not call["ok"] for call in c["calls"][:-1]):
            ctx.nontrivial(json.dumps(c["calls"], sort_keys=True))
    ctx.sample({"worktree_behaviour": wt[len(wt) // 2]["calls"]})
    ctx.cov["rule"] = ("Exhaustive enumeration by TLC of call sequences (FsStack_Gen: <= %s calls over 8 paths x reject sets %s; "
                       "FsStackWt_Gen: <= %s calls over 10 paths with `.git` components rejected). Non-trivial = the behaviour contains "
                       "a rejected call (followed by further calls for the worktree layer); distinct by call sequence."
                       % (consts["MaxCalls"], "per call" if ctx.thorough else "per behaviour", 3 if not ctx.thorough else 4))
    ctx.assumptions += ["paths are non-empty, normalised, relative (documented domain of make_relative_path_current)",
                        "a delegate call that returns an error has not recorded the directory"]


def replay(ctx, rec):
    binary = ctx.build("vh-c42")
    c = rec["case"]
    r = ctx.harness(binary, [c])[0]
    if "got" not in r:
        ctx.violation(dict(rec, result=r))
        return
    if c.get("op") == "wt":
        for k, (call, g) in enumerate(zip(c["calls"], r["got"])):
            want_d = ["_".join(call["dir"]) if call["dir"] else "ROOT"]
            if g["ok"] != call["ok"] or (g["ok"] and g["d"] != want_d):
                ctx.violation({"kind": "wt", "case": c, "call_index": k, "got": g, "what": "replayed"})
                return
    else:
        evs = events_of(c, r["got"])
        for bi in ctx.tlc_trace("worktree", "FsStack_Trace", evs):
            ctx.violation({"kind": "fs", "case": c, "call_index": bi, "event": evs[bi], "what": "replayed"})
