"""C50 - Repository discovery agrees with git.

spec/worktree/Discover.tla transcribes git's upward search (setup_git_directory_gently_1): per directory
`.git` file (read_gitfile, fatal when unusable) / `.git` directory / the directory itself (is_git_directory:
HEAD syntax, objects and refs in the common dir), GIT_CEILING_DIRECTORIES (realpath until an empty entry,
relative entries dropped, deepest PROPER ancestor wins, the ceiling itself is never examined), physical start
directory; result (git dir, work tree).  GixWorktree names the one documented deviation of gix-discover.
 A: Discover_Gen enumerates worlds (a repository kind at W/p and at W/p/q, main repository W/m with a separate
    git dir and linked work trees, a symlink) and for each every start directory x spelling x ceiling list
    with what git finds.  Worlds are materialised with the real git, read back and compared with the
    specification's file system, then gix_discover::upwards_opts (environment ceilings) runs on every query.
 B: seeded random deeper trees; the file system is read back from disk and Discover_Trace judges what
    gix reported (TLC as reference interpreter).
 C: `git -C start rev-parse --absolute-git-dir --show-toplevel` under the same GIT_CEILING_DIRECTORIES audits
    the specification on the enumerated queries (A) and, through Discover_Trace with Who = "git", on the
    random worlds (B).  A disagreement is a tool error.
"""
import concurrent.futures
from vf import *

LEVEL = "exploration"
META = {
    "technique": "TLA+ transcription of git's repository discovery over an abstract file system; TLC enumerates worlds and queries with expected results; worlds materialised with git and read back; random worlds judged by a TLC trace spec; git rev-parse audit",
    "note": "Cross-device stops and ownership checks are not exercised (single file system, single user). Trusted: TLC, git 2.39.5 as reference for the transcription, the read-back of the file system.",
}
NOPATH = ["?"]
SKIP_DIRS = {"hooks", "info", "logs", "branches"}
LEAF_DIRS = {"objects", "refs"}
READ_FILES = {"HEAD", ".git", "commondir", "gitdir"}
HEX = set("0123456789abcdef")


class Where:
    """abstract <-> real paths. <<>> = the parent of ctx.work, <<"work">> = ctx.work, <<"work","w">> = one world."""

    def __init__(self, ctx):
        self.work = ctx.work
        self.top = os.path.dirname(ctx.work)
        p = git(["rev-parse", "--absolute-git-dir"], cwd=self.top, env={"GIT_CEILING_DIRECTORIES": ""})
        self.outer_git = p.stdout.decode().strip() if p.returncode == 0 else None
        self.outer_wt = None
        if self.outer_git:
            q = git(["rev-parse", "--show-toplevel"], cwd=self.top)
            if q.returncode != 0 or self.outer_git != os.path.join(q.stdout.decode().strip(), ".git"):
                raise ToolError("scratch area %s lies in an unusual enclosing repository (%s)" % (self.top, self.outer_git))
            self.outer_wt = q.stdout.decode().strip()

    def real(self, world, comps):
        out = self.top
        for i, c in enumerate(comps):
            if i == 0 and c == "work":
                out = self.work
            elif i == 1 and c == "w" and comps[0] == "work":
                out = world
            else:
                out = out + "/" + c
        return out

    def abstract(self, world, path):
        if path is None:
            return NOPATH
        if self.outer_git and path == self.outer_git:
            return [".git"]
        if self.outer_wt and path == self.outer_wt:
            return []
        if path == world or path.startswith(world + "/"):
            return ["work", "w"] + [c for c in path[len(world):].split("/") if c]
        if path == self.work:
            return ["work"]
        if path == self.top:
            return []
        return ["!", path]


def g(args, cwd=None, env=None):
    if args[0] == "init":
        args = ["init", "--template="] + args[1:]     # no hook samples etc.: far fewer files per world
    p = git(["-c", "core.fsync=none", "-c", "init.defaultBranch=main", "-c", "advice.detachedHead=false"] + args, cwd=cwd, env=env, input=b"")
    if p.returncode != 0:
        raise ToolError("git %s failed: %s" % (" ".join(args), p.stderr.decode("utf-8", "replace")[-300:]))
    return p


def make_template(ctx):
    t = os.path.join(ctx.work, "_tmpl")
    os.makedirs(t)
    g(["init", "-q", t + "/m"])
    with open(t + "/m/f", "w") as f:
        f.write("f\n")
    g(["add", "f"], cwd=t + "/m")
    g(["commit", "-q", "-m", "c"], cwd=t + "/m")
    g(["init", "-q", "--separate-git-dir", t + "/m/sep", t + "/_x"])
    shutil.rmtree(t + "/_x")
    return t


def place(world, x, kind):
    """put a repository kind at directory x of the world (real git, then the stated mutation)"""
    dg = x + "/.git"
    if kind == "linked":
        g(["worktree", "add", "-q", "--detach", x], cwd=world + "/m")
        return
    os.makedirs(x, exist_ok=True)
    if kind == "plain":
        pass
    elif kind in ("work", "workdet", "headjunk", "headbadref", "noobj", "norefs"):
        g(["init", "-q", x])
        if kind == "workdet":
            open(dg + "/HEAD", "w").write("1" * 40 + "\n")
        elif kind == "headjunk":
            open(dg + "/HEAD", "w").write("junk\n")
        elif kind == "headbadref":
            open(dg + "/HEAD", "w").write("ref: foo\n")
        elif kind == "noobj":
            shutil.rmtree(dg + "/objects")
        elif kind == "norefs":
            shutil.rmtree(dg + "/refs")
    elif kind == "bare":
        g(["init", "-q", "--bare", x])
    elif kind in ("gitfile", "gitfilerel"):
        g(["init", "-q", "--separate-git-dir", world + "/m/sep", x])
        if kind == "gitfilerel":
            open(dg, "w").write("gitdir: %s\n" % os.path.relpath(world + "/m/sep", x))
    elif kind == "emptydir":
        os.makedirs(dg)
    elif kind == "badfile":
        open(dg, "w").write("junk\n")
    elif kind == "nopath":
        open(dg, "w").write("gitdir: \n")
    elif kind == "dangling":
        open(dg, "w").write("gitdir: %s\n" % (world + "/nonexistent"))
    else:
        raise ToolError("unknown kind " + kind)


def scan(wh, world):
    """read the world back from disk in the specification's vocabulary"""
    out = []

    def pathval(text, base):
        if text.startswith("/"):
            return wh.abstract(world, os.path.normpath(text)), False
        return [c for c in text.split("/") if c], True

    def ent(p, t, k="", to=(), rel=False):
        out.append({"p": wh.abstract(world, p), "t": t, "k": k, "to": list(to), "rel": rel})

    def walk(d):
        ent(d, "dir")
        if os.path.basename(d) in LEAF_DIRS:
            return
        for n in sorted(os.listdir(d)):
            p = d + "/" + n
            if os.path.islink(p):
                ent(p, "link", to=wh.abstract(world, os.path.realpath(p)))
            elif os.path.isdir(p):
                if n not in SKIP_DIRS:
                    walk(p)
            elif n in READ_FILES:
                text = open(p, "rb").read().decode("utf-8", "replace")
                line = text.rstrip("\r\n")
                if n == "HEAD":
                    if line.startswith("ref:") and line[4:].lstrip().startswith("refs/"):
                        ent(p, "file", "ref")
                    elif len(line) == 40 and set(line) <= HEX:
                        ent(p, "file", "oid")
                    elif line.startswith("ref:"):
                        ent(p, "file", "badref")
                    else:
                        ent(p, "file", "junk")
                elif n == ".git":
                    if not line.startswith("gitdir: "):
                        ent(p, "file", "junk")
                    elif not line[8:]:
                        ent(p, "file", "nopath")
                    else:
                        to, rel = pathval(line[8:], d)
                        ent(p, "file", "gitdir", to, rel)
                else:
                    to, rel = pathval(line, d)
                    ent(p, "file", "path", to, rel)
    walk(world)
    return out


def outer_entries(wh):
    ents = [{"p": [], "t": "dir", "k": "", "to": [], "rel": False}, {"p": ["work"], "t": "dir", "k": "", "to": [], "rel": False}]
    if wh.outer_git:
        for p, t, k in (([".git"], "dir", ""), ([".git", "HEAD"], "file", "ref"), ([".git", "objects"], "dir", ""), ([".git", "refs"], "dir", "")):
            ents.append({"p": p, "t": t, "k": k, "to": [], "rel": False})
    return ents


def key(e):
    return json.dumps(e, sort_keys=True)


def render_start(wh, world, q):
    s = q["start"]
    if s["abs"]:
        return wh.real(world, s["comps"])
    return "/".join(s["comps"])


def render_ceil(wh, world, q):
    if not q["ceil"]:
        return None
    items = []
    for it in q["ceil"]:
        if it["k"] == "empty":
            items.append("")
        elif it["k"] == "rel":
            items.append("/".join(it["comps"]))
        else:
            items.append(wh.real(world, it["comps"]) + ("/" if it["trail"] else ""))
    return ":".join(items)


def hcase(wh, world, q):
    return {"cwd": wh.real(world, q["cwd"]), "start": render_start(wh, world, q), "ceil": render_ceil(wh, world, q)}


def observed(wh, world, r):
    """executor result -> (found, gitdir, worktree) in abstract paths"""
    if "got" not in r:
        return None
    o = r["got"]
    if not o["ok"]:
        return {"found": False, "gitdir": NOPATH, "worktree": NOPATH, "err": o["err"]}
    return {"found": True, "gitdir": wh.abstract(world, o["git_dir_abs"]), "worktree": wh.abstract(world, o["work_dir_abs"]),
            "variant": o["variant"], "raw": [o["git_dir"], o["work_dir"]]}


def git_batch(ctx, hcs, jobs=8):
    """`git -C start rev-parse --absolute-git-dir --show-toplevel` for many queries: shell scripts, one git process per query"""
    import shlex
    base = {"GIT_CONFIG_NOSYSTEM": "1", "GIT_CONFIG_GLOBAL": "/dev/null", "HOME": WORK_ROOT, "LC_ALL": "C", "PATH": os.environ.get("PATH", "")}
    tag = len(os.listdir(ctx.work))
    chunks = [list(range(j, len(hcs), jobs)) for j in range(jobs)]
    procs = []
    for j, idx in enumerate(chunks):
        path = os.path.join(ctx.work, "gitbatch-%d-%d.sh" % (tag, j))
        with open(path, "w") as f:
            f.write("unset GIT_DIR GIT_WORK_TREE GIT_CEILING_DIRECTORIES\n")
            for i in idx:
                hc = hcs[i]
                pre = "GIT_CEILING_DIRECTORIES=%s " % shlex.quote(hc["ceil"]) if hc["ceil"] is not None else ""
                f.write("echo '@@ %d'; cd %s && %sgit -C %s rev-parse --absolute-git-dir --show-toplevel 2>&1; echo \"@@rc $?\"\n"
                        % (i, shlex.quote(hc["cwd"]), pre, shlex.quote(hc["start"])))
        procs.append(subprocess.Popen(["sh", path], env=base, stdout=subprocess.PIPE, stderr=subprocess.STDOUT, stdin=subprocess.DEVNULL))
    res = [None] * len(hcs)
    for pr in procs:
        out = pr.communicate()[0].decode("utf-8", "replace")
        for block in out.split("@@ ")[1:]:
            head, _, rest = block.partition("\n")
            body, _, rc = rest.rpartition("@@rc ")
            res[int(head)] = (int(rc.strip()), [l for l in body.split("\n") if l])
    if any(r is None for r in res):
        raise ToolError("git batch lost results")
    return res


def git_parse(wh, world, rc_lines):
    rc, lines = rc_lines
    paths = [l for l in lines if l.startswith("/")]
    err = " ".join(l for l in lines if not l.startswith("/"))
    if rc == 0 and len(paths) == 2 and not err:
        return {"found": True, "gitdir": wh.abstract(world, paths[0]), "worktree": wh.abstract(world, paths[1]), "err": ""}
    if len(paths) == 1 and "must be run in a work tree" in err:
        return {"found": True, "gitdir": wh.abstract(world, paths[0]), "worktree": NOPATH, "err": ""}
    if not paths and err.startswith("fatal:"):
        return {"found": False, "gitdir": NOPATH, "worktree": NOPATH, "err": err}
    raise ToolError("unexpected git rev-parse outcome: rc=%d out=%r" % (rc, lines))


def audit_query(ctx, wh, world, q, hc, o=None):
    if o is None:
        o = git_parse(wh, world, git_batch(ctx, [hc], 1)[0])
    ok = o["found"] == q["found"]
    if ok and q["found"]:
        ok = o["gitdir"] == q["gitdir"] and o["worktree"] == q["git_worktree"]
    if ok and not q["found"]:
        want = q["fatal"] if q["fatal"] else "not a git repository (or any"
        ok = want in o["err"]
    if not ok:
        audit_mismatch(ctx, "Discover vs git rev-parse", {"query": hc, "git": o, "spec": {k: q[k] for k in ("found", "fatal", "how", "gitdir", "git_worktree")}})


def classify(q, o, r=None):
    """stable class of a disagreement, read off the answers of the specification's defective designs"""
    if o is None:
        return ["panic"]
    if o["found"] == q["found"] and o["gitdir"] == q["gitdir"]:
        return ["worktree"]
    got = o["gitdir"]
    if got[:1] == ["!"]:
        return ["reported-git-dir-does-not-exist"]
    for name in ("ceiling_directory_examined", "unusable_gitfile_skipped", "ceiling_and_gitfile", "dotgit_start_skips_level", "lexical_start"):
        if got == q["bugs"][name] and got != q["gitdir"]:
            return [name]
    return ["other"]


def agrees(q, o):
    if o is None:
        return False
    if not q["found"]:
        return not o["found"]
    return o["found"] and o["gitdir"] == q["gitdir"] and o["worktree"] == q["gix_worktree"]


def show_query(wh, world, q):
    hc = hcase(wh, world, q)
    return {k: (v.replace(world, "W") if isinstance(v, str) else v) for k, v in hc.items()}


def build_world(wh, tmpl, world, kp, kq):
    shutil.copytree(tmpl, world, symlinks=True)
    place(world, world + "/p", kp)
    place(world, world + "/p/q", kq)
    os.makedirs(world + "/p/q/s")
    os.symlink("p/q", world + "/lnk")


def check_fs(ctx, wh, world, spec_fs, what):
    want = sorted(key(e) for e in spec_fs if e["p"][:2] == ["work", "w"])
    have = sorted(key(e) for e in scan(wh, world))
    if want != have:
        raise ToolError("materialised world %s differs from the specification's file system: only on disk %s; only in spec %s"
                        % (what, [x for x in have if x not in want][:4], [x for x in want if x not in have][:4]))


def run_gen(ctx, binary, wh, tmpl):
    cases = ctx.tlc_gen("worktree", "Discover_Gen", consts={"TopIsRepo": "TRUE" if wh.outer_git else "FALSE",
                                                            "Wide": "TRUE" if ctx.thorough else "FALSE"}, workers=6, timeout=3000)
    cases.sort(key=lambda c: (c["kp"], c["kq"]))
    worlds = []
    for i, c in enumerate(cases):
        worlds.append(os.path.join(ctx.work, "g%d" % i))

    def mk(i):
        build_world(wh, tmpl, worlds[i], cases[i]["kp"], cases[i]["kq"])
    with concurrent.futures.ThreadPoolExecutor(6) as ex:
        list(ex.map(mk, range(len(cases))))
    for c, w in zip(cases, worlds):
        check_fs(ctx, wh, w, c["fs"], "%s/%s" % (c["kp"], c["kq"]))
    ctx.log("materialised %d worlds with git; read-back equals the specification's file systems" % len(cases))
    flat = []
    for ci, c in enumerate(cases):
        c["queries"].sort(key=key)
        for q in c["queries"]:
            flat.append((ci, q, hcase(wh, worlds[ci], q)))
    results = ctx.harness(binary, [hc for _, _, hc in flat], timeout=3000)
    ctx.log("executed %d queries" % len(flat))

    # binding C
    # (process creation is slow here: the audit takes a stride through the sorted queries)
    want = 6000 if ctx.thorough else 350
    every = max(1, len(flat) // want)
    sel = [x for i, x in enumerate(flat) if i % every == 0]

    for x, rl in zip(sel, git_batch(ctx, [x[2] for x in sel])):
        audit_query(ctx, wh, worlds[x[0]], x[1], x[2], git_parse(wh, worlds[x[0]], rl))
    ctx.log("audit: git rev-parse agreed with the specification on %d queries" % len(sel))
    ctx.cov["git_audited"] = len(sel)

    bad = {}
    for (ci, q, hc), r in zip(flat, results):
        o = observed(wh, worlds[ci], r)
        c = cases[ci]
        if q["ceil"] or q["fatal"] or q["how"] in ("gitfile", "self") or q["start"]["comps"][-1:] == [".."] or "lnk" in q["start"]["comps"]:
            ctx.nontrivial(key([c["kp"], c["kq"], q["cwd"], q["start"], q["ceil"]]))
        if not agrees(q, o):
            cl = classify(q, o)
            rec = {"kind": "gen", "classes": cl, "case": {"kp": c["kp"], "kq": c["kq"], "query": q},
                   "shown": show_query(wh, worlds[ci], q), "observed": o, "panic": re.sub(r"/verif/\.work/[^/]+/[^/]+", "W", r.get("panic", ""))[:160],
                   "expected": {k: q[k] for k in ("found", "fatal", "gitdir", "gix_worktree")}}
            bad.setdefault(tuple(cl), []).append(rec)
    # one (smallest) record per class first, so that every distinct disagreement is reported
    for cl in sorted(bad):
        recs = sorted(bad[cl], key=lambda r: (len(key(r["case"])), key(r["case"])))
        ctx.log("DISAGREEMENT class %s: %d queries, e.g. %s -> %s" % (list(cl), len(recs), recs[0]["shown"], recs[0]["observed"]))
        for rec in recs[:1]:
            ctx.violation(dict(rec, count=len(recs)))
    for cl in sorted(bad):
        for rec in sorted(bad[cl], key=lambda r: (len(key(r["case"])), key(r["case"])))[1:3]:
            ctx.violation(rec)
    mid = flat[len(flat) // 2]
    ctx.sample({"world": [cases[mid[0]]["kp"], cases[mid[0]]["kq"]], "query": show_query(wh, worlds[mid[0]], mid[1]),
                "spec": {k: mid[1][k] for k in ("found", "fatal", "how", "gitdir", "git_worktree", "gix_worktree")}})
    return len(cases), len(flat)


# ----------------------------------------------------------------------------- binding B
RKINDS = ["plain"] * 6 + ["work", "work", "bare", "gitfile", "gitfilerel", "linked", "linked", "emptydir", "badfile", "headjunk",
                          "workdet", "headbadref", "noobj", "norefs", "nopath", "dangling"]


def random_recipe(rng):
    """a world as data: [[relative dir, kind]..] in creation order and [[link name, relative target]..]"""
    dirs = [""]
    depth = {"": 0}
    places = []
    for i in range(rng.randint(3, 8)):
        par = rng.choice([d for d in dirs if depth[d] < 4])
        x = "%s/%s%d%s" % (par, rng.choice("abc"), i, rng.choice(["", "", ".git"]))
        places.append([x, rng.choice(RKINDS)])
        dirs.append(x)
        depth[x] = depth[par] + 1
    links = [["l%d" % i, rng.choice(dirs[1:])[1:]] for i in range(rng.randint(0, 2))]
    return {"places": places, "links": links}


def build_recipe(tmpl, world, recipe):
    shutil.copytree(tmpl, world, symlinks=True)
    for x, kind in recipe["places"]:
        place(world, world + x, kind)
    for name, target in recipe["links"]:
        os.symlink(target, world + "/" + name)


def random_queries(ctx, wh, world, fs, n):
    rng = ctx.rng
    W = ["work", "w"]
    dirs = [e["p"] for e in fs if e["t"] == "dir" and e["p"][:2] == W]
    links = [e for e in fs if e["t"] == "link"]
    qs = []
    for _ in range(n):
        d = rng.choice(dirs)
        form = rng.choice(["abs", "abs", "dot", "rel", "dotdot", "absdotdot", "link"])
        kids = [x for x in dirs if x[:-1] == d]
        via = [l for l in links if d[:len(l["to"])] == l["to"]]
        if form == "dot":
            cwd, start = d, {"abs": False, "comps": ["."]}
        elif form == "rel" and len(d) > 2:
            cwd, start = W, {"abs": False, "comps": d[2:]}
        elif form == "dotdot" and kids:
            cwd, start = rng.choice(kids), {"abs": False, "comps": [".."]}
        elif form == "absdotdot" and kids:
            cwd, start = W, {"abs": True, "comps": rng.choice(kids) + [".."]}
        elif form == "link" and via:
            l = rng.choice(via)
            tail = d[len(l["to"]):]
            cwd, start = W, {"abs": True, "comps": l["p"] + tail + rng.choice([[], [], [".."]])}
        else:
            cwd, start = W, {"abs": True, "comps": d}
        ceil = []
        for _ in range(rng.choice([0, 1, 1, 1, 2, 3])):
            k = rng.choice(["abs"] * 6 + ["rel", "empty", "empty"])
            if k == "abs":
                if links and rng.random() < 0.2:
                    c = rng.choice(links)["p"]
                elif rng.random() < 0.7:
                    anc = rng.choice(dirs + [d, d, d])
                    c = anc[:rng.randint(0, len(anc))] if rng.random() < 0.5 else anc
                else:
                    c = rng.choice(dirs)
                if len(c) < 1:
                    c = ["work"]
                ceil.append({"k": "abs", "comps": c, "trail": rng.random() < 0.2})
            elif k == "rel":
                ceil.append({"k": "rel", "comps": rng.choice(dirs)[2:] or ["x"], "trail": False})
            else:
                ceil.append({"k": "empty", "comps": [], "trail": False})
        qs.append({"cwd": cwd, "start": start, "ceil": ceil})
    return qs


def run_random(ctx, binary, wh, tmpl, nworlds, nq):
    worlds, fss, queries, recipes = [], [], [], []
    for i in range(nworlds):
        w = os.path.join(ctx.work, "r%d" % i)
        recipes.append(random_recipe(ctx.rng))
        build_recipe(tmpl, w, recipes[-1])
        fs = outer_entries(wh) + scan(wh, w)
        worlds.append(w)
        fss.append(fs)
        queries.append(random_queries(ctx, wh, w, fs, nq))
    flat = [(wi, q, hcase(wh, worlds[wi], q)) for wi in range(nworlds) for q in queries[wi]]
    results = ctx.harness(binary, [hc for _, _, hc in flat], timeout=3000)
    gits = [git_parse(wh, worlds[x[0]], rl) for x, rl in zip(flat, git_batch(ctx, [x[2] for x in flat]))]

    def events(obs, per_query=False, only=None):
        evs, owner = [], []
        per = {}
        for k, ((wi, q, hc), o) in enumerate(zip(flat, obs)):
            if only is not None and wi not in only:
                continue
            per.setdefault(wi, []).append((k, dict(q, found=o["found"], gitdir=o["gitdir"], worktree=o["worktree"])))
        for wi in sorted(per):
            if per_query:
                for k, qq in per[wi]:
                    evs.append({"fs": fss[wi], "queries": [qq]})
                    owner.append(k)
            else:
                evs.append({"fs": fss[wi], "queries": [qq for _, qq in per[wi]]})
                owner.append(wi)
        return evs, owner

    # binding C through the trace module
    evs, owner = events(gits)
    rej = ctx.tlc_trace("worktree", "Discover_Trace", evs, consts={"Who": '"git"'})
    if rej:
        evs2, own2 = events(gits, per_query=True, only={owner[rej[0]]})
        r2 = ctx.tlc_trace("worktree", "Discover_Trace", evs2, consts={"Who": '"git"'})
        k = own2[r2[0]] if r2 else None
        audit_mismatch(ctx, "Discover_Trace (git) on a random world", {"query": flat[k][2] if k is not None else None,
                                                                        "git": gits[k] if k is not None else None, "world": worlds[owner[rej[0]]]})
    ctx.cov["git_audited"] = ctx.cov.get("git_audited", 0) + len(flat)

    obs = []
    for (wi, q, hc), r in zip(flat, results):
        o = observed(wh, worlds[wi], r)
        if o is None:
            o = {"found": True, "gitdir": ["!", "panic"], "worktree": NOPATH, "panic": r.get("panic", str(r))[:160]}
        obs.append(o)
    evs, owner = events(obs)
    rej = ctx.tlc_trace("worktree", "Discover_Trace", evs, consts={"Who": '"gix"'})
    if rej:
        bad_worlds = {owner[i] for i in rej}
        evs2, own2 = events(obs, per_query=True, only=set(sorted(bad_worlds)[:40]))
        r2 = ctx.tlc_trace("worktree", "Discover_Trace", evs2, consts={"Who": '"gix"'})
        # classification by the specification's defective designs: which switch explains the observation
        expl = {}
        for name, sw in (("ceiling_directory_examined", {"BugIncl": "TRUE"}), ("unusable_gitfile_skipped", {"BugSkip": "TRUE"}),
                         ("ceiling_and_gitfile", {"BugIncl": "TRUE", "BugSkip": "TRUE"}),
                         ("dotgit_start_skips_level", {"BugIncl": "TRUE", "BugSkip": "TRUE", "BugDotGit": "TRUE"})):
            sub = [evs2[i] for i in r2]
            rr = set(ctx.tlc_trace("worktree", "Discover_Trace", sub, consts=dict({"Who": '"gix"'}, **sw))) if sub else set()
            for j, i in enumerate(r2):
                if j not in rr and i not in expl:
                    expl[i] = [name]
        seen = {}
        for i in r2:
            k = own2[i]
            wi, q, hc = flat[k]
            cl = ["panic"] if "panic" in obs[k] else ["reported-git-dir-does-not-exist"] if obs[k]["gitdir"][:1] == ["!"] else expl.get(i, ["other"])
            rec = {"kind": "random", "classes": cl, "case": {"recipe": recipes[wi], "query": q},
                   "shown": {a: (b.replace(worlds[wi], "W") if isinstance(b, str) else b) for a, b in hc.items()},
                   "observed": obs[k], "git": gits[k]}
            seen.setdefault(tuple(cl), []).append(rec)
        for cl in sorted(seen):
            ctx.log("DISAGREEMENT (random worlds) class %s: %d queries" % (list(cl), len(seen[cl])))
            ctx.violation(dict(min(seen[cl], key=lambda r: len(key(r["case"]))), count=len(seen[cl])))
    for (wi, q, hc), o in zip(flat, gits):
        if q["ceil"] or not o["found"] or o["worktree"] == NOPATH:
            ctx.nontrivial(key([fss[wi], q]))
    return nworlds, len(flat)


def run(ctx):
    binary = ctx.build("vh-c50")
    wh = Where(ctx)
    tmpl = make_template(ctx)
    nw, nq = run_gen(ctx, binary, wh, tmpl)
    rw, rq = run_random(ctx, binary, wh, tmpl, 16 if not ctx.thorough else 300, 12 if not ctx.thorough else 20)
    ctx.cov["exhaustive"] = True
    ctx.cov["rule"] = ("A: %d worlds (kind at p x kind at q over the %s kind alphabet) x every start directory x spellings x ceiling lists = %d "
                       "queries, exhaustive for Discover_Gen; B: %d seeded random worlds with %d queries judged by Discover_Trace. "
                       "Non-trivial = a ceiling list is given, or git's answer is fatal / via a .git file / from inside a git dir, or the "
                       "start is spelled through '..' or a symlink; distinct by (world, cwd, start, ceiling)."
                       % (nw, "wide" if ctx.thorough else "quick", nq, rw, rq))
    ctx.assumptions += ["git 2.39.5 rev-parse --absolute-git-dir/--show-toplevel is the reference for the transcription (audited on every run)",
                        "a git dir found from inside itself is judged on the git dir and on gix-discover's documented work tree (GixWorktree)",
                        "single file system, single owner: device boundaries and ownership checks are not exercised",
                        "the scratch area's enclosing repository (if any) is part of the abstract world (TopIsRepo)"]


def replay(ctx, rec):
    binary = ctx.build("vh-c50")
    wh = Where(ctx)
    tmpl = make_template(ctx)
    c = rec["case"]
    if rec.get("kind") == "gen":
        cases = ctx.tlc_gen("worktree", "Discover_Gen", consts={"TopIsRepo": "TRUE" if wh.outer_git else "FALSE", "Wide": "TRUE"}, workers=6, timeout=3000)
        world = os.path.join(ctx.work, "g0")
        build_world(wh, tmpl, world, c["kp"], c["kq"])
        qk = {k: c["query"][k] for k in ("cwd", "start", "ceil")}
        for w in cases:
            if (w["kp"], w["kq"]) != (c["kp"], c["kq"]):
                continue
            check_fs(ctx, wh, world, w["fs"], "replay")
            for q in w["queries"]:
                if {k: q[k] for k in ("cwd", "start", "ceil")} == qk:
                    hc = hcase(wh, world, q)
                    audit_query(ctx, wh, world, q, hc)
                    o = observed(wh, world, ctx.harness(binary, [hc])[0])
                    if not agrees(q, o):
                        ctx.violation({"kind": "gen", "classes": classify(q, o), "case": c, "shown": show_query(wh, world, q), "observed": o})
                    return
        raise ToolError("replay: query not generated under the current scratch location")
    world = os.path.join(ctx.work, "r0")
    build_recipe(tmpl, world, c["recipe"])
    fs = outer_entries(wh) + scan(wh, world)
    q = c["query"]
    hc = hcase(wh, world, q)
    o = observed(wh, world, ctx.harness(binary, [hc])[0])
    gi = git_parse(wh, world, git_batch(ctx, [hc], 1)[0])
    ev = lambda x: [{"fs": fs, "queries": [dict(q, found=x["found"], gitdir=x["gitdir"], worktree=x["worktree"])]}]
    if ctx.tlc_trace("worktree", "Discover_Trace", ev(gi), consts={"Who": '"git"'}):
        audit_mismatch(ctx, "Discover_Trace (git) on replay", {"query": hc, "git": gi})
    if o is None or ctx.tlc_trace("worktree", "Discover_Trace", ev(o), consts={"Who": '"gix"'}):
        ctx.violation({"kind": "random", "classes": rec.get("classes", ["other"]), "case": c, "observed": o, "git": gi})
