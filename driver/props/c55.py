"""C55 - Worktree streams and archives contain exactly the tree.

spec/worktree/Stream.tla     Leaves / Flatten(tree), StreamOk (decoded entries = Flatten(tree) each once, then the
                             additional entries in order), Members / ArchiveOk (archive = function of the entry list), GitFiles
spec/worktree/Stream_MC.tla  PlusCal model of the pipe protocol (producer thread: header, path, known-length payload or
                             u16-prefixed chunks + terminator, bounded pipe, additional-entry channel; consumer: next_entry,
                             Entry::read with every buffer size, direct or re-read over arbitrarily short reads); TLC checks
                             decoded = produced for every interleaving and split of reads, no desync, termination
 A: Stream_Gen enumerates trees of <= MaxEntries leaves out of 13 slots x additional-entry variants with the spec's
    Leaves / Flatten / Members; the trees are built with git (hash-object, mktree) and replayed through
    gix_worktree_stream::from_tree (+ add_entry), gix_archive::write_stream (tar) and write_stream_seek (zip).
 B: the same plus seeded random trees (deeper nesting, long names, sizes around 65535): every run is one event judged by
    Stream_Trace (TLC). Contents are compared by git blob id (SHA-1 evaluator: hashlib, cross-checked with git hash-object).
 C: (mode "audit" events of Stream_Trace) `git ls-tree -r` = Leaves(tree) and the files/symlinks of `git archive` = GitFiles(tree), on every tree.
"""
import io
import stat
import tarfile
import zipfile
from vf import *

LEVEL = "model_checking"
META = {
    "technique": "PlusCal/TLA+ model of the producer/consumer pipe protocol model-checked by TLC (safety + termination, self-test of the "
                 "zero-length-read slip); TLC-enumerated and seeded random git-made trees replayed through from_tree / gix-archive; "
                 "decoded entries and archive members judged by a TLC trace module; specification audited against git ls-tree and git archive",
    "note": "identity filter pipeline and no attributes (export-ignore, eol/ident/driver filters are not exercised); "
            "tar.gz not exercised; archive comparison covers member name, type, executable bit and content, not timestamps/owner; "
            "git archive's directory members (and the empty directory it emits for a submodule) are not compared.",
}
MODES = {"blob": "100644", "exe": "100755", "link": "120000", "commit": "160000", "tree": "040000"}
NULL = "0" * 40
SUBMODULE = "1234567890" * 4
EMPTY_TREE = "4b825dc642cb6eb9a060e54bf8d69288fbee4904"


def blob_oid(data):
    return hashlib.sha1(b"blob %d\x00" % len(data) + data).hexdigest()


class World:
    def __init__(self, ctx, seed):
        self.ctx, self.seed = ctx, seed
        self.repo = os.path.join(ctx.work, "repo-%d" % seed)
        self.blobs = os.path.join(ctx.work, "blobs-%d" % seed)
        os.makedirs(self.blobs, exist_ok=True)
        if not os.path.exists(self.repo):
            git(["init", "-q", self.repo], check=True)
            git(["-c", "core.fsync=none", "hash-object", "-t", "tree", "-w", "/dev/null"], cwd=self.repo, check=True, input=b"")
        self.cid = {"": {"oid": "", "len": 0, "file": ""}, "sub": {"oid": SUBMODULE, "len": 0, "file": ""}}

    def content(self, cid, n):
        r = random.Random("%d:%s" % (self.seed, cid))
        if cid.startswith("t"):
            # a normalised relative path (no `.` components, no doubled or trailing slashes): the tar writer
            # normalises link targets (Path::components), which is not judged here
            up = b"../" if n >= 6 and r.random() < 0.5 else b""
            t = bytearray(r.choice(b"abcdefgh") for _ in range(n - len(up)))
            for i in range(3, len(t) - 1, 5):
                t[i] = 0x2f
            return up + bytes(t)
        return r.randbytes(n)

    def ensure(self, wanted):
        """wanted: {cid: len}; writes the contents as blobs in one git call"""
        new = [(c, n) for c, n in sorted(wanted.items()) if c not in self.cid]
        if not new:
            return
        paths = []
        for c, n in new:
            p = os.path.join(self.blobs, c)
            data = self.content(c, n)
            with open(p, "wb") as f:
                f.write(data)
            paths.append(p)
            self.cid[c] = {"oid": blob_oid(data), "len": len(data), "file": p}
        out = git(["-c", "core.fsync=none", "hash-object", "-w", "--stdin-paths"], cwd=self.repo, input=("\n".join(paths) + "\n").encode(), check=True)
        oids = out.stdout.decode().split()
        for (c, n), o in zip(new, oids):
            if self.cid[c]["oid"] != o:
                raise ToolError("SHA-1 evaluator disagrees with git hash-object on %s" % c)

    def build_trees(self, roots):
        """roots: list of node lists (oids substituted). Returns root tree ids; one `git mktree --batch` per height."""
        levels = {}

        def height(nodes, holder):
            h = 0
            for n in nodes:
                if n["kind"] == "tree":
                    h = max(h, 1 + height(n["sub"], n))
            levels.setdefault(h, []).append((nodes, holder))
            return h
        holders = [{"oid": None} for _ in roots]
        for nodes, hd in zip(roots, holders):
            height(nodes, hd)
        for h in sorted(levels):
            batch, targets = [], []
            for nodes, holder in levels[h]:
                if not nodes:
                    holder["oid"] = EMPTY_TREE
                    continue
                lines = "".join("%s %s %s\t%s\n" % (MODES[n["kind"]], "tree" if n["kind"] == "tree" else "commit" if n["kind"] == "commit" else "blob",
                                                    n["oid"], n["name"]) for n in nodes)
                batch.append(lines)
                targets.append(holder)
            if not batch:
                continue
            out = git(["-c", "core.fsync=none", "mktree", "--batch", "--missing"], cwd=self.repo, input=("\n".join(batch) + "\n").encode(), check=True, timeout=600)
            ids = out.stdout.decode().split()
            if len(ids) != len(targets):
                raise ToolError("git mktree --batch returned %d ids for %d trees" % (len(ids), len(targets)))
            for hd, o in zip(targets, ids):
                hd["oid"] = o
        return [hd["oid"] for hd in holders]


def cids_of(nodes, acc):
    for n in nodes:
        if n["kind"] == "tree":
            cids_of(n["sub"], acc)
        elif n["kind"] != "commit":
            acc[n["oid"]] = n["len"]


def subst(obj, w):
    """replace content ids by git blob ids in every record that has an `oid` field"""
    if isinstance(obj, list):
        return [subst(x, w) for x in obj]
    if isinstance(obj, dict):
        d = {k: subst(v, w) for k, v in obj.items()}
        if "oid" in d and d["oid"] in w.cid and d.get("kind") != "tree":
            d["oid"] = w.cid[d["oid"]]["oid"]
        return d
    return obj


def random_tree(r, depth, counter, budget):
    names = ["a", "a.b", "a-b", "ab", "D", "d", "file with space", "été", "z" * 120, "Makefile", "x.sh", "l", "n", "sub"]
    r.shuffle(names)
    nodes = []
    for name in names[:r.randint(0, 5 if depth else 6)]:
        if budget[0] <= 0:
            break
        c = r.random()
        if c < 0.22 and depth < 4:
            nodes.append({"name": name, "kind": "tree", "oid": "", "len": 0, "sub": random_tree(r, depth + 1, counter, budget)})
            continue
        budget[0] -= 1
        if c < 0.3:
            nodes.append({"name": name, "kind": "commit", "oid": "sub", "len": 0, "sub": []})
            continue
        kind = "link" if c < 0.42 else "exe" if c < 0.55 else "blob"
        n = r.choice([0, 1, 2, 40, 4096, 65534, 65535, 65536, 65537, 131070, 131071, r.randint(0, 300000)]) if kind != "link" else r.randint(1, 60)
        counter[0] += 1
        cid = ("t" if kind == "link" else "r") + "%d_%d" % (counter[0] % 23, n)     # some contents repeat
        nodes.append({"name": name, "kind": kind, "oid": cid, "len": n, "sub": []})
    # git's tree order (mktree sorts anyway; the audit compares sequences)
    nodes.sort(key=lambda n: (n["name"] + ("/" if n["kind"] == "tree" else "")).encode())
    return nodes


def random_extras(r, counter):
    out = []
    for k in range(r.choice([0, 0, 1, 2, 4])):
        kind = r.choice(["blob", "blob", "exe", "link", "tree", "commit"])
        path = r.choice(["extra%d" % k, "dir/extra%d" % k, "y" * 130 + "/e%d" % k])   # distinct from each other and from tree paths
        if kind in ("tree", "commit"):
            out.append({"path": path, "kind": kind, "oid": "", "len": 0, "id": "null", "src": "null"})
            continue
        n = r.randint(1, 40) if kind == "link" else r.choice([0, 3, 65535, 65536, 65537, 200000, r.randint(0, 100000)])
        counter[0] += 1
        cid = ("t" if kind == "link" else "r") + "%d_%d" % (counter[0] % 23, n)
        out.append({"path": path, "kind": kind, "oid": cid, "len": n, "id": r.choice(["null", "oid"]),
                    "src": "mem" if kind == "link" else r.choice(["mem", "path"])})
    return out


def read_tar(data, files_only=False):
    out = []
    with tarfile.open(fileobj=io.BytesIO(data), mode="r:") as tf:
        for m in tf:
            name = m.name.rstrip("/")
            if m.isreg():
                c = tf.extractfile(m).read()
                out.append({"name": name, "type": "file", "exec": bool(m.mode & 0o100), "oid": blob_oid(c), "len": len(c)})
            elif m.issym():
                c = m.linkname.encode("utf-8", "surrogateescape")
                out.append({"name": name, "type": "symlink", "exec": False, "oid": blob_oid(c), "len": len(c)})
            elif m.isdir():
                if not files_only:
                    out.append({"name": name, "type": "dir", "exec": False, "oid": "", "len": 0})
            elif m.type == tarfile.XGLTYPE:
                continue
            else:
                out.append({"name": name, "type": "other-%r" % m.type, "exec": False, "oid": "", "len": 0})
    return out


def read_zip(data):
    out = []
    with zipfile.ZipFile(io.BytesIO(data)) as zf:
        for zi in zf.infolist():
            mode = zi.external_attr >> 16
            if zi.filename.endswith("/"):
                out.append({"name": zi.filename.rstrip("/"), "type": "dir", "exec": False, "oid": "", "len": 0})
                continue
            c = zf.read(zi)
            if stat.S_ISLNK(mode):
                out.append({"name": zi.filename, "type": "symlink", "exec": False, "oid": blob_oid(c), "len": len(c)})
            else:
                out.append({"name": zi.filename, "type": "file", "exec": bool(mode & 0o100), "oid": blob_oid(c), "len": len(c)})
    return out


def git_view(w, tree, cache):
    if tree in cache:
        return cache[tree]
    p = git(["ls-tree", "-r", "-z", tree], cwd=w.repo, check=True)
    leaves = []
    for rec in p.stdout.split(b"\x00"):
        if not rec:
            continue
        meta, path = rec.split(b"\t", 1)
        mode, typ, oid = meta.decode().split()
        kind = {"100644": "blob", "100755": "exe", "120000": "link", "160000": "commit"}[mode]
        leaves.append({"path": path.decode(), "kind": kind, "oid": oid, "len": None})
    a = git(["-c", "tar.umask=0022", "archive", "--format=tar", tree], cwd=w.repo, check=True)
    files = read_tar(a.stdout, files_only=True)
    cache[tree] = (leaves, files)
    return cache[tree]


def prepare(ctx, w, worlds):
    """worlds: list of {tree (cids), extras (cids), prefix, ...}. Materialises, returns harness cases."""
    want = {}
    for x in worlds:
        x["orig"] = json.loads(json.dumps({k: x[k] for k in ("tree", "extras", "prefix")}))
        cids_of(x["tree"], want)
        for e in x["extras"]:
            if e["oid"]:
                want[e["oid"]] = e["len"]
    w.ensure(want)
    for x in worlds:
        x["files"] = {e["path"]: w.cid[e["oid"]]["file"] for e in x["extras"]}
        x["extras"] = [dict(e, id=(NULL if e["id"] == "null" or not e["oid"] else w.cid[e["oid"]]["oid"])) for e in x["extras"]]
        for k in ("tree", "extras", "leaves", "flat", "members", "gitfiles"):
            if k in x:
                x[k] = subst(x[k], w)
    ids = w.build_trees([x["tree"] for x in worlds])
    cases = []
    for i, (x, t) in enumerate(zip(worlds, ids)):
        x["tree_id"] = t
        cases.append({"objects": os.path.join(w.repo, ".git", "objects"), "tree": t, "prefix": x["prefix"], "reads": x["reads"], "via": x["via"],
                      "src_reads": x["src_reads"],
                      "extras": [{"path": e["path"], "kind": e["kind"], "id": e["id"], "src": e["src"], "file": x["files"][e["path"]]} for e in x["extras"]],
                      "out": os.path.join(ctx.work, "o%d" % i)})
    return cases


def observe(ctx, w, x, case, res, cache):
    """trace event of one run, or a crash record"""
    if "got" not in res:
        return None, {"kind": "crash", "classes": ["crash"] + (["zero-read"] if 0 in x["reads"] else []), "result": res,
                      "what": "stream/archive panicked, hung or aborted"}
    g = res["got"]
    blob = open(case["out"] + ".entries", "rb").read()
    got, pos = [], 0
    for e in g["entries"]:
        c = blob[pos:pos + e["len"]]
        pos += e["len"]
        got.append({"path": e["path"], "kind": e["kind"], "id": e["id"], "oid": blob_oid(c) if e["kind"] in ("blob", "exe", "link") else "",
                    "len": e["len"], "declared": e["declared"]})
    errs = {k: g[k] for k in ("stream_err", "tar_err", "zip_err") if k in g}
    try:
        tar = read_tar(open(case["out"] + ".tar", "rb").read())
    except Exception as ex:          # unreadable archive: an observation, judged (and rejected) by the spec
        tar, errs["tar_unreadable"] = [], repr(ex)
    try:
        zp = read_zip(open(case["out"] + ".zip", "rb").read())
    except Exception as ex:
        zp, errs["zip_unreadable"] = [], repr(ex)
    for suf in (".entries", ".tar", ".zip"):
        os.remove(case["out"] + suf)
    leaves, files = git_view(w, x["tree_id"], cache)
    lens = {}

    def walk(nodes):
        for n in nodes:
            if n["kind"] == "tree":
                walk(n["sub"])
            elif n["kind"] != "commit":
                lens[n["oid"]] = n["len"]
    walk(x["tree"])
    gl = [dict(l, len=(0 if l["kind"] == "commit" else lens.get(l["oid"], -1))) for l in leaves]
    ev = {"tree": x["tree"], "extras": [{k: e[k] for k in ("path", "kind", "oid", "len", "id", "src")} for e in x["extras"]],
          "prefix": x["prefix"], "got": got, "tar": tar, "zip": zp, "git_leaves": gl, "git_files": files}
    return (ev, errs), None


def hints(x, ev, errs):
    """non-authoritative classification of a rejected run for the report / known-finding matching (the verdict is TLC's)"""
    out = []
    if 0 in x["reads"]:
        out.append("zero-read")
    if errs:
        out += sorted(errs)
    key = lambda m: (m["name"], m["type"], m["exec"])
    if sorted(map(key, ev["tar"])) == sorted(map(key, ev["zip"])):
        t = {key(m): m for m in ev["tar"]}
        diff = [m for m in ev["zip"] if (m["oid"], m["len"]) != (t[key(m)]["oid"], t[key(m)]["len"])]
        if diff and all(m["type"] == "symlink" for m in diff):
            out.append("zip-symlink-target")
    return out or ["mismatch"]


def strip_case(x):
    """the replayable description of a run: the world in content ids (before substitution) + the read plan"""
    return dict(x.get("orig", {}), **{k: x[k] for k in ("reads", "via", "src_reads", "origin", "seed") if k in x})


def run_worlds(ctx, binary, w, worlds, audit_limit=None):
    cases = prepare(ctx, w, worlds)
    ctx.log("materialised %d runs (%d contents)" % (len(cases), len(w.cid)))
    results = ctx.harness(binary, cases, timeout=900, max_failures=5)
    ctx.log("executed")
    cache = {}
    events, owners, errlist = [], [], []
    for x, c, r in zip(worlds, cases, results):
        if r.get("skipped"):
            continue
        obs, crash = observe(ctx, w, x, c, r, cache)
        if crash:
            ctx.violation(dict(crash, case=strip_case(x)))
            continue
        events.append(obs[0])
        errlist.append(obs[1])
        owners.append(x)
    # one TLC run: the first half of the trace audits the specification against git (binding C),
    # the second half judges the implementation (binding B)
    n = len(events)
    bad = ctx.tlc_trace("worktree", "Stream_Trace", [dict(e, mode="audit") for e in events] + [dict(e, mode="impl") for e in events])
    if bad and bad[0] < n:
        e = events[bad[0]]
        audit_mismatch(ctx, "Stream (Leaves / GitFiles)", {"tree": e["tree"], "git_leaves": e["git_leaves"], "git_files": e["git_files"]})
    for bi in [b - n for b in bad]:
        x, e = owners[bi], events[bi]
        ctx.violation({"kind": "trace", "case": strip_case(x), "classes": hints(x, e, errlist[bi]), "errors": errlist[bi],
                       "got": e["got"], "tar": e["tar"], "zip": e["zip"], "what": "run rejected by Stream_Trace"})
    return events, owners


def read_plan(r, zero=False):
    reads = [r.choice([1, 2, 7, 100, 4096, 65535, 65536, 100000]) for _ in range(r.randint(1, 3))]
    if zero:
        reads.insert(r.randint(0, len(reads)), 0)
    return {"reads": reads, "via": r.choice(["direct", "direct", "reread"]),
            "src_reads": [r.choice([1, 2, 3, 17, 4096, 70000]) for _ in range(r.randint(1, 3))]}


def run(ctx):
    binary = ctx.build("vh-c55")
    # ---- the protocol model
    cover = ["p1", "p2", "p3", "p4", "p5", "p6", "n0", "n3", "e0", "e1", "f1", "f2", "f3", "d0"]
    if ctx.thorough:
        ctx.tlc_mc("worktree", "Stream_MC", consts={"ReadSizes": "{1, 2, 3}", "Cap": 2}, workers=6, must_cover=cover)
        ctx.tlc_mc("worktree", "Stream_MC", consts={"ReadSizes": "{1, 3}", "Cap": 1, "Reread": "TRUE"}, workers=6, must_cover=cover)
        ctx.tlc_mc("worktree", "Stream_MC", consts={"ReadSizes": "{1, 3}", "Cap": 1, "AllowZeroReads": "TRUE"}, workers=6,
                   expect_violation="DecodedPrefix", coverage=False)
        ctx.tlc_mc("worktree", "Stream_MC", consts={"ReadSizes": "{1, 3}", "Cap": 1, "AllowZeroReads": "TRUE", "ZeroReadEnds": "FALSE"}, workers=6,
                   coverage=False)
    else:
        ctx.tlc_mc("worktree", "Stream_MC", consts={"ReadSizes": "{1, 3}", "Cap": 1}, workers=6, must_cover=cover)
    ctx.cov["exhaustive"] = True

    w = World(ctx, ctx.seed)
    # ---- binding A: enumerated trees
    gen = ctx.tlc_gen("worktree", "Stream_Gen", consts={"MaxEntries": 2 if not ctx.thorough else 4}, workers=4)
    gen.sort(key=lambda c: json.dumps(c, sort_keys=True))
    if ctx.thorough:
        gen = [c for c in gen if ctx.rng.random() < 0.6]
    worlds = []
    for c in gen:
        x = dict(c, origin="gen", seed=ctx.seed, **read_plan(ctx.rng))
        worlds.append(x)
    # ---- binding B: random trees
    counter = [0]
    for i in range(30 if not ctx.thorough else 500):
        tree = random_tree(ctx.rng, 0, counter, [ctx.rng.choice([3, 8, 20, 40])])
        worlds.append(dict(tree=tree, extras=random_extras(ctx.rng, counter), prefix=ctx.rng.choice(["", "p/", "pre/fix/"]), origin="rand", seed=ctx.seed,
                           **read_plan(ctx.rng)))
    # zero-length reads are legal for std::io::Read; a few runs include them (own class)
    for i in range(6 if not ctx.thorough else 40):
        src = ctx.rng.choice(worlds)
        worlds.append(dict({k: json.loads(json.dumps(v)) for k, v in src.items() if k in ("tree", "extras", "prefix")}, origin="zero", seed=ctx.seed,
                           **read_plan(ctx.rng, zero=True)))
    events, owners = run_worlds(ctx, binary, w, worlds)
    # A: the values the generator printed (after substitution of blob ids), compared as data
    for x, e in zip(owners, events):
        if x["origin"] != "gen":
            continue
        key = lambda m: json.dumps(m, sort_keys=True)
        nt = len(x["flat"])
        ok = (sorted(map(key, [{k: g[k] for k in ("path", "kind", "oid", "len")} for g in e["got"][:nt]])) == sorted(map(key, x["flat"]))
              and sorted(map(key, e["tar"])) == sorted(map(key, x["members"])) and sorted(map(key, e["zip"])) == sorted(map(key, x["members"])))
        if e["git_leaves"] != x["leaves"] or e["git_files"] != x["gitfiles"]:
            audit_mismatch(ctx, "Stream_Gen", {"tree": x["tree"], "git_leaves": e["git_leaves"], "leaves": x["leaves"]})
        if not ok:
            ctx.violation({"kind": "gen", "case": strip_case(x), "classes": hints(x, e, {}), "got": e["got"], "tar": e["tar"], "zip": e["zip"],
                           "what": "entries / members differ from Stream_Gen's expectation"})
    for x, e in zip(owners, events):
        leaves = e["git_leaves"]
        if len(leaves) >= 2 or x["extras"]:
            ctx.nontrivial(json.dumps([x["tree_id"], x["extras"], x["prefix"], x["reads"], x["via"]], sort_keys=True))
    classes = {}
    for v in ctx.violations + [rec for _f, rec in ctx.known_hits.values()]:
        k = "+".join(v.get("classes", []))
        classes[k] = classes.get(k, 0) + 1
    ctx.cov["violation_classes"] = classes
    ctx.cov["trees"] = len({x["tree_id"] for x in owners})
    ctx.cov["git_audited"] = ctx.cov["trees"]
    ctx.cov["largest_tree_leaves"] = max(len(e["git_leaves"]) for e in events) if events else 0
    if events:
        k = len(gen) // 2
        ctx.sample({"tree": owners[k]["orig"]["tree"], "extras": owners[k]["orig"]["extras"], "got": events[k]["got"]})
        ctx.sample({"random_tree_leaves": [l["path"] for l in events[-8]["git_leaves"]][:12], "extras": [e["path"] for e in events[-8]["extras"]]})
    ctx.cov["rule"] = ("Model: every interleaving/chunking/read split of the pipe protocol for <= 2 entries (TLC). A: every tree of <= %d leaves out of 13 "
                       "slots x 4 additional-entry/prefix variants%s; B: seeded random trees (depth <= 4, <= 40 leaves, sizes around 65535/65536, long "
                       "names) with random extras; each with seeded Entry::read buffer sizes, direct or re-read. Non-trivial = the tree has >= 2 leaves "
                       "or additional entries; distinct by (tree id, extras, prefix, read plan)." % (2 if not ctx.thorough else 4, " (60 %% sample)" if ctx.thorough else ""))
    ctx.assumptions += ["SHA-1 (git blob id) identifies contents; evaluator = hashlib, cross-checked with git hash-object for every content",
                        "Python tarfile/zipfile read the archives back (member name, type, mode bit, content)",
                        "identity filter pipeline, no attributes; paths are valid UTF-8; symlink targets are normalised relative paths",
                        "additional entries have paths distinct from each other and from the tree's (duplicates are documented as consumer-dependent; zip refuses them)",
                        "the order of tree entries in the stream is not judged (breadth-first in gitoxide, depth-first in git archive)"]


def replay(ctx, rec):
    binary = ctx.build("vh-c55")
    c = rec["case"]
    w = World(ctx, c.get("seed", ctx.seed))
    x = json.loads(json.dumps(c))
    run_worlds(ctx, binary, w, [x])
