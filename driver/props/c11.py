"""C11 - Loose objects written by gitoxide are git objects and read back exactly.

spec/odb/Loose.tla: file = Deflate(LooseHeader(kind, n) ++ body) at PathOf(H(LooseHeader(kind, n) ++ body)); reading
returns kind and bytes; every proper prefix of an object file reads as an error. H (SHA-1) and Deflate/Inflate are
uninterpreted: Python's hashlib/zlib and git evaluate them, the values travel in the events as data.
 A:  Loose_Gen prints the header the format demands for every kind x size class (0..70, around 192, 256, 4096, 32768,
     65536 - the header buffer of 64 bytes, try_header's compressed window, the deflate writer's 32 KiB buffer);
     the driver appends seeded bodies (incompressible / zeros / text), the executor writes them with
     Store::write_buf / write_stream (and typed objects made by git with Write::write).
 B:  Loose_Trace judges: the id is H(header ++ body), the file lies at PathOf(id) and inflates to exactly header ++ body
     (WriteOk); git reads the file as the same object; try_find / try_header / contains (and a gix_odb::at handle) read
     gitoxide- and git-written objects back identically (ReadOk); every truncation of small files at every byte and of
     large files at 64 positions reads as an error (TruncOk).
 C:  `git hash-object` must agree with hashlib on H(header ++ body) (the header being the specification's), `git fsck`
     must report every truncated copy as corrupt and every complete copy as readable.
"""
import hashlib
import os
import zlib
from vf import *

LEVEL = "exploration"
META = {
    "technique": "TLA+ format rule with uninterpreted SHA-1/zlib (evaluated by hashlib, zlib and git); TLC-enumerated size classes written through the three write paths of the loose store; recorded ids, file locations, read-backs and reads of every truncation judged by a TLC trace spec; git reads gitoxide's files and audits the truncation rule",
    "note": "Exhaustive over the size classes of Loose.tla x 4 kinds for one seeded body each (three body styles in the thorough tier); truncation at every byte for objects of <= 70 bytes, 64 positions for larger files. Equality of long byte strings is judged through their SHA-1 digests. Trusted: TLC, Python hashlib/zlib, git 2.39.5.",
}

KINDS = ["blob", "tree", "commit", "tag"]


def sha(b):
    return hashlib.sha1(b).hexdigest()


def hexl(s):
    return b2l(s.encode())


def body_of(rng, n, style):
    if style == "zeros":
        return b"\x00" * n
    if style == "text":
        words = [b"lorem", b"ipsum", b"dolor", b"sit", b"amet\n", b"tree", b"parent", b"0123456789abcdef"]
        out = b""
        while len(out) < n:
            out += rng.choice(words) + b" "
        return out[:n]
    return bytes(rng.getrandbits(8) for _ in range(n))


def inflate_file(data):
    """evaluator for Inflate: the inflated content if the file is exactly one complete zlib stream, else None"""
    d = zlib.decompressobj()
    try:
        out = d.decompress(data)
    except zlib.error:
        return None
    if not d.eof or d.unused_data:
        return None
    return out


def walk_objects(objdir):
    found = {}
    for a in os.listdir(objdir):
        p = os.path.join(objdir, a)
        if len(a) == 2 and os.path.isdir(p):
            for b in os.listdir(p):
                found[(a, b)] = os.path.join(p, b)
    return found


def read_obs(x, paths_ok=True):
    """executor's find/header result -> uniform record [status, kind, size, h]"""
    if x == "none":
        return {"status": "none", "kind": "", "size": 0, "h": []}
    if "error" in x:
        return {"status": "error", "kind": "", "size": 0, "h": []}
    h = []
    if "data" in x:
        h = hexl(sha(l2b(x["data"])))
    elif "data_path" in x:
        h = hexl(sha(open(x["data_path"], "rb").read()))
    return {"status": "ok", "kind": x["kind"], "size": x["size"], "h": h}


def git_env(objdir, tmpl):
    return {"GIT_DIR": tmpl, "GIT_OBJECT_DIRECTORY": objdir}


def git_batch(objdir, tmpl, ids):
    """what git reads for each id: {id: [status, kind, size, h]}"""
    p = git(["cat-file", "--batch"], env=git_env(objdir, tmpl), input=("\n".join(ids) + "\n").encode(), timeout=600)
    out, data, pos = {}, p.stdout, 0
    for i in ids:
        nl = data.find(b"\n", pos)
        if nl < 0:
            out[i] = {"status": "error", "kind": "", "size": 0, "h": []}
            continue
        head = data[pos:nl].decode("utf-8", "replace").split(" ")
        if len(head) == 3 and head[0] == i:
            size = int(head[2])
            body = data[nl + 1:nl + 1 + size]
            out[i] = {"status": "ok", "kind": head[1], "size": size, "h": hexl(sha(body))}
            pos = nl + 1 + size + 1
        else:
            out[i] = {"status": "none" if head[-1] == "missing" else "error", "kind": "", "size": 0, "h": []}
            pos = nl + 1
    return out


PENDING = []      # (event, violation record to file if TLC rejects the event)


def flush(ctx):
    """judge everything recorded so far with one TLC run"""
    if not PENDING:
        return 0
    events = [e for e, _ in PENDING]
    rejected = ctx.tlc_trace("odb", "Loose_Trace", events)
    for bi in rejected:
        ctx.violation(dict(PENDING[bi][1], event=events[bi]))
    del PENDING[:]
    return len(rejected)


def make_objects(ctx, thorough):
    """binding A: (kind, n, header) from TLC + seeded bodies"""
    cases = ctx.tlc_gen("odb", "Loose_Gen", consts={"Big": "TRUE"}, workers=2)
    styles = ["random", "zeros", "text"]
    objs = []
    bdir = os.path.join(ctx.work, "bodies")
    os.makedirs(bdir, exist_ok=True)
    for i, c in enumerate(sorted(cases, key=lambda c: (c["n"], c["kind"]))):
        for st in (styles if thorough else [styles[i % 3]]):
            body = body_of(ctx.rng, c["n"], st)
            path = os.path.join(bdir, "%d-%s.bin" % (len(objs), st))
            with open(path, "wb") as f:
                f.write(body)
            raw = l2b(c["header"]) + body
            objs.append({"kind": c["kind"], "n": c["n"], "style": st, "body_path": path, "hraw": sha(raw), "hbody": sha(body),
                         "header": c["header"], "thorough": thorough})
    return objs


def audit_hash(ctx, tmpl, objs):
    """binding C: git's id of (kind, body) is H(spec header ++ body)"""
    for kind in KINDS:
        sel = [o for o in objs if o["kind"] == kind]
        if not sel:
            continue
        p = git(["hash-object", "-t", kind, "--literally", "--stdin-paths"], env={"GIT_DIR": tmpl},
                input=("\n".join(o["body_path"] for o in sel) + "\n").encode(), check=True, timeout=600)
        ids = p.stdout.decode().split()
        for o, i in zip(sel, ids):
            o["git_id"] = i
            if i != o["hraw"]:
                audit_mismatch(ctx, "Loose.LooseHeader / H", {"kind": kind, "n": o["n"], "git": i, "hashlib_on_spec_header": o["hraw"]})
    ctx.cov["git_audited_ids"] = len(objs)


def write_and_judge(ctx, binary, tmpl, objs, mode, objdir):
    os.makedirs(objdir, exist_ok=True)
    res = ctx.harness(binary, [{"op": "write", "dir": objdir, "kind": o["kind"], "body_path": o["body_path"], "mode": mode} for o in objs])
    files = walk_objects(objdir)
    by_digest = {}
    for rel, p in files.items():
        infl = inflate_file(open(p, "rb").read())
        by_digest.setdefault(sha(infl) if infl is not None else None, []).append(rel)
    for o, r in zip(objs, res):
        if "got" not in r:
            ctx.violation({"kind": "crash", "case": case_of(o, mode), "classes": ["crash"], "result": r, "what": "write panicked"})
            continue
        g = r["got"]
        if "unparsable" in g:
            raise ToolError("C11: object made by git not parsed by gix-object (%s %d): %s" % (o["kind"], o["n"], g["unparsable"]))
        rel = (by_digest.get(o["hraw"]) or [("", "")])[0]
        o["id_" + mode] = g.get("id", "")
        PENDING.append(({"op": "write", "status": "ok" if "id" in g else "error", "id": hexl(g.get("id", "")), "hraw": hexl(o["hraw"]),
                         "path": [hexl(rel[0]), hexl(rel[1])], "hinfl": hexl(o["hraw"]) if by_digest.get(o["hraw"]) else []},
                        {"kind": "write", "case": case_of(o, mode), "classes": ["write", mode],
                         "what": "the object was not stored under git's id / at git's path / with content header ++ body"}))
    # git reads the files gitoxide wrote
    ids = [o["id_" + mode] for o in objs if o.get("id_" + mode)]
    seen = git_batch(objdir, tmpl, ids) if ids else {}
    for o in objs:
        i = o.get("id_" + mode)
        if i:
            PENDING.append(({"op": "read", "kind": o["kind"], "n": o["n"], "hbody": hexl(o["hbody"]), "find": seen[i],
                             "header": {"status": "ok", "kind": seen[i]["kind"], "size": seen[i]["size"], "h": []}, "contains": seen[i]["status"] == "ok"},
                            {"kind": "git-read", "case": case_of(o, mode), "classes": ["git-read", mode],
                             "what": "git does not read gitoxide's file as the same object"}))
    return files


def case_of(o, mode=None, **kw):
    c = {"kind": o["kind"], "n": o["n"], "style": o["style"], "seed_body_sha1": o["hbody"], "mode": mode, "thorough": o.get("thorough", False)}
    c.update(kw)
    return c


def read_and_judge(ctx, binary, objs, objdir, idkey, label, handle_every=7):
    cases = []
    for j, o in enumerate(objs):
        cases.append({"op": "read", "dir": objdir, "id": o[idkey], "place": None, "out": os.path.join(ctx.work, "out-%s-%d.bin" % (label, j)),
                      "handle": j % handle_every == 0})
    res = ctx.harness(binary, cases)
    for o, c, r in zip(objs, cases, res):
        if "got" not in r:
            ctx.violation({"kind": "crash", "case": case_of(o, label), "classes": ["crash"], "result": r, "what": "read panicked"})
            continue
        g = r["got"]
        ev = {"op": "read", "kind": o["kind"], "n": o["n"], "hbody": hexl(o["hbody"]), "find": read_obs(g["find"]),
              "header": read_obs(g["header"]), "contains": g["contains"]}
        what = "an object written by %s does not read back with identical type and bytes" % label
        PENDING.append((ev, {"kind": "read", "case": case_of(o, label), "classes": ["read", label], "what": what}))
        if "handle" in g:
            PENDING.append((dict(ev, find=read_obs(g["handle"])),
                            {"kind": "read-handle", "case": case_of(o, label), "classes": ["read-handle", label], "what": what}))
        if o["n"] + o_hlen(o) > 64:
            ctx.nontrivial(("read", label, o["kind"], o["n"], o["style"]))


def o_hlen(o):
    return len(o["header"])


def positions(L, every):
    if every:
        return list(range(0, L + 1))
    ks = set(range(0, 9)) | set(range(L - 9, L + 1)) | {63, 64, 65, 191, 192, 193, 255, 256, 257, L // 2, L // 3, 2 * L // 3}
    step = max(1, L // 24)
    ks |= set(range(0, L, step))
    return sorted(k for k in ks if 0 <= k <= L)


def truncations(ctx, binary, tmpl, sources, label):
    """sources: [(obj, file path)] -> every/selected prefixes installed under fake ids in one scratch store"""
    tdir = os.path.join(ctx.work, "trunc-" + label)
    os.makedirs(tdir, exist_ok=True)
    cases, meta = [], []
    for si, (o, path) in enumerate(sources):
        L = os.path.getsize(path)
        for k in positions(L, o["n"] <= 70):
            fake = "%06x%034d" % (si, k)
            cases.append({"op": "read", "dir": tdir, "id": fake, "place": {"from": path, "len": k}, "out": os.path.join(ctx.work, "tout-%s-%d.bin" % (label, len(cases))), "handle": False})
            meta.append((o, L, k, fake))
    res = ctx.harness(binary, cases, timeout=1800)
    owner = []
    for (o, L, k, fake), r in zip(meta, res):
        if "got" not in r:
            ctx.violation({"kind": "crash", "case": case_of(o, label, k=k, L=L), "classes": ["crash", "trunc"], "result": r, "what": "reading a truncated file panicked"})
            continue
        g = r["got"]
        ev = {"op": "trunc", "kind": o["kind"], "n": o["n"], "hbody": hexl(o["hbody"]), "k": k, "L": L,
              "find": read_obs(g["find"]), "header": read_obs(g["header"]), "contains": g["contains"]}
        owner.append((o, L, k, fake))
        tail = L - k
        classes = ["trunc", label]
        if ev["find"]["status"] == "ok" and 0 < tail <= 8:
            classes.append("stream-end-not-checked")     # a label for the report; the verdict is TLC's
        PENDING.append((ev, {"kind": "trunc", "case": case_of(o, label, k=k, L=L), "classes": classes, "missing_bytes": tail,
                             "what": "the first %d of %d bytes of the object file read as %s (must be an error)" % (k, L, ev["find"]["status"])}))
        if k < L:
            ctx.nontrivial(("trunc", label, o["kind"], o["n"], o["style"], k))
    # binding C: git agrees that every proper prefix is corrupt and the complete copies are readable
    p = git(["fsck", "--no-dangling", "--no-progress"], env=git_env(tdir, tmpl), timeout=3000)
    text = (p.stdout + p.stderr).decode("utf-8", "replace")
    readable, corrupt = set(), set()
    for line in text.splitlines():
        if "hash-path mismatch" in line:
            parts = line.strip().rsplit("/", 2)       # ...: hash-path mismatch, found at: <objects dir>/xx/yyyy
            readable.add(parts[-2][-2:] + parts[-1])
        elif line.startswith("error:"):
            for tok in line.replace("'", " ").replace(":", " ").replace("/", "").split():
                if len(tok) == 40 and all(ch in "0123456789abcdef" for ch in tok):
                    corrupt.add(tok)
    for o, L, k, fake in owner:
        if (k == L) != (fake in readable) or (k < L) != (fake in corrupt and fake not in readable):
            audit_mismatch(ctx, "Loose.TruncOk vs git fsck", {"kind": o["kind"], "n": o["n"], "k": k, "L": L, "git_readable": fake in readable,
                                                               "git_corrupt": fake in corrupt})
    ctx.cov["git_audited_truncations"] = ctx.cov.get("git_audited_truncations", 0) + len(owner)
    return len(owner)


def size_lies(ctx, binary):
    """loose files whose header declares another size than the stream holds (Loose.tla: ReadOk needs size = length of the body):
    every reader must answer with an error - neither data nor a panic. Sizes straddle the 64-byte header buffer."""
    tdir = os.path.join(ctx.work, "lies")
    os.makedirs(tdir, exist_ok=True)
    cases, meta = [], []
    for actual in (0, 1, 50, 56, 57, 58, 64, 65, 100, 5000, 70000):
        for declared in sorted({0, 1, actual - 1, actual + 1, 7, 56, 57, 63, 64, 65, 2 * actual + 3}):
            if declared < 0 or declared == actual:
                continue
            raw = b"blob %d\0" % declared + bytes((j * 7) % 251 for j in range(actual))
            path = os.path.join(tdir, "lie-%d-%d" % (declared, actual))
            with open(path, "wb") as f:
                f.write(zlib.compress(raw))
            fake = "%020d%020d" % (declared, actual)
            cases.append({"op": "read", "dir": tdir, "id": fake, "place": {"from": path, "len": os.path.getsize(path)},
                          "out": os.path.join(ctx.work, "lout-%d.bin" % len(cases)), "handle": True})
            meta.append((declared, actual))
    res = ctx.harness(binary, cases, timeout=600)
    for (declared, actual), c, r in zip(meta, cases, res):
        ctx.nontrivial(("lie", declared, actual))
        case = {"op": "size-lie", "declared": declared, "actual": actual}
        if "got" not in r:
            ctx.violation({"kind": "crash", "case": case, "classes": ["crash", "size-lie"], "result": r,
                           "what": "reading a loose object whose header declares %d bytes for a body of %d bytes panicked" % (declared, actual)})
            continue
        for api in ("find", "handle"):
            g = r["got"].get(api)
            if not (isinstance(g, dict) and "error" in g):
                ctx.violation({"kind": "size-lie", "case": case, "classes": ["size-lie"], "observed": g,
                               "what": "%s answered %s for a loose object whose header declares %d bytes for a body of %d bytes (must be an error)"
                                       % (api, json.dumps(g)[:120], declared, actual)})
    ctx.cov["size_lies"] = len(cases)


def rewrite_over_damage(ctx, binary):
    """Loose.tla: after a successful write the object is readable under the returned id - also when a damaged file (truncated by a
    crash) already sits at that path: write, cut the file, write the same content again, read."""
    tdir = os.path.join(ctx.work, "rewrite")
    os.makedirs(tdir, exist_ok=True)
    n = 0
    for size in (0, 1, 57, 64, 5000):
        body = os.path.join(ctx.work, "rw-body-%d" % size)
        with open(body, "wb") as f:
            f.write(bytes((j * 13) % 251 for j in range(size)))
        for mode in ("buf", "stream"):
            w = {"op": "write", "dir": tdir, "kind": "blob", "body_path": body, "mode": mode}
            r = ctx.harness(binary, [w])[0]
            if "got" not in r or "id" not in r["got"]:
                raise ToolError("initial write failed: %s" % json.dumps(r)[:200])
            oid = r["got"]["id"]
            path = os.path.join(tdir, oid[:2], oid[2:])
            L = os.path.getsize(path)
            for keep in sorted({0, L // 2, L - 1}):
                os.chmod(path, 0o644)
                with open(path, "r+b") as f:
                    f.truncate(keep)
                r2 = ctx.harness(binary, [w, {"op": "read", "dir": tdir, "id": oid, "place": None, "out": os.path.join(ctx.work, "rw-out.bin"), "handle": True}])
                n += 1
                ctx.nontrivial(("rewrite", size, mode, keep))
                case = {"op": "rewrite-over-damage", "size": size, "mode": mode, "file_len": L, "kept": keep}
                if "got" not in r2[0] or r2[0]["got"].get("id") != oid:
                    ctx.violation({"kind": "rewrite", "case": case, "classes": ["rewrite"], "result": r2[0], "what": "writing the object again over a damaged file failed"})
                    continue
                g = r2[1].get("got", {})
                f_ = g.get("find")
                if not (isinstance(f_, dict) and f_.get("size") == size):
                    ctx.violation({"kind": "rewrite", "case": case, "classes": ["rewrite"], "observed": f_,
                                   "what": "write() returned the id, but the object cannot be read (a file cut to %d of %d bytes was in its place): %s" % (keep, L, json.dumps(f_)[:160])})
                # leave an intact file for the next round
                ctx.harness(binary, [w])
    ctx.cov["rewrites_over_damaged_files"] = n


def git_typed_objects(ctx, tmpl, gdir):
    """valid trees, commits and tags of sizes around the header buffer, made by git"""
    env = git_env(gdir, tmpl)
    os.makedirs(gdir, exist_ok=True)
    blob = git(["-c", "core.fsync=none", "hash-object", "-w", "--stdin"], env=env, input=b"x\n", check=True).stdout.decode().strip()
    made = []
    for pad in [0, 1, 2, 3, 7, 20, 21, 22, 23, 24, 25, 26, 40, 200, 5000, 40000]:
        name = "f" + "n" * pad
        tree = git(["-c", "core.fsync=none", "mktree"], env=env, input=("100644 blob %s\t%s\n" % (blob, name)).encode(), check=True).stdout.decode().strip()
        made.append(("tree", tree))
        commit = git(["-c", "core.fsync=none", "commit-tree", tree, "-m", "m" * pad], env=env, input=b"", check=True).stdout.decode().strip()
        made.append(("commit", commit))
        tag = git(["-c", "core.fsync=none", "mktag"], env=env, check=True,
                  input=("object %s\ntype commit\ntag t%d\ntagger T <t@x> 1 +0000\n\n%s" % (commit, pad, "g" * pad)).encode()).stdout.decode().strip()
        made.append(("tag", tag))
    made.append(("tree", git(["-c", "core.fsync=none", "mktree"], env=env, input=b"", check=True).stdout.decode().strip()))
    return made


def run(ctx):
    binary = ctx.build("vh-c11")
    tmpl = os.path.join(ctx.work, "tmpl.git")
    git(["init", "-q", "--bare", tmpl], check=True)
    objs = make_objects(ctx, ctx.thorough)
    ctx.cov["exhaustive"] = True
    audit_hash(ctx, tmpl, objs)

    # gitoxide writes (buffered, streamed), git reads; then gitoxide reads back
    files = {}
    for mode in ("buf", "stream"):
        d = os.path.join(ctx.work, "objects-" + mode)
        files[mode] = write_and_judge(ctx, binary, tmpl, objs, mode, d)
        okobjs = [o for o in objs if o.get("id_" + mode)]
        read_and_judge(ctx, binary, okobjs, d, "id_" + mode, "gix-" + mode)
    for o in objs:
        ctx.nontrivial(("write", o["kind"], o["n"], o["style"]))

    # git writes, gitoxide reads
    gdir = os.path.join(ctx.work, "objects-git")
    os.makedirs(gdir, exist_ok=True)
    for kind in KINDS:
        sel = [o for o in objs if o["kind"] == kind]
        git(["-c", "core.fsync=none", "hash-object", "-w", "-t", kind, "--literally", "--stdin-paths"], env=git_env(gdir, tmpl),
            input=("\n".join(o["body_path"] for o in sel) + "\n").encode(), check=True, timeout=600)
    read_and_judge(ctx, binary, objs, gdir, "git_id", "git")
    gfiles = walk_objects(gdir)

    # typed writes of objects git made (hash-while-serialising through Write::write)
    tdir = os.path.join(ctx.work, "objects-gittyped")
    made = git_typed_objects(ctx, tmpl, tdir)
    raw = git_batch_raw(tdir, tmpl, [i for _, i in made])
    sizes = sorted({len(b) for b in raw.values()})
    hdr = {(c["kind"], c["n"]): c["header"] for c in ctx.tlc_gen("odb", "Loose_Gen", consts={"Sizes": "{%s}" % ", ".join(map(str, sizes))}, workers=2)}
    typed = []
    for kind, i in made:
        body = raw[i]
        path = os.path.join(ctx.work, "bodies", "typed-%s.bin" % i)
        with open(path, "wb") as f:
            f.write(body)
        h = hdr[(kind, len(body))]
        o = {"kind": kind, "n": len(body), "style": "git-made", "body_path": path, "hraw": sha(l2b(h) + body), "hbody": sha(body), "header": h, "git_id": i}
        if o["hraw"] != i:
            audit_mismatch(ctx, "Loose.LooseHeader / H (typed)", {"kind": kind, "n": len(body), "git": i, "hashlib_on_spec_header": o["hraw"]})
        typed.append(o)
    d = os.path.join(ctx.work, "objects-typed")
    write_and_judge(ctx, binary, tmpl, typed, "typed", d)
    read_and_judge(ctx, binary, [o for o in typed if o.get("id_typed")], d, "id_typed", "gix-typed")
    for o in typed:
        ctx.nontrivial(("typed", o["kind"], o["n"]))

    # truncations: every byte of small files, 64 positions of the large ones; files written by gitoxide and by git
    small_kinds = KINDS if ctx.thorough else ["blob", "commit"]
    src_gix, src_git = [], []
    for o in objs:
        big = o["n"] > 70
        if (not big and o["kind"] in small_kinds) or (big and (ctx.thorough or o["kind"] == "blob")):
            i = o.get("id_buf")
            if i and (i[:2], i[2:]) in files["buf"]:
                src_gix.append((o, files["buf"][(i[:2], i[2:])]))
            gi = o["git_id"]
            if (gi[:2], gi[2:]) in gfiles:
                src_git.append((o, gfiles[(gi[:2], gi[2:])]))
    flush(ctx)
    size_lies(ctx, binary)
    rewrite_over_damage(ctx, binary)
    n1 = truncations(ctx, binary, tmpl, src_gix, "gix-written")
    n2 = truncations(ctx, binary, tmpl, src_git, "git-written")
    ctx.cov["truncations"] = {"gix-written": n1, "git-written": n2, "rejected": flush(ctx)}
    ctx.sample({"kind": objs[200]["kind"], "n": objs[200]["n"], "style": objs[200]["style"], "id": objs[200]["hraw"], "header": show_bytes(objs[200]["header"])})
    ctx.cov["rule"] = ("A/B: every kind x size class of Loose.tla (0..70, around 192, 256, 4096, 32768, 65536) with a seeded body per style, "
                       "written buffered and streamed, plus trees/commits/tags made by git written typed; reads of gitoxide- and git-written "
                       "files; truncation at every byte (objects <= 70 bytes) or 64 positions. Non-trivial = object whose header + body "
                       "exceed the 64-byte header buffer (two-phase inflate), each write, each proper truncation; distinct by kind, size, "
                       "style and position.")
    ctx.assumptions += ["SHA-1 and zlib are uninterpreted: hashlib/zlib (Python) and git are the evaluators; digests stand for long contents",
                        "git 2.39.5 `hash-object --literally`, `cat-file --batch`, `fsck` are the reference (audited on every run)"]


def git_batch_raw(objdir, tmpl, ids):
    p = git(["cat-file", "--batch"], env=git_env(objdir, tmpl), input=("\n".join(ids) + "\n").encode(), check=True)
    out, data, pos = {}, p.stdout, 0
    for i in ids:
        nl = data.find(b"\n", pos)
        head = data[pos:nl].decode().split(" ")
        size = int(head[2])
        out[i] = data[nl + 1:nl + 1 + size]
        pos = nl + 1 + size + 1
    return out


def replay(ctx, rec):
    """re-create the stored case: same kind, size, style and seed-derived body (checked by its digest)"""
    binary = ctx.build("vh-c11")
    tmpl = os.path.join(ctx.work, "tmpl.git")
    git(["init", "-q", "--bare", tmpl], check=True)
    c = rec["case"]
    if c["style"] == "git-made":
        raise ToolError("C11: typed objects are re-created by a full run only")
    objs = [o for o in make_objects(ctx, c.get("thorough", False)) if o["kind"] == c["kind"] and o["n"] == c["n"] and o["style"] == c["style"]]
    objs = [o for o in objs if o["hbody"] == c["seed_body_sha1"]] or objs[:1]
    audit_hash(ctx, tmpl, objs)
    d = os.path.join(ctx.work, "objects-buf")
    files = write_and_judge(ctx, binary, tmpl, objs, "buf" if c.get("mode") not in ("stream",) else "stream", d)
    mode = "buf" if c.get("mode") not in ("stream",) else "stream"
    read_and_judge(ctx, binary, [o for o in objs if o.get("id_" + mode)], d, "id_" + mode, "gix-" + mode)
    if "k" in c:
        src = []
        for o in objs:
            i = o.get("id_" + mode)
            if c.get("mode") == "git-written":
                gdir = os.path.join(ctx.work, "objects-git")
                os.makedirs(gdir, exist_ok=True)
                git(["hash-object", "-w", "-t", o["kind"], "--literally", o["body_path"]], env=git_env(gdir, tmpl), check=True)
                gi = o["git_id"]
                src.append((o, os.path.join(gdir, gi[:2], gi[2:])))
            elif i:
                src.append((o, files[(i[:2], i[2:])]))
        truncations(ctx, binary, tmpl, src, c.get("mode") or "gix-written")
    flush(ctx)
