"""C44 - Tree diffs agree with git.

spec/history/TreeDiff.tla: a tree is the set of its leaves [path, kind, id] (prefix free); Diff(a, b) = the additions,
deletions and modifications of leaves *and of directory entries* (-t) that `git diff-tree -r -t --no-renames --raw`
prints; Apply(a, Diff(a, b)) = b and Diff(a, a) = {} are invariants of the generator run.
 A: TreeDiff_Gen enumerates all ordered pairs of trees in which each of the names {a, a.b[, a0]} (chosen for git's
    directory sort order) is absent, a leaf (file / executable / symlink / submodule, two contents) or a directory (one or
    two levels). All distinct trees are built with `git mktree --batch` (blobs with git hash-object), read back with
    `git cat-file --batch` (every directory object) and compared with the abstract tree. gix_diff::tree + Recorder and gix_diff::tree_with_rewrites
    (rewrites: None) run on every pair; their change lists, translated to abstract records, must be the printed set.
 B: seeded random larger trees (3 levels, sort-order traps in the names) and edits; change lists judged by TreeDiff_Trace
    (set equality, no duplicates, Apply(a, changes) = b).
 C: `git diff-tree -r -t --no-renames --raw --no-abbrev --stdin` on all pairs in one process: compared with the printed
    expectation (A) / judged by the same trace module (B).
"""
import concurrent.futures
import hashlib
from vf import *
from props.c46 import gitc

LEVEL = "exploration"
MODE = {"blob": "100644", "exe": "100755", "link": "120000", "commit": "160000", "tree": "040000"}
KIND = {v: k for k, v in MODE.items()}


def tkey(leaves):
    return json.dumps(sorted((e["p"], e["k"], e["id"]) for e in leaves))


class Trees:
    """builds every distinct abstract tree (and its directories) with git, bottom-up"""

    def __init__(self, ctx, trees, tag):
        """trees: {key: leaves}"""
        self.root = os.path.join(ctx.work, tag)
        os.makedirs(self.root)
        self.git = os.path.join(self.root, "t.git")
        gitc(["init", "-q", "--bare", self.git], cwd=self.root)
        t0 = time.time()
        self.blob, self.blob_of = {}, {}
        ids = sorted({(e["k"] == "commit", e["id"]) for lv in trees.values() for e in lv})
        for is_commit, n in ids:
            if is_commit:
                h = hashlib.sha1(b"submodule commit %d" % n).hexdigest()
            else:
                h = gitc(["hash-object", "-w", "--stdin"], cwd=self.git, input=b"content %d\n" % n).decode().strip()
            self.blob[(is_commit, n)] = h
            self.blob_of[h] = (is_commit, n)
        # directories by content, lowest first
        self.dir_oid = {}      # content key (tuple of (name, kind, id | subkey)) -> oid
        self.oid = {}          # tree key -> root oid
        pending = {}

        def content(leaves):
            """nested content key of a leaf list with relative paths"""
            here, sub = [], {}
            for e in leaves:
                if len(e["p"]) == 1:
                    here.append((e["p"][0], e["k"], e["id"]))
                else:
                    sub.setdefault(e["p"][0], []).append({"p": e["p"][1:], "k": e["k"], "id": e["id"]})
            for name, lv in sub.items():
                here.append((name, "tree", content(lv)))
            key = tuple(sorted(here))
            pending[key] = max([0] + [1 + pending_height[c[2]] for c in key if c[1] == "tree"])
            pending_height[key] = pending[key]
            return key

        pending_height = {}
        self.ckey = {k: content(lv) for k, lv in trees.items()}
        for h in range(0, max(pending_height.values()) + 1):
            level = [k for k, hh in pending_height.items() if hh == h]
            text = []
            for k in level:
                for name, kind, x in k:
                    if kind == "tree":
                        text.append("040000 tree %s\t%s\n" % (self.dir_oid[x], name))
                    elif kind == "commit":
                        text.append("160000 commit %s\t%s\n" % (self.blob[(True, x)], name))
                    else:
                        text.append("%s blob %s\t%s\n" % (MODE[kind], self.blob[(False, x)], name))
                text.append("\n")
            out = gitc(["mktree", "--batch"], cwd=self.git, input="".join(text).encode()).decode().split()
            if len(out) != len(level):
                raise ToolError("git mktree --batch returned %d ids for %d trees" % (len(out), len(level)))
            for k, o in zip(level, out):
                self.dir_oid[k] = o
        for k in trees:
            self.oid[k] = self.dir_oid[self.ckey[k]]
        gitc(["repack", "-a", "-d", "-q"], cwd=self.git)      # one pack: reading thousands of loose trees again and again is slow
        # read back: every directory object is fetched with git cat-file and parsed; every root tree is then listed
        # recursively from what git returned and compared with the abstract leaves
        oids = sorted(set(self.dir_oid.values()))
        data = gitc(["cat-file", "--batch"], cwd=self.git, input=("\n".join(oids) + "\n").encode())
        parsed, pos = {}, 0
        for o in oids:
            nl = data.index(b"\n", pos)
            head = data[pos:nl].split()
            if len(head) != 3 or head[0].decode() != o or head[1] != b"tree":
                raise ToolError("read-back: %r" % data[pos:nl])
            body = data[nl + 1: nl + 1 + int(head[2])]
            pos = nl + 1 + int(head[2]) + 1
            ents, i = [], 0
            while i < len(body):
                sp = body.index(b" ", i)
                nul = body.index(b"\0", sp)
                ents.append((body[i:sp].decode().zfill(6), body[sp + 1:nul].decode(), body[nul + 1:nul + 21].hex()))
                i = nul + 21
            parsed[o] = ents

        def listing(o, prefix, tab, leaves):
            for m, name, child in parsed[o]:
                path = prefix + name
                tab[path] = (m, child)
                if m == "040000":
                    listing(child, path + "/", tab, leaves)
                else:
                    is_commit, n = self.blob_of.get(child, (None, None))
                    if n is None or is_commit != (m == "160000"):
                        raise ToolError("read-back: unknown object %s in tree" % child)
                    leaves.append((path.split("/"), KIND[m], n))

        self.table = {}
        for k, lv in trees.items():
            tab, leaves = {}, []
            listing(self.oid[k], "", tab, leaves)
            if sorted(leaves) != sorted((e["p"], e["k"], e["id"]) for e in lv):
                raise ToolError("read-back mismatch: git has %s for abstract tree %s" % (leaves, k))
            self.table[k] = tab
        ctx.log("built %d distinct trees (%d directories) with git mktree and read them back in %.1fs"
                % (len(trees), len(self.dir_oid), time.time() - t0))

    def abstract(self, ka, kb, ch):
        """a reported change (paths, octal modes, hex ids) -> abstract record [c, p, pk, pid, k, id]"""
        def side(mode, oid, key):
            if mode == "":
                return "none", 0
            kind = KIND.get(mode, "mode:" + mode)
            if kind == "tree":
                # the id of a directory is derived; it must be the id git gave that directory
                return "tree", 0 if self.table[key].get(ch["path"], (None, None)) == (mode, oid) else 1
            is_commit, n = self.blob_of.get(oid, (None, -1))
            return (kind, n) if is_commit == (kind == "commit") else (kind, -1)
        pk, pid = side(ch["pmode"], ch["poid"], ka)
        k, i = side(ch["mode"], ch["oid"], kb)
        return {"c": ch["c"], "p": ch["path"].split("/"), "pk": pk, "pid": pid, "k": k, "id": i}


def canon(changes):
    return sorted(json.dumps(c, sort_keys=True) for c in changes)


def git_diffs(ctx, tr, pairs, threads=6):
    """binding C: abstract change lists of git diff-tree for [(ka, kb)]"""
    step = max(1, (len(pairs) + threads - 1) // threads)
    chunks = [pairs[i:i + step] for i in range(0, len(pairs), step)]
    with concurrent.futures.ThreadPoolExecutor(threads) as ex:
        parts = list(ex.map(lambda ch: git_diffs_1(tr, ch), chunks))
    return [x for part in parts for x in part]


def git_diffs_1(tr, pairs):
    inp = "".join("%s %s\n" % (tr.oid[a], tr.oid[b]) for a, b in pairs)
    out = gitc(["diff-tree", "-r", "-t", "--no-renames", "--raw", "--no-abbrev", "--stdin"], cwd=tr.git, input=inp.encode()).decode()
    res, cur = [], None
    it = iter(pairs)
    for line in out.split("\n"):
        if not line:
            continue
        if not line.startswith(":"):
            ka, kb = next(it)
            if line.split() != [tr.oid[ka], tr.oid[kb]]:
                raise ToolError("git diff-tree --stdin: unexpected header " + line)
            cur = []
            res.append(cur)
            continue
        meta, path = line[1:].split("\t", 1)
        pm, m, po, o, status = meta.split()
        c = {"A": "add", "D": "del", "M": "mod", "T": "mod"}.get(status[0])
        if c is None:
            raise ToolError("git diff-tree: unexpected status " + line)
        cur.append(tr.abstract(ka, kb, {"c": c, "path": path, "pmode": "" if pm == "000000" else pm, "poid": "" if pm == "000000" else po,
                                        "mode": "" if m == "000000" else m, "oid": "" if m == "000000" else o}))
    if len(res) != len(pairs):
        raise ToolError("git diff-tree --stdin: %d answers for %d pairs" % (len(res), len(pairs)))
    return res


def run_gix(ctx, binary, tr, pairs, chunk=5000):
    res = []
    for i in range(0, len(pairs), chunk):
        case = {"objects": os.path.join(tr.git, "objects"), "pairs": [[tr.oid[a], tr.oid[b]] for a, b in pairs[i:i + chunk]]}
        r = ctx.harness(binary, [case])[0]
        if "got" not in r:
            raise ToolError("executor failed outside of a diff: %s" % json.dumps(r)[:300])
        res.extend(r["got"]["pairs"])
        ctx.cov["evaluations"] += 2 * len(r["got"]["pairs"]) - 1
    return res


def classes_of(want, got, src):
    if not isinstance(got, list):
        return [src + ":" + ("panic" if "panic" in got else "error")]
    w, g = set(canon(want)), canon(got)
    cl = []
    if len(set(g)) != len(g):
        cl.append("duplicate")
    missing = [json.loads(x) for x in w - set(g)]
    extra = [json.loads(x) for x in set(g) - w]
    for x in missing:
        cl.append("not-reported:%s:%s->%s" % (x["c"], x["pk"], x["k"]))
    for x in extra:
        cl.append("extra:%s:%s->%s" % (x["c"], x["pk"], x["k"]))
    return sorted({src + ":" + c for c in cl}) or [src + ":other"]


def gen_consts(ctx):
    if ctx.thorough:
        return [{"Names": '{"a", "a.b"}', "Level": 2}, {"Names": '{"a", "a.b", "a0"}', "Level": 0}]
    return [{"Names": '{"a", "a.b"}', "Level": 1}]


def run(ctx):
    binary = ctx.build("vh-c44")
    cases = []
    for consts in gen_consts(ctx):
        cases += ctx.tlc_gen("history", "TreeDiff_Gen", consts=consts, workers=6, timeout=3000)
    ctx.cov["exhaustive"] = True
    trees = {}
    pairs = []
    for c in cases:
        ka, kb = tkey(c["a"]), tkey(c["b"])
        trees.setdefault(ka, c["a"])
        trees.setdefault(kb, c["b"])
        pairs.append((ka, kb))
    tr = Trees(ctx, trees, "gen")
    # binding C
    t0 = time.time()
    for c, (ka, kb), g in zip(cases, pairs, git_diffs(ctx, tr, pairs)):
        if canon(g) != canon(c["changes"]):
            audit_mismatch(ctx, "TreeDiff!Diff", {"a": c["a"], "b": c["b"], "git": g, "spec": c["changes"]})
    ctx.cov["git_audited"] = len(pairs)
    ctx.log("audit: git diff-tree -r -t --no-renames agreed with the specification on %d pairs (%.1fs)" % (len(pairs), time.time() - t0))
    # binding A
    res = run_gix(ctx, binary, tr, pairs)
    for c, (ka, kb), r in zip(cases, pairs, res):
        if c["changes"]:
            ctx.nontrivial((ka, kb))
        bad = []
        for src in ("rec", "twr"):
            got = [tr.abstract(ka, kb, ch) for ch in r[src]] if isinstance(r[src], list) else r[src]
            if not isinstance(got, list) or canon(got) != canon(c["changes"]):
                bad.append((src, got))
        if bad:
            ctx.violation({"kind": "gen", "case": {"a": c["a"], "b": c["b"], "changes": c["changes"]},
                           "observed": {s: g for s, g in bad}, "classes": sorted({x for s, g in bad for x in classes_of(c["changes"], g, s)}),
                           "trees": [tr.oid[ka], tr.oid[kb]]})
    ctx.sample({"a": cases[len(cases) // 3]["a"], "b": cases[len(cases) // 3]["b"], "changes": cases[len(cases) // 3]["changes"]})
    random_part(ctx, binary)
    summary = {}
    for v in ctx.violations + [r for _f, r in ctx.known_hits.values()]:
        for k in v["classes"]:
            summary[k] = summary.get(k, 0) + 1
    if summary:
        ctx.log("disagreements by class: %s" % json.dumps(summary, sort_keys=True))
    ctx.violations.sort(key=lambda v: (len(v["case"]["a"]) + len(v["case"]["b"]), len(json.dumps(v["case"]))))
    ctx.cov["rule"] = ("A: all ordered pairs of the trees of TreeDiff_Gen (constants %s: every name absent / one of the leaf entries / one of the "
                       "directories); B: seeded random trees of <= 12 leaves, 3 levels, and 1..4 edits. Non-trivial = the two trees differ; "
                       "distinct by the pair of trees." % json.dumps(gen_consts(ctx)))
    ctx.assumptions += ["git 2.39.5 diff-tree -r -t --no-renames --raw is the reference for TreeDiff!Diff (audited on every pair)",
                        "status letters M and T are not distinguished: a modification record carries both modes",
                        "the order of the reported changes is not judged (gix is breadth first, git depth first); the Relation ids of "
                        "the Recorder are not judged; rename tracking is off",
                        "object ids are uninterpreted: blob contents and submodule commits are numbered, a directory's id must be the id git "
                        "gave that directory (checked by the driver as data)"]


NAMES = ["a", "a.b", "a-b", "a0", "b", "a b", "A", "ab"]


def random_tree(rng, n):
    leaves = {}
    tries = 0
    while len(leaves) < n and tries < 200:
        tries += 1
        depth = rng.choice([1, 1, 2, 2, 3])
        p = tuple(rng.choice(NAMES[:5] if d else NAMES) for d in range(depth))
        if any(q[:len(p)] == p or p[:len(q)] == q for q in leaves):
            continue
        k = rng.choice(["blob", "blob", "blob", "exe", "link", "commit"])
        leaves[p] = (k, rng.randint(1, 4) if k != "commit" else rng.randint(5, 6))
    return leaves


def edit(rng, leaves):
    b = dict(leaves)
    for _ in range(rng.randint(1, 4)):
        op = rng.choice(["del", "add", "content", "mode", "f2d", "d2f", "deldir"])
        keys = sorted(b)
        if op == "add" or not keys:
            for p, v in random_tree(rng, 1).items():
                if not any(q[:len(p)] == p or p[:len(q)] == q for q in b):
                    b[p] = v
            continue
        p = rng.choice(keys)
        k, i = b[p]
        if op == "del":
            del b[p]
        elif op == "content":
            b[p] = (k, i % 4 + 1 if k != "commit" else 11 - i)
        elif op == "mode":
            b[p] = ({"blob": "exe", "exe": "blob", "link": "blob", "commit": "blob"}[k], i if k != "commit" else 1)
        elif op == "f2d":      # a file becomes a directory of the same name
            del b[p]
            b[p + (rng.choice(["x", "a"]),)] = ("blob", rng.randint(1, 4))
        elif op == "d2f" and len(p) > 1:    # a directory becomes a file
            d = p[:rng.randint(1, len(p) - 1)]
            for q in [q for q in b if q[:len(d)] == d]:
                del b[q]
            b[d] = (rng.choice(["blob", "link", "commit"]), rng.randint(1, 4))
            if b[d][0] == "commit":
                b[d] = ("commit", 5)
        elif op == "deldir" and len(p) > 1:
            d = p[:1]
            for q in [q for q in b if q[:1] == d]:
                del b[q]
    return b


def random_part(ctx, binary):
    n = 400 if not ctx.thorough else 8000
    cases, trees, pairs = [], {}, []
    for _ in range(n):
        a = random_tree(ctx.rng, ctx.rng.randint(0, 12))
        b = edit(ctx.rng, a) if ctx.rng.random() < 0.85 else random_tree(ctx.rng, ctx.rng.randint(0, 8))
        la = [{"p": list(p), "k": k, "id": i} for p, (k, i) in sorted(a.items())]
        lb = [{"p": list(p), "k": k, "id": i} for p, (k, i) in sorted(b.items())]
        ka, kb = tkey(la), tkey(lb)
        trees.setdefault(ka, la)
        trees.setdefault(kb, lb)
        pairs.append((ka, kb))
        cases.append({"a": la, "b": lb})
    tr = Trees(ctx, trees, "rnd")
    gd = git_diffs(ctx, tr, pairs)
    res = run_gix(ctx, binary, tr, pairs)
    events, meta = [], []
    for w, (c, (ka, kb), g, r) in enumerate(zip(cases, pairs, gd, res)):
        events.append({"a": c["a"], "b": c["b"], "changes": g, "src": "git"})
        meta.append((w, "git", g))
        if ka != kb:
            ctx.nontrivial(("r", ka, kb))
        seen = {}
        for src in ("rec", "twr"):
            if not isinstance(r[src], list):
                ctx.violation({"kind": "random", "case": c, "observed": {src: r[src]}, "classes": classes_of([], r[src], src),
                               "trees": [tr.oid[ka], tr.oid[kb]]})
                continue
            got = [tr.abstract(ka, kb, ch) for ch in r[src]]
            key = json.dumps(got)
            if key in seen:
                seen[key].append(src)
                continue
            seen[key] = [src]
            events.append({"a": c["a"], "b": c["b"], "changes": got, "src": src})
            meta.append((w, seen[key], got))
    rejected = ctx.tlc_trace("history", "TreeDiff_Trace", events)
    for k in rejected:
        if meta[k][1] == "git":
            audit_mismatch(ctx, "TreeDiff!Diff (random)", {"case": cases[meta[k][0]], "git": meta[k][2]})
    for k in rejected:
        w, srcs, got = meta[k]
        ctx.violation({"kind": "trace", "case": cases[w], "observed": {s: got for s in srcs},
                       "classes": sorted({x for s in srcs for x in classes_of(gd[w], got, s)}), "git": gd[w],
                       "trees": [tr.oid[pairs[w][0]], tr.oid[pairs[w][1]]]})
    ctx.cov["random_pairs"] = n
    ctx.cov["git_audited"] += n
    ctx.sample({"random_pair": cases[0], "git": gd[0]})


def replay(ctx, rec):
    binary = ctx.build("vh-c44")
    c = rec["case"]
    ka, kb = tkey(c["a"]), tkey(c["b"])
    tr = Trees(ctx, {ka: c["a"], kb: c["b"]}, "replay")
    g = git_diffs(ctx, tr, [(ka, kb)])[0]
    r = run_gix(ctx, binary, tr, [(ka, kb)])[0]
    events = [{"a": c["a"], "b": c["b"], "changes": g, "src": "git"}]
    srcs = []
    for src in ("rec", "twr"):
        if not isinstance(r[src], list):
            ctx.violation(dict(rec, observed={src: r[src]}))
            return
        got = [tr.abstract(ka, kb, ch) for ch in r[src]]
        ctx.log("%s: %s" % (src, canon(got)))
        events.append({"a": c["a"], "b": c["b"], "changes": got, "src": src})
        srcs.append((src, got))
    ctx.log("git: %s" % canon(g))
    rej = ctx.tlc_trace("history", "TreeDiff_Trace", events)
    if 0 in rej:
        audit_mismatch(ctx, "TreeDiff!Diff (replay)", {"case": c, "git": g})
    if rej:
        ctx.violation(dict(rec, observed={s: got for k, (s, got) in enumerate(srcs) if k + 1 in rej}))
