"""C25 - Index files written by gitoxide round-trip and are valid for git.

spec/index/IndexFormat.tla is a byte-level reference reader (`Decode`) and renderer (`Render`) of the
index format; TLC model-checks Decode(Render(s)) = s and the padding rule on every generated state.
 A: IndexWrite_Gen enumerates abstract states (entry kinds: plain / assume-valid / skip-worktree /
    intent-to-add / conflict stages; tree cache absent / valid / invalidated; input version 2|3|4; path
    lengths 1,2,7,8,9 and 4094..4097), renders the input file, names a mutation applied through the State
    API and prints what has to be in the written file for each `write::Extensions` choice. The executor
    loads, mutates, writes (File::write_to) and reads back.
 B: every written file is decoded by TLC (IndexWrite_Trace): layout, padding, path-length field, version
    (3 iff extended flags), entries = expected, tree cache, EOIE offset/hash, trailer checksum (SHA-1 from
    hashlib as data), and the state gix reads back = what the file holds. Also for seeded git-made indices
    (versions 2/3/4, conflicts, sparse, ITA ...) mutated through the API.
 C: the written files are listed by `git ls-files --stage --debug` (must equal the expected entries) and
    checked by `git fsck` (index checksum).
"""
import collections
import hashlib
import os
import shutil

from props import idxworlds as W
from vf import *

LEVEL = "exploration"
META = {
    "technique": "TLA+ byte-level reader/renderer of the index format; TLC generates abstract states + rendered input files + expected stored state, and decodes every file gix wrote; git ls-files --debug / fsck audit the same files",
    "note": "SHA-1 (trailer, EOIE) is passed in from hashlib. Judged: files written by State/File::write_to for states with tree cache / sparse marker; REUC, UNTR, FSMN, link are not written by gix-index at all (outside the property's quantifier, reported as observation).",
}
OPTS = ["all", "none", "tree", "eoie"]


def sha1(b):
    return list(hashlib.sha1(bytes(b)).digest())


def fill(seq, eoie_pre):
    """replace the SHA-1 placeholders (256) of a rendered file: EOIE hash first, then the trailer"""
    b = list(seq)
    holes = [i for i, v in enumerate(b) if v == 256]
    if len(holes) not in (20, 40):
        raise ToolError("rendered index has %d placeholder bytes" % len(holes))
    if len(holes) == 40:
        h = sha1(eoie_pre)
        for k, i in enumerate(holes[:20]):
            b[i] = h[k]
    body_end = len(b) - 20
    h = sha1(b[:body_end])
    for k in range(20):
        b[body_end + k] = h[k]
    return b


def strip_other(entries):
    return [{k: v for k, v in e.items() if k != "other_flags"} for e in entries]


def event(out, expect, eoie_pre, check_eoie=True):
    ob = out["bytes"]
    rr = out["reread"]
    return {"out": ob, "expect": expect, "reread": rr.get("state", {}), "reread_failed": "state" not in rr,
            "version_ret": out["version"], "checksum": out["checksum"], "sha_body": sha1(ob[:-20]),
            "check_eoie": check_eoie, "eoie_pre": eoie_pre, "eoie_sha": sha1(eoie_pre)}


def why(ctx, events):
    if not events:
        return []
    path = os.path.join(ctx.work, "why-%d.ndjson" % len(ctx.cov["tlc_runs"]))
    with open(path, "w") as f:
        for ev in events:
            f.write(json.dumps(ev, separators=(",", ":")) + "\n")
    out = ctx.tlc_gen("index", "IndexWrite_Why", tag="WHY", workers=1, env={"TRACE": path}, timeout=3000)
    res = [[] for _ in events]
    for o in out:
        res[o["i"] - 1] = sorted(o["why"])
    return res


def eoie_pres(ctx, outs):
    """pass 1 for files whose expected EOIE pre-image is not known from a generator: ask the reference
    reader what the EOIE hash of each file has to cover"""
    path = os.path.join(ctx.work, "pre-%d.ndjson" % len(ctx.cov["tlc_runs"]))
    with open(path, "w") as f:
        for ob in outs:
            f.write(json.dumps({"bytes": ob}, separators=(",", ":")) + "\n")
    res = ctx.tlc_gen("index", "IndexFormat_Pre", tag="PRE", workers=1, env={"TRACE": path}, timeout=3000)
    pres = [[] for _ in outs]
    for o in res:
        pres[o["i"] - 1] = o["pre"]
    return pres


def audit_git(ctx, items, label):
    """binding C: items = [(bytes written, expected entries, sparse)] -> git must list exactly these entries and accept the checksum"""
    repo = os.path.join(ctx.work, "audit-" + label)
    shutil.rmtree(repo, ignore_errors=True)
    os.makedirs(repo)
    git(["init", "-q", "."], cwd=repo, check=True)
    n = 0
    for k, (ob, entries, what) in enumerate(items):
        idx = os.path.join(repo, ".git", "index")
        with open(idx, "wb") as f:
            f.write(bytes(ob))
        listed, err = W.git_listing(repo)
        if listed is None:
            ctx.violation({"kind": "git-rejects", "case": what, "classes": ["git-rejects"], "stderr": err[-300:]})
            continue
        if listed != entries:
            bad = [i for i, (a, b) in enumerate(zip(listed, entries)) if a != b][:1]
            ctx.violation({"kind": "git-lists-differently", "case": what, "classes": ["git-listing"], "first_difference": bad,
                           "git": len(listed), "expected": len(entries)})
            continue
        p = git(["fsck", "--no-dangling", "--connectivity-only"], cwd=repo, timeout=300)
        msg = p.stderr.decode("utf-8", "replace")
        if "bad index file sha1 signature" in msg or "index file corrupt" in msg or "bad signature" in msg:
            ctx.violation({"kind": "git-fsck", "case": what, "classes": ["git-checksum"], "stderr": msg[-300:]})
            continue
        n += 1
    ctx.log("audit %s: git listed exactly the expected entries and accepted the checksum for %d written files" % (label, n))
    ctx.cov["git_audited"] = ctx.cov.get("git_audited", 0) + n
    shutil.rmtree(repo, ignore_errors=True)


def audit_rendered(ctx, items):
    """binding C for the renderer: git must read the files the specification rendered as the states they were rendered from"""
    repo = os.path.join(ctx.work, "audit-rendered")
    shutil.rmtree(repo, ignore_errors=True)
    os.makedirs(repo)
    git(["init", "-q", "."], cwd=repo, check=True)
    big = [it for it in items if len(it[0]) > 4000]
    small = [it for it in items if len(it[0]) <= 4000]
    k = 400 if ctx.thorough else 50
    pick = (small if len(small) <= k else ctx.rng.sample(small, k)) + big[: (40 if ctx.thorough else 10)]
    for ib, entries in pick:
        with open(os.path.join(repo, ".git", "index"), "wb") as f:
            f.write(bytes(ib))
        listed, err = W.git_listing(repo)
        if listed is None or listed != entries:
            audit_mismatch(ctx, "IndexFormat.Render", {"git_error": err[-200:], "git_entries": None if listed is None else len(listed), "spec_entries": len(entries),
                                                        "len": len(ib)})
        p = git(["fsck", "--no-dangling", "--connectivity-only"], cwd=repo, timeout=300)
        if "index file corrupt" in p.stderr.decode("utf-8", "replace"):
            audit_mismatch(ctx, "IndexFormat.Render (checksum)", {"len": len(ib)})
    ctx.log("audit rendered: git reads %d specification-rendered index files as the states they were rendered from" % len(pick))
    ctx.cov["git_audited"] = ctx.cov.get("git_audited", 0) + len(pick)
    shutil.rmtree(repo, ignore_errors=True)


def run(ctx):
    binary = ctx.build("vh-c25")
    cases = ctx.tlc_gen("index", "IndexWrite_Gen", consts={"Family": '"flags"', "MaxPaths": 3 if ctx.thorough else 2, "TreeShapes": 3 if ctx.thorough else 2}, workers=6, timeout=3000)
    cases += ctx.tlc_gen("index", "IndexWrite_Gen", consts={"Family": '"paths"', "PathVersions": "{2, 4}" if ctx.thorough else "{2}"}, workers=6, timeout=3000)
    ctx.cov["exhaustive"] = True
    # states of the "paths" family are assembled through the API (dangerously_push_entry + sort_entries), the others are
    # loaded from the file the specification rendered
    ecases = []
    for c in cases:
        ec = {"input": fill(c["input"], c["input_eoie_pre"]), "op": c["op"], "opts": OPTS}
        if c["family"] == "paths":
            ec["build"] = c["state_entries"]
        ecases.append(ec)
    audit_rendered(ctx, [(ec["input"], c["state_entries"]) for ec, c in zip(ecases, cases)])
    results = ctx.harness(binary, ecases, timeout=3000)
    events, owner = [], []
    for ci, (c, r) in enumerate(zip(cases, results)):
        g = r.get("got")
        if g is None or "load_error" in g:
            ctx.violation({"kind": "load", "case": {"input": ecases[ci]["input"], "op": c["op"]}, "classes": ["load-failed"], "result": r})
            continue
        for o in g["outs"]:
            opt = o["opt"]
            if "bytes" not in o:
                ctx.violation({"kind": "write", "case": {"input": ecases[ci]["input"], "op": c["op"], "opts": [opt]}, "classes": ["write-failed"], "result": o})
                continue
            events.append(event(o, c["outs"][opt]["expect"], c["outs"][opt]["eoie_pre"]))
            owner.append(("gen", ci, opt))
        if c["op"]["kind"] != "none" or any(e["extended"] or e["stage"] for e in c["outs"]["all"]["expect"]["entries"]):
            ctx.nontrivial(json.dumps([c["input"][:2000], c["op"]]))
    n_gen = len(events)

    # B: git-made indices, mutated through the API; the expected stored state is the in-memory state the executor reports
    nw = 60 if ctx.thorough else 8
    worlds = []
    for k in range(nw):
        feats = [ctx.rng.choice(["v2", "v4"])] + [f for f in ("threads", "ita", "skipwt", "assume", "conflict", "sparse", "longpath", "notree")
                                                  if ctx.rng.random() < 0.3]
        repo = os.path.join(ctx.work, "world-%d" % k)
        W.make_world(ctx.rng, repo, feats)
        worlds.append((repo, feats))
    wcases = []
    for repo, feats in worlds:
        for op in ({"kind": "none", "k": 0}, {"kind": "remove", "k": 1}, {"kind": "skip", "k": 1}):
            wcases.append({"path": os.path.join(repo, ".git", "index"), "op": op, "opts": OPTS, "features": feats})
    wres = ctx.harness(binary, wcases, timeout=3000)
    pending = []
    for wi, (c, r) in enumerate(zip(wcases, wres)):
        g = r.get("got")
        if g is None or "load_error" in g:
            ctx.violation({"kind": "load", "case": c, "classes": ["load-failed"], "result": r})
            continue
        mem = g["memory"]
        for o in g["outs"]:
            if "bytes" not in o:
                ctx.violation({"kind": "write", "case": dict(c, opts=[o["opt"]]), "classes": ["write-failed"], "result": o})
                continue
            expect = {"version": 2, "entries": strip_other(mem["entries"]),
                      "tree": mem["tree"] if o["opt"] in ("all", "tree") else {"present": False},
                      "sdir": mem["sparse"], "eoie": o["opt"] in ("all", "eoie")}
            pending.append((o, expect, ("world", wi, o["opt"])))
        ctx.nontrivial(json.dumps([c["features"], c["op"]]) + str(wi))
    # the EOIE hash of these files needs a first pass through the reference reader (what the hash covers); thorough tier only -
    # the generated states above have their EOIE hash checked in both tiers
    pres = eoie_pres(ctx, [o["bytes"] for o, _e, _w in pending]) if (pending and ctx.thorough) else [[] for _ in pending]
    for (o, expect, own), pre in zip(pending, pres):
        events.append(event(o, expect, pre, check_eoie=ctx.thorough))
        owner.append(own)

    rej = ctx.tlc_trace("index", "IndexWrite_Trace", events, timeout=3000, xmx="8g")
    ctx.log("binding B: %d written files (%d from generated states, %d from git-made indices) decoded by the reference reader, %d rejected"
            % (len(events), n_gen, len(events) - n_gen, len(rej)))
    reasons = why(ctx, [events[i] for i in rej])
    counts = collections.Counter()
    rejected = set(rej)
    for i, rs in zip(rej, reasons):
        kind, ci, opt = owner[i]
        case = (dict(ecases[ci], opts=[opt], expect=events[i]["expect"], eoie_pre=events[i]["eoie_pre"])
                if kind == "gen" else dict(wcases[ci], opts=[opt]))
        key = "+".join(rs) + ("/op=" + case["op"]["kind"])
        counts[key] += 1
        ctx.violation({"kind": kind, "case": case, "classes": rs, "op": case["op"]["kind"], "opt": opt,
                       "written_len": len(events[i]["out"]), "version_written": events[i]["version_ret"]})
    for k in sorted(counts):
        ctx.log("rejected: %s x %d" % (k, counts[k]))
    ctx.cov["rejections"] = dict(counts)

    # C: git on the written files the reference reader accepted (and a few it rejected are reported above already)
    ok = [i for i in range(len(events)) if i not in rejected]
    pick = ok if len(ok) <= (500 if ctx.thorough else 100) else ctx.rng.sample(ok, 500 if ctx.thorough else 100)
    audit_git(ctx, [(events[i]["out"], events[i]["expect"]["entries"], {"owner": list(owner[i])}) for i in pick
                    if not events[i]["expect"]["sdir"]], "written")
    c = cases[len(cases) // 2]
    ctx.sample({"op": c["op"], "expected_entries": [show_bytes(e["path"])[:40] for e in c["outs"]["all"]["expect"]["entries"]],
                "expected_version": c["outs"]["all"]["expect"]["version"]})
    ctx.cov["rule"] = ("A: every state of IndexWrite_Gen (<= %d short paths x 5 entry kinds x 3 tree-cache shapes x input version {2|3, 4}; path lengths "
                       "1,2,7,8,9,4094..4097) x mutations {none, remove first/last, skip-worktree, intent-to-add without EXTENDED} x 4 extension options; "
                       "B: %d seeded git-made indices x 3 mutations x 4 options. Non-trivial = a mutation is applied or the state has extended flags / "
                       "conflict stages; distinct by (input, mutation)." % (3 if ctx.thorough else 2, nw))
    ctx.assumptions += ["SHA-1 values are computed by hashlib and passed to the specification as data",
                        "EOIE is optional in a valid file: it may only appear when asked for and must then be valid",
                        "git 2.39.5 `ls-files --stage --debug` and `fsck` are the judges of acceptability for git"]


def replay(ctx, rec):
    binary = ctx.build("vh-c25")
    c = rec["case"]
    ec = {k: c[k] for k in ("input", "build", "path", "op", "opts") if k in c}
    r = ctx.harness(binary, [ec])[0]
    g = r.get("got")
    if g is None or "load_error" in g:
        ctx.violation(dict(rec, result=r))
        return
    for o in g["outs"]:
        if "bytes" not in o:
            ctx.violation(dict(rec, result=o))
            continue
        if "expect" in c:
            ev = event(o, c["expect"], c["eoie_pre"])
        else:
            mem = g["memory"]
            expect = {"version": 2, "entries": strip_other(mem["entries"]), "tree": mem["tree"] if o["opt"] in ("all", "tree") else {"present": False},
                      "sdir": mem["sparse"], "eoie": o["opt"] in ("all", "eoie")}
            ev = event(o, expect, eoie_pres(ctx, [o["bytes"]])[0])
        if ctx.tlc_trace("index", "IndexWrite_Trace", [ev]):
            ctx.violation({"kind": rec.get("kind"), "case": c, "classes": why(ctx, [ev])[0], "op": c["op"]["kind"], "opt": o["opt"]})
