"""C24 - Index files decode to exactly what git wrote, for any thread limit.

spec/index/IndexFormat.tla is a byte-level reference reader of the index format: header, v2/v3 entries
with padding, v4 prefix compression (reset at IEOT blocks), TREE, REUC, UNTR (directory blocks, EWAH
bitmaps, stat blocks), EOIE, IEOT, sdir, trailer; plus the threaded reader as a composition
(Chunks -> per-block decode -> in-order stitch) whose result must be the sequential one.
 B: seeded small worlds are turned into index files *by git* (index.version 2/3/4, index.threads,
    untracked cache with mtime != ctime, intent-to-add, skip-worktree, assume-unchanged, conflicts,
    resolve-undo, sparse index, paths beyond 0xfff bytes); gix_index::State::from_bytes decodes each file
    with thread limits 1..16 (extension threading threshold 0); IndexFormat_Trace demands state =
    Decode(bytes) for every thread limit, and Stitch(n) = Decode for n in 1..16 on the real bytes.
 A: the index files rendered by the specification for C25's generator (flag / padding / path-length
    corners git rarely produces, Decode(Render(s)) = s model-checked) are decoded the same way.
 C: `git ls-files --stage --debug` on every small file must equal the reference reader's entries
    (IndexFormat_GitTrace; mismatch = tool error); large git-made indices (thousands of entries, many IEOT
    blocks) are checked for equality across thread limits and against the git listing.
 MC: IndexFormat_MC model-checks the chunking arithmetic of the threaded reader on abstract lists.
"""
import collections
import os
import shutil

from props import idxworlds as W
from props import c25
from vf import *

LEVEL = "exploration"
META = {
    "technique": "TLA+ byte-level reference reader of the index format evaluated by TLC on every git-written file; threaded reader modelled as chunk/stitch composition and checked on the real bytes and by TLC on abstract lists; audited against git ls-files --debug",
    "note": "resolve-undo and untracked-cache contents have no public accessors in gix-index: the executor reads them through structurally identical mirror types (documented in vh-c24/src/dump.rs). link (split index) and FSMN are outside the property's quantifier.",
}
THREADS = list(range(1, 17))


def decode_events(ctx, binary, files):
    """files: [(bytes or path, meta)] -> events for IndexFormat_Trace (+ owners)"""
    cases = []
    for src, _meta in files:
        cases.append({"path": src, "threads": THREADS} if isinstance(src, str) else {"bytes": src, "threads": THREADS})
    res = ctx.harness(binary, cases, timeout=3000)
    events = []
    for (src, meta), r in zip(files, res):
        b = list(open(src, "rb").read()) if isinstance(src, str) else src
        g = r.get("got")
        if g is None:
            events.append({"bytes": b, "states": [], "failed": True, "_crash": r})
            continue
        events.append({"bytes": b, "states": [x["state"] for x in g["results"] if "state" in x],
                       "failed": any("state" not in x for x in g["results"]),
                       "_errors": [x for x in g["results"] if "state" not in x]})
    return events


def label(ctx, events, consts=None):
    if not events:
        return []
    path = os.path.join(ctx.work, "diff-%d.ndjson" % len(ctx.cov["tlc_runs"]))
    with open(path, "w") as f:
        for ev in events:
            f.write(json.dumps({k: v for k, v in ev.items() if not k.startswith("_")}, separators=(",", ":")) + "\n")
    out = ctx.tlc_gen("index", "IndexFormat_Diff", tag="WHY", workers=1, env={"TRACE": path}, timeout=3000, consts=consts)
    res = [[] for _ in events]
    for o in out:
        res[o["i"] - 1] = sorted(o["why"])
    return res


def classes_of(ctx, events):
    """labels of rejected events: the parts that differ, or `ext-stat-swap` if the stat-order slip of decode::stat (Bug_ExtStatSwap
    in IndexFormat.tla) explains the whole difference"""
    why = label(ctx, events)
    swap = label(ctx, events, consts={"Bug_ExtStatSwap": "TRUE"}) if any(w == ["untr"] for w in why) else [None] * len(events)
    return [["ext-stat-swap"] if (w == ["untr"] and s == []) else w for w, s in zip(why, swap)]


def clean(ev):
    return {k: v for k, v in ev.items() if not k.startswith("_")}


def big_world(ctx, repo, n, version, threads):
    """an index with n entries made through update-index --index-info (no worktree files needed); reproducible from (seed, n, version, threads)"""
    import random
    rng = random.Random("%s-%s-%s-%s" % (ctx.seed, n, version, threads))
    shutil.rmtree(repo, ignore_errors=True)
    os.makedirs(repo)
    git(["init", "-q", "."], cwd=repo, check=True)
    lines = []
    dirs = ["src", "src/core", "src/core/util", "lib", "docs/api", "t", "vendor/x/y/z"]
    for k in range(n):
        d = dirs[k % len(dirs)]
        path = "%s/file_%05d_%s.rs" % (d, k, "x" * rng.randint(0, 30))
        sha = "%040x" % rng.getrandbits(160)
        if k % 97 == 0:
            for stage in (1, 2, 3):
                lines.append("100644 %s %d\t%s\n" % (sha, stage, path))
        else:
            lines.append("%s %s 0\t%s\n" % (rng.choice(["100644", "100755", "120000"]), sha, path))
    conf = ["-c", "index.version=%d" % version, "-c", "index.threads=%d" % threads, "-c", "core.fsync=none"]
    git(conf + ["update-index", "--index-info"], cwd=repo, input="".join(lines).encode(), check=True, timeout=600)
    return os.path.join(repo, ".git", "index")


def run(ctx):
    binary = ctx.build("vh-c24")
    ctx.tlc_mc("index", "IndexFormat_MC", workers=4, coverage=False)

    # ---- B: git-made small worlds
    nw = 90 if ctx.thorough else 16
    must = [["v4", "threads", "untracked"], ["v2", "untracked", "ita"], ["v2", "conflict", "reuc"], ["v4", "threads", "sparse"],
            ["v2", "reuc"], ["v4", "threads", "conflict", "skipwt", "assume", "longpath"], ["v2", "notree"]]
    files = []
    for k in range(nw):
        feats = must[k] if k < len(must) else [ctx.rng.choice(["v2", "v4"])] + [f for f in W.FEATURES[2:] if ctx.rng.random() < 0.3]
        repo = os.path.join(ctx.work, "world-%d" % k)
        W.make_world(ctx.rng, repo, feats)
        files.append((os.path.join(repo, ".git", "index"), {"features": feats, "repo": repo}))
        ctx.nontrivial("world:" + json.dumps(feats) + str(k))
    # paths whose length does not fit the 12 bit field (only reachable through --cacheinfo)
    for k, plen in enumerate([4095, 4096, 4097, 4100] if ctx.thorough else [4095, 4097]):
        repo = os.path.join(ctx.work, "longworld-%d" % k)
        shutil.rmtree(repo, ignore_errors=True)
        os.makedirs(repo)
        git(["init", "-q", "."], cwd=repo, check=True)
        with open(os.path.join(repo, "a"), "w") as f:
            f.write("a\n")
        git(["add", "a"], cwd=repo, check=True)
        p = git(["update-index", "--add", "--cacheinfo", "100644,%040x,%s" % (7, "L" * plen)], cwd=repo, check=True)
        files.append((os.path.join(repo, ".git", "index"), {"features": ["v2", "path-%d" % plen], "repo": repo}))
        ctx.nontrivial("longworld:%d" % plen)
    n_git = len(files)

    # ---- A: files rendered by the specification (C25's generator): flag, padding and path-length corners
    gen = ctx.tlc_gen("index", "IndexWrite_Gen", consts={"Family": '"flags"', "MaxPaths": 2, "AllOps": "FALSE"}, workers=6, timeout=3000)
    gen += ctx.tlc_gen("index", "IndexWrite_Gen", consts={"Family": '"paths"', "AllOps": "FALSE", "PathVersions": "{2, 4}" if ctx.thorough else "{2}"}, workers=6, timeout=3000)
    seen = set()
    for c in gen:
        b = c25.fill(c["input"], c["input_eoie_pre"])
        key = bytes(b)
        if key in seen:
            continue
        seen.add(key)
        files.append((b, {"features": ["rendered", c["family"]], "entries": len(c["state_entries"])}))
        if len(b) > 200:
            ctx.nontrivial(hashlib_key(key))
    ctx.cov["exhaustive"] = True

    events = decode_events(ctx, binary, files)
    rej = ctx.tlc_trace("index", "IndexFormat_Trace", [clean(e) for e in events], timeout=3000, xmx="8g")
    ctx.log("binding A/B: %d index files (%d written by git, %d rendered by the specification) x thread limits 1..16, %d rejected"
            % (len(events), n_git, len(events) - n_git, len(rej)))
    why = classes_of(ctx, [events[i] for i in rej])
    counts = collections.Counter()
    for i, w in zip(rej, why):
        src, meta = files[i]
        if "spec-cannot-read" in w or "spec-stitch" in w:
            if i < n_git:
                audit_mismatch(ctx, "IndexFormat.Decode cannot read a file git wrote", {"features": meta["features"], "why": w})
            raise ToolError("the reference reader cannot read a file it rendered itself: %s" % w)
        classes = w
        counts["+".join(classes)] += 1
        case = {"features": meta["features"], "threads": THREADS}
        case["bytes"] = events[i]["bytes"]
        ctx.violation({"kind": "git-made" if i < n_git else "rendered", "case": case, "classes": classes,
                       "errors": events[i].get("_errors", [])[:2], "distinct_states": len(events[i]["states"])})
    for k in sorted(counts):
        ctx.log("rejected: %s x %d" % (k, counts[k]))
    ctx.cov["rejections"] = dict(counts)

    # ---- C: the reference reader against git itself on the git-made files
    gevents = []
    for (src, meta), ev in list(zip(files, events))[:n_git]:
        listed, err = W.git_listing(meta["repo"], extra=["--sparse"])
        if listed is None:
            raise ToolError("git ls-files failed on its own index: " + err[-200:])
        gevents.append({"bytes": ev["bytes"], "git_entries": listed})
    grej = ctx.tlc_trace("index", "IndexFormat_GitTrace", gevents, timeout=3000)
    ctx.cov["traces_validated_against_impl"] = max(0, ctx.cov["traces_validated_against_impl"] - 1)
    if grej:
        audit_mismatch(ctx, "IndexFormat.Decode vs git ls-files --stage --debug", {"features": files[grej[0]][1]["features"]})
    ctx.log("audit: the reference reader lists the same entries as git ls-files --stage --debug --sparse for %d files" % len(gevents))
    ctx.cov["git_audited"] = len(gevents)

    # ---- large indices: equal for every thread limit, and equal to git's listing
    specs = [(5000, 4, 8), (3000, 2, 3)] if not ctx.thorough else [(5000, 4, 8), (3000, 2, 3), (20000, 4, 16), (12000, 4, 5), (7000, 2, 7)]
    bigfiles = []
    for k, (n, version, threads) in enumerate(specs):
        repo = os.path.join(ctx.work, "big-%d" % k)
        bigfiles.append((big_world(ctx, repo, n, version, threads), repo, (n, version, threads)))
    for path, repo, spec in bigfiles:
        check_big(ctx, binary, path, repo, spec)
        ctx.nontrivial("big:%s" % json.dumps(spec))
    ctx.log("large indices: %s entries decoded identically with thread limits 1..16 and equal to git's listing" % [s[0] for _p, _r, s in bigfiles])

    ctx.sample({"features": files[0][1]["features"], "bytes": len(events[0]["bytes"]), "distinct_states_over_thread_limits": len(events[0]["states"])})
    ctx.cov["rule"] = ("B: %d seeded git-made worlds (1..15 files, feature sets over {v2,v4,index.threads,untracked cache,ITA,skip-worktree,assume-unchanged,"
                       "conflict,resolve-undo,sparse index,long paths,invalidated tree}) + paths of 4095.. bytes; A: %d distinct specification-rendered files; "
                       "every file decoded with thread limits 1..16. Non-trivial = every git-made world, every rendered file > 200 bytes; large: %s entries."
                       % (nw, len(events) - n_git, [s[0] for s in specs]))
    ctx.assumptions += ["git 2.39.5 wrote the index files; `git ls-files --stage --debug [--sparse]` audits the reference reader's entries",
                        "SHA-1 values (trailer, EOIE) of git-written files are not re-verified (uninterpreted)",
                        "split index (link) and fsmonitor extensions are not produced"]


def check_big(ctx, binary, path, repo, spec):
    r = ctx.harness(binary, [{"path": path, "threads": THREADS}], timeout=3000)[0]
    g = r.get("got")
    what = {"big": list(spec), "entries": spec[0], "version": spec[1], "index.threads": spec[2]}
    if g is None or len(g["results"]) != 1 or "state" not in g["results"][0]:
        ctx.violation({"kind": "large", "case": what, "classes": ["thread-dependent" if g else "crash"],
                       "outcomes": [{k: v for k, v in x.items() if k != "state"} for x in (g or {}).get("results", [])]})
        return
    st = g["results"][0]["state"]
    listed, err = W.git_listing(repo)
    got = c25.strip_other(st["entries"])
    if listed != got:
        first = next((i for i, (a, b) in enumerate(zip(listed, got)) if a != b), min(len(listed), len(got)))
        ctx.violation({"kind": "large", "case": what, "classes": ["entries-vs-git"], "first_difference": first, "git": len(listed), "gix": len(got)})
    if not (st["eoie"] and st["ieot"] and st["version"] == spec[1]):
        raise ToolError("large world was expected to carry EOIE/IEOT: %s" % json.dumps({k: st[k] for k in ("eoie", "ieot", "version")}))


def hashlib_key(b):
    import hashlib
    return hashlib.sha1(b).hexdigest()


def replay(ctx, rec):
    binary = ctx.build("vh-c24")
    c = rec["case"]
    if "big" in c:
        repo = os.path.join(ctx.work, "big-replay")
        check_big(ctx, binary, big_world(ctx, repo, *c["big"]), repo, tuple(c["big"]))
        return
    ev = decode_events(ctx, binary, [(c["bytes"], {})])[0]
    if ctx.tlc_trace("index", "IndexFormat_Trace", [clean(ev)]):
        ctx.violation({"kind": rec.get("kind"), "case": c, "classes": classes_of(ctx, [ev])[0]})
