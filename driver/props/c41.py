"""C41 - Checkout stays inside the worktree and reproduces the index.

spec/worktree/Checkout.tla: a POSIX file system with symbolic links (Walk resolves leading components through
links; lstat / O_NOFOLLOW / symlink / unlink do not follow the last one) and the checkout of one index entry as
gix_worktree_state does it (validated components, leading directories looked at with lstat and created, a
symlink in the way is a collision - removed when overwriting, an error otherwise - never followed; leaf opened
no-follow, exclusive in an empty destination; symlinks created last and sequentially; the path stack's reuse of
the previous entry's directories). TLC checks Contained (nothing outside the destination changes), GitDirUntouched
and BenignPresent for every index of <= 3 entries from a hostile alphabet x 5 initial destinations x overwrite x
every schedule of two worker threads; the Bug_FormerLeafNotRechecked switch (the path stack of the pinned commit)
is shown to violate Contained.
 A: Checkout_Gen prints every world (one thread) with the model's final file system; each is materialised in a
    sandbox (dest/, dest/.git/, out/) and checked out by gix_worktree_state::checkout from an index built without
    validation, with 1, 2 and 8 threads, keep_going on/off.
 B: the whole sandbox is snapshotted before/after (types, contents, modes, link targets, mtimes) and judged by
    Checkout_Trace: outside and dest/.git untouched, non-colliding entries present exactly, nothing else in an
    empty destination. Seeded random benign trees (nested directories, exec bits, symlinks pointing anywhere,
    eol attributes, 150-400 padding files so that several threads really run) are judged the same way.
 C: for the benign trees `git checkout-index -a --prefix` into a second directory supplies the smudged contents
    (filters are uninterpreted in the specification) and must agree with the index the specification is given.
"""
import hashlib
import os
import stat
import subprocess
from vf import *

LEVEL = "model_checking"
META = {
    "technique": "TLA+ model of a POSIX file system with symlinks and of the per-entry checkout algorithm, model-checked by TLC for containment over hostile small indices, initial destinations, options and thread schedules; every TLC world materialised in a sandbox and checked out by gix-worktree-state; before/after snapshots of the whole sandbox judged by a TLC trace spec; git checkout-index as evaluator of smudged contents",
    "note": "Small worlds: <= 3 entries of a 10-entry alphabet (D/F pairs, symlink then path through it, symlink already in the destination, .git/hooks, case pair). Linux, case-sensitive file system, symlinks and executable bits supported. Filters other than eol conversion (ident, drivers) are C43's subject and are not exercised; delayed/long-running filter processes are not modelled. Concurrent foreign writers are out of scope (documented in the code).",
}


def snapshot(root, dest_rel="dest"):
    """every object below root: [{path: [comps], t, c, x, to, m}] (root itself included)"""
    out = []

    def node(p, comps):
        st = os.lstat(p)
        inside = comps[:1] == [dest_rel] and comps[1:2] != [".git"]
        m = "" if inside else "%d" % st.st_mtime_ns
        if stat.S_ISLNK(st.st_mode):
            return {"path": comps, "t": "link", "c": "", "x": False, "to": os.readlink(p), "m": m}
        if stat.S_ISDIR(st.st_mode):
            return {"path": comps, "t": "dir", "c": "", "x": False, "to": "", "m": m if not inside else ""}
        data = open(p, "rb").read()
        return {"path": comps, "t": "file", "c": text_of(data), "x": bool(st.st_mode & 0o111), "to": "", "m": m}

    def walk(p, comps):
        n = node(p, comps)
        out.append(n)
        if n["t"] == "dir":
            for name in sorted(os.listdir(p)):
                walk(os.path.join(p, name), comps + [name])
    walk(root, [])
    return out


def text_of(data):
    if all(32 <= b < 127 for b in data):
        return data.decode()
    return "sha1:" + hashlib.sha1(data).hexdigest()


def materialise_fs(sandbox, nodes):
    """TLC's abstract file system -> real objects (link targets are absolute paths below the sandbox)"""
    for n in sorted(nodes, key=lambda n: len(n["path"])):
        p = os.path.join(sandbox, *n["path"])
        if n["t"] == "dir":
            os.makedirs(p, exist_ok=True)
        elif n["t"] == "file":
            with open(p, "wb") as f:
                f.write(n["c"].encode())
            os.chmod(p, 0o755 if n["x"] else 0o644)
        else:
            os.symlink(os.path.join(sandbox, *n["to"]), p)
    # read back
    snap = {tuple(n["path"]): n for n in snapshot(sandbox)}
    for n in nodes:
        got = snap.get(tuple(n["path"]))
        want_to = os.path.join(sandbox, *n["to"]) if n["t"] == "link" else ""
        if got is None or got["t"] != n["t"] or (n["t"] == "file" and (got["c"] != n["c"] or got["x"] != n["x"])) or got["to"] != want_to:
            raise ToolError("materialisation of the initial destination failed at %s" % "/".join(n["path"]))


def real_entry(sandbox, e):
    """abstract index entry -> (harness entry, trace entry)"""
    path = "/".join(e["path"])
    if e["kind"] == "link":
        target = os.path.join(sandbox, *e["to"])
        return ({"path": b2l(path.encode()), "kind": "link", "data": b2l(target.encode())},
                {"path": e["path"], "kind": "link", "c": "", "to": target})
    return ({"path": b2l(path.encode()), "kind": e["kind"], "data": b2l(e["c"].encode())},
            {"path": e["path"], "kind": e["kind"], "c": e["c"], "to": ""})


def world_text(c):
    idx = ", ".join("%s:%s" % ("/".join(e["path"]), e["kind"] + ("->" + "/".join(e["to"]) if e["kind"] == "link" else "")) for e in c["index"])
    pre = ", ".join("%s(%s%s)" % ("/".join(n["path"]), n["t"], "->" + "/".join(n["to"]) if n["t"] == "link" else "")
                    for n in c["fs0"] if len(n["path"]) > 1 and n["path"][0] == "dest" and n["path"][1] != ".git")
    return "index {%s}; destination has {%s}; overwrite=%s" % (idx, pre, c["overwrite"])


def run_small(ctx, binary, cases, configs):
    runs = []
    for k, c in enumerate(cases):
        for (threads, keep_going) in configs:
            sb = os.path.join(ctx.work, "sb", "%05d-%d-%d" % (k, threads, keep_going))
            os.makedirs(sb)
            materialise_fs(sb, c["fs0"])
            before = snapshot(sb)
            ents = [real_entry(sb, e) for e in c["index"]]
            hc = {"dest": os.path.join(sb, "dest"), "entries": [h for (h, _t) in ents], "overwrite": c["overwrite"], "empty": c["empty"],
                  "threads": threads, "keep_going": keep_going}
            runs.append((k, c, sb, before, [t for (_h, t) in ents], hc))
    results = ctx.harness(binary, [r[5] for r in runs], timeout=3000)
    events, owners = [], []
    exact, total = 0, 0
    for (k, c, sb, before, tents, hc), r in zip(runs, results):
        rec = {"kind": "small", "case": {"world": {kk: c[kk] for kk in ("index", "fs0", "overwrite", "empty")},
                                         "threads": hc["threads"], "keep_going": hc["keep_going"]},
               "world_text": world_text(c), "overwrite": c["overwrite"],
               "paths": sorted("/".join(e["path"]) for e in c["index"])}
        if "got" not in r:
            ctx.violation(dict(rec, classes=["crash"], what="checkout panicked/hung", result=r))
            continue
        after = snapshot(sb)
        g = r["got"]
        events.append({"index": tents, "fs0": before, "fs": after, "overwrite": c["overwrite"], "empty": c["empty"], "ok": g["ok"],
                       "exact": False})
        owners.append(dict(rec, result={kk: g[kk] for kk in ("ok", "err", "collisions", "errors")}))
        if any(not b for b in c["benign"]) or len(c["fs0"]) > 6:
            ctx.nontrivial("small:" + json.dumps([c["index"], c["fs0"], c["overwrite"]], sort_keys=True))
        # conformance with the model's own final state (informational: the property is judged by the trace spec)
        if hc["threads"] == 1 and hc["keep_going"]:
            total += 1
            want = {tuple(n["path"]): (n["t"], n["c"], n["x"], os.path.join(sb, *n["to"]) if n["t"] == "link" else "") for n in c["final"]}
            got = {tuple(n["path"]): (n["t"], n["c"], n["x"], n["to"]) for n in after}
            if want == got:
                exact += 1
        shutil.rmtree(sb, ignore_errors=True)
    for bi in ctx.tlc_trace("worktree", "Checkout_Trace", events):
        e = events[bi]
        b0 = {tuple(n["path"]): n for n in e["fs0"]}
        b1 = {tuple(n["path"]): n for n in e["fs"]}
        changed = sorted("/".join(p) for p in set(b0) | set(b1) if b0.get(p) != b1.get(p))
        outside = [p for p in changed if not p.startswith("dest/") and p != "dest"]
        ctx.violation(dict(owners[bi], classes=["small", "escape" if outside else "content"], changed=changed, outside=outside,
                           what="checkout changed something outside the destination" if outside else
                           "a non-colliding entry is not checked out as the index says, or dest/.git changed"))
    ex = ctx.cov.get("exact_agreement_with_model_final_state", [0, 0])
    ctx.cov["exact_agreement_with_model_final_state"] = [ex[0] + exact, ex[1] + total]
    ctx.cov["small_world_checkouts"] = ctx.cov.get("small_world_checkouts", 0) + len(runs)


# ------------------------------------------------------------------ seeded benign trees
def random_tree(rng, npad):
    """{path: ("file"|"exec", bytes) | ("link", target str)} without D/F conflicts"""
    tree = {}
    dirs = ["", "src/", "src/deep/er/", "Docs/", "docs/", "a b/", "x/y/z/"]
    names = ["main.txt", "Main.txt", "run.sh", "data.bin", "README", "notes.txt", "conf.ini", "z"]
    for _ in range(rng.randint(8, 20)):
        p = rng.choice(dirs) + rng.choice(names)
        eol = rng.choice(["\n", "\r\n", "\n"])
        body = eol.join("line %d %s" % (i, "w" * rng.randint(0, 12)) for i in range(rng.randint(0, 6))) + (eol if rng.random() < 0.8 else "")
        if p.endswith(".bin"):
            body = "".join(chr(rng.randrange(256)) for _ in range(rng.randint(1, 40)))
            tree[p] = ("file", body.encode("latin-1"))
        else:
            tree[p] = ("exec" if p.endswith(".sh") or rng.random() < 0.15 else "file", body.encode())
    targets = ["main.txt", "../README", "/etc/passwd", "../../out/keep", "../../../out", "nowhere", ".", "..", "src/deep", "x/../../out/keep"]
    for i in range(rng.randint(2, 6)):
        p = rng.choice(dirs) + "link%d" % i
        tree[p] = ("link", rng.choice(targets))
    if rng.random() < 0.8:
        tree[".gitattributes"] = ("file", b"*.txt text eol=crlf\n*.bin -text\n*.ini text eol=lf\n")
    if rng.random() < 0.5:
        tree["src/.gitattributes"] = ("file", b"*.txt -text\nnotes.txt text eol=crlf\n")
    for i in range(npad):
        tree["pad/%02d/f%03d" % (i % 7, i)] = ("file", b"pad %d\n" % i)
    # no D/F conflicts
    for p in list(tree):
        comps = p.split("/")
        for k in range(1, len(comps)):
            if "/".join(comps[:k]) in tree:
                del tree[p]
                break
    return tree


def run_trees(ctx, binary, seeds, thread_sets):
    runs = []
    for s in seeds:
        rng = random.Random(s)
        tree = random_tree(rng, rng.randint(150, 400) if ctx.thorough else rng.randint(110, 170))
        base = os.path.join(ctx.work, "tree-%d" % s)
        src = os.path.join(base, "src")
        os.makedirs(src)
        git(["init", "-q", src], check=True)
        for p, (k, v) in tree.items():
            full = os.path.join(src, p)
            os.makedirs(os.path.dirname(full), exist_ok=True)
            if k == "link":
                os.symlink(v, full)
            else:
                with open(full, "wb") as f:
                    f.write(v)
                if k == "exec":
                    os.chmod(full, 0o755)
        git(["-c", "core.autocrlf=false", "-c", "core.safecrlf=false", "-c", "core.fsync=none", "add", "-A"], cwd=src, check=True)
        # the index as git recorded it (materialisation check: modes and paths as intended)
        ls = git(["ls-files", "-s", "-z"], cwd=src, check=True).stdout.split(b"\0")
        entries = []
        for rec in ls:
            if not rec:
                continue
            meta, path = rec.split(b"\t", 1)
            mode, oid, _stage = meta.split(b" ")
            entries.append((path.decode(), {b"100644": "file", b"100755": "exec", b"120000": "link"}[mode], oid.decode()))
        if sorted(p for (p, _k, _o) in entries) != sorted(tree) or any(tree[p][0] != k for (p, k, _o) in entries):
            raise ToolError("materialisation: git's index does not hold the intended tree (seed %d)" % s)
        inp = "".join(o + "\n" for (_p, _k, o) in entries).encode()
        out = git(["cat-file", "--batch"], cwd=src, input=inp, check=True).stdout
        blobs, pos = [], 0
        for _e in entries:
            nl = out.index(b"\n", pos)
            size = int(out[pos:nl].split()[2])
            blobs.append(out[nl + 1:nl + 1 + size])
            pos = nl + 1 + size + 1
        # evaluator of the (uninterpreted) smudge filters: git checkout-index into a second directory
        gsb = os.path.join(base, "gitside")
        os.makedirs(os.path.join(gsb, "dest"))
        git(["-c", "core.autocrlf=false", "checkout-index", "-a", "--prefix=" + os.path.join(gsb, "dest") + "/"], cwd=src, check=True)
        gsnap = {tuple(n["path"]): n for n in snapshot(gsb)}
        tents, hents = [], []
        for (p, k, _o), blob in zip(entries, blobs):
            comps = p.split("/")
            gn = gsnap.get(tuple(["dest"] + comps))
            if gn is None:
                raise ToolError("git checkout-index did not create %s" % p)
            if k == "link":
                if gn["t"] != "link" or gn["to"].encode() != blob:
                    audit_mismatch(ctx, "Checkout (symlink)", {"path": p, "git": gn, "blob": blob.decode("latin-1")})
                tents.append({"path": comps, "kind": "link", "c": "", "to": gn["to"]})
            else:
                if gn["t"] != "file" or gn["x"] != (k == "exec"):
                    audit_mismatch(ctx, "Checkout (mode)", {"path": p, "git": gn, "kind": k})
                unfiltered = text_of(blob)
                if gn["c"] != unfiltered and not p.endswith((".txt", ".ini")):
                    audit_mismatch(ctx, "Checkout (content)", {"path": p, "why": "git changed the content of a file no filter applies to"})
                tents.append({"path": comps, "kind": k, "c": gn["c"], "to": ""})
            hents.append({"path": b2l(p.encode()), "kind": k, "data": b2l(blob)})
        for t in thread_sets:
            sb = os.path.join(base, "gix-%d" % t)
            os.makedirs(os.path.join(sb, "dest"))
            os.makedirs(os.path.join(sb, "out"))
            with open(os.path.join(sb, "out", "keep"), "wb") as f:
                f.write(b"KEEP")
            before = snapshot(sb)
            hc = {"dest": os.path.join(sb, "dest"), "entries": hents, "overwrite": False, "empty": True, "threads": t, "keep_going": False}
            runs.append((s, t, sb, before, tents, hc, len(entries)))
    results = ctx.harness(binary, [r[5] for r in runs], timeout=3000)
    events, owners = [], []
    for (s, t, sb, before, tents, hc, n), r in zip(runs, results):
        rec = {"kind": "tree", "case": {"seed": s, "threads": t}, "entries": n}
        if "got" not in r:
            ctx.violation(dict(rec, classes=["crash"], what="checkout panicked/hung", result=r))
            continue
        g = r["got"]
        if not g["ok"] or g["collisions"] or g["errors"]:
            ctx.violation(dict(rec, classes=["tree", "failed"], result=g, what="checkout of a conflict-free tree into an empty directory reports errors/collisions"))
            continue
        events.append({"index": tents, "fs0": before, "fs": snapshot(sb), "overwrite": False, "empty": True, "ok": True, "exact": True})
        owners.append(rec)
        ctx.nontrivial("tree:%d:%d" % (s, t))
    for bi in ctx.tlc_trace("worktree", "Checkout_Trace", events):
        e = events[bi]
        got = {tuple(n["path"]): n for n in e["fs"]}
        diffs = []
        for x in e["index"]:
            n = got.get(tuple(["dest"] + x["path"]))
            if n is None or (x["kind"] == "link" and (n["t"] != "link" or n["to"] != x["to"])) or \
               (x["kind"] != "link" and (n["t"] != "file" or n["c"] != x["c"] or n["x"] != (x["kind"] == "exec"))):
                diffs.append({"path": "/".join(x["path"]), "want": x, "got": n})
        ctx.violation(dict(owners[bi], classes=["tree", "content"], diffs=diffs[:6],
                           what="worktree differs from what git checkout-index produces for the same index"))
    ctx.cov["tree_checkouts"] = len(runs)


def models(ctx):
    ctx.tlc_mc("worktree", "Checkout_Gen", cfg="Checkout_MC.cfg", consts={"MaxEntries": 3 if ctx.thorough else 2}, workers=6,
               must_cover=["Choose", "File", "ToLinks", "Link", "Finish"])
    ctx.tlc_mc("worktree", "Checkout_Gen", cfg="Checkout_MC.cfg", consts={"MaxEntries": 2, "Bug_FormerLeafNotRechecked": "TRUE"}, workers=4,
               expect_violation="InvContained", coverage=False)


def run(ctx):
    binary = ctx.build("vh-c41")
    models(ctx)
    cases = ctx.tlc_gen("worktree", "Checkout_Gen", consts={"MaxEntries": 3 if ctx.thorough else 2}, workers=6)
    cases.sort(key=lambda c: json.dumps([c["index"], c["fs0"], c["overwrite"]], sort_keys=True))
    ctx.cov["worlds_enumerated"] = len(cases)
    ctx.cov["exhaustive"] = True
    configs = [(1, True), (1, False), (2, True), (8, True)] if ctx.thorough else [(1, True), (2, False)]
    if ctx.thorough:
        run_small(ctx, binary, cases, configs)
    else:
        run_small(ctx, binary, cases, configs[:1])
        run_small(ctx, binary, cases[::4], configs[1:])
    ctx.sample({"world": world_text(cases[len(cases) // 2]), "model_log": cases[len(cases) // 2]["log"]})
    run_trees(ctx, binary, [ctx.seed * 1000 + i for i in range(3 if not ctx.thorough else 25)], [1, 2, 8] if not ctx.thorough else [1, 2, 3, 8, 16])
    classes = {}
    for v in ctx.violations:
        k = "%s %s" % ("/".join(v.get("classes", [])), ",".join(v.get("paths", [])) if v["kind"] == "small" else "")
        classes[k] = classes.get(k, 0) + 1
    ctx.cov["violation_classes"] = classes
    if classes:
        ctx.log("violation classes: %s" % json.dumps(classes, sort_keys=True))
    ctx.cov["rule"] = ("A/B: every world of Checkout_Gen (indices of <= %d of 10 alphabet entries x 5 initial destinations x overwrite) checked out in a sandbox "
                       "and judged from before/after snapshots; seeded conflict-free trees (130-430 entries) at several thread limits. Non-trivial = worlds "
                       "with a colliding entry or a non-empty destination, and every tree run; distinct by (index, destination, overwrite) / (seed, threads)."
                       % (3 if ctx.thorough else 2))
    ctx.assumptions += ["Linux, case-sensitive file system with symlinks and executable bits",
                        "nobody else writes to the sandbox during the checkout",
                        "smudged contents of filtered files are taken from git checkout-index (filters are C43's subject)"]


def replay(ctx, rec):
    binary = ctx.build("vh-c41")
    c = rec["case"]
    if rec["kind"] == "small":
        w = dict(c["world"], benign=[True] * len(c["world"]["index"]), final=[], log=[])
        run_small(ctx, binary, [w], [(c["threads"], c["keep_going"])])
    else:
        run_trees(ctx, binary, [c["seed"]], [c["threads"]])
