"""C19 - Packed-refs lookup equals a linear scan.

spec/ref/PackedRefs.tla: byte-level grammar of packed-refs (header traits, records, peeled lines, LF/CRLF),
the linear scan `FindItems` that defines the answer of a lookup (full names verbatim, short names through
refs/, refs/tags/, refs/heads/, refs/remotes/), the judged domain, and - design level - a transcription of
Buffer::binary_search_by (byte midpoint -> record start, '^' lines skipped; both std bisection variants).
 MC: TLC checks the transcription against the scan on every enumerated buffer (exact on clean buffers, never a
    wrong record on damaged ones).
 A : PackedRefs_Gen enumerates buffers (header x <= N records over names with shared prefixes x peeled x CRLF x
    one damage) with the scan's answer for 24 queries; PackedRefs_Rand does the same for seeded random buffers
    (0..200 records) and for files written by `git pack-refs`. Replayed through packed::Buffer::{from_bytes,
    try_find, find, iter}.
 B : the recorded observations are judged again by PackedRefs_Trace (TLC reads the buffer itself).
 C : the spec's reading of git-written files is compared with `git for-each-ref`; its lookups in enumerated
    LF buffers with `git rev-parse --verify` on a repository holding the buffer as packed-refs.
"""
import concurrent.futures
import os
from vf import *

LEVEL = "exploration"
META = {
    "technique": "TLA+ byte-level packed-refs grammar + linear scan as oracle; TLC enumerates buffers/queries with expected answers and model-checks a transcription of the byte-wise binary search against the scan; replay through gix_ref::packed::Buffer; observations re-judged by a TLC trace module; spec audited against git for-each-ref / rev-parse",
    "note": "Exhaustive for <= 3 (thorough 4) records over a 6-name alphabet with one damage; random buffers up to 200 records. Out of domain: duplicate names, a broken `sorted` promise, ids longer than 40 hex digits.",
}


# ------------------------------------------------------------------ judging (expected values are the spec's)
def judge(case, res, queries_key="queries"):
    if "got" not in res:
        return ["buffer handling crashed: %s" % json.dumps(res)[:200]]
    g = res["got"]
    bad = []
    if case["open"] == "ok" and not g["open_ok"]:
        return ["open fails on a well-formed buffer: %s" % g["open_err"][:100]]
    if case["open"] == "err" and g["open_ok"]:
        bad.append("open accepts unparseable content")
    if not g["open_ok"]:
        return bad
    for q, r in zip(case[queries_key], g["results"]):
        if not q.get("indomain", True):
            continue
        w = q["want"]
        name = show_bytes(q["q"])
        if r["kind"] == "found":
            if not w["found"]:
                bad.append("wrong record: %s found but a linear scan finds nothing" % name)
            elif (r["name"], r["target"], r["peeled"]) != (w["name"], w["target"], w["peeled"]):
                bad.append("wrong record: %s differs from the linear scan's record" % name)
        elif r["kind"] == "none":
            if w["found"]:
                bad.append("missed record: %s not found but a linear scan finds it" % name)
        else:
            if case["clean"]:
                bad.append("spurious error: %s on a well-formed buffer: %s" % (name, r["err"][:60]))
        if r["find"] != r["kind"]:
            bad.append("find disagrees with try_find: %s %s vs %s" % (name, r["find"], r["kind"]))
    if case["clean"]:
        want = [(x["name"], x["target"], x["peeled"]) for x in case["iter"]]
        got = [(x["name"], x["target"], x["peeled"]) if x["ok"] else None for x in g["iter"]]
        if want != got:
            bad.append("iteration differs: %d records, linear scan has %d" % (len(got), len(want)))
    return bad


def classify(bad):
    return sorted({b.split(":")[0] for b in bad})


def event_of(case, res):
    g = res["got"]
    return {"buf": case["buf"], "open_ok": g["open_ok"], "iter": g["iter"],
            "results": [{"q": q["q"], "kind": r["kind"], "name": r["name"], "target": r["target"], "peeled": r["peeled"]}
                        for q, r in zip(case["queries"], g["results"])]}


def spec_read(ctx, inputs):
    """PackedRefs_Rand: the specification reads buffers supplied by the driver and prints the scan's answers."""
    path = os.path.join(ctx.work, "bufs-%d.ndjson" % len(ctx.cov["tlc_runs"]))
    with open(path, "w") as f:
        for r in inputs:
            f.write(json.dumps({"buf": r["buf"], "queries": [{"q": q["q"]} for q in r["queries"]]}, separators=(",", ":")) + "\n")
    # vf.tlc_gen has no env/dfs parameter: use the runner the way tlc_trace does
    r = ctx._tlc("ref", "PackedRefs_Rand", ctx.cfg("ref", "PackedRefs_Rand.cfg"), 1, 3000, env={"TRACE": path}, dfs=True)
    if r.violated or r.error:
        ctx._dump("PackedRefs_Rand.tlc.out", r.out)
        raise ToolError("PackedRefs_Rand: violated=%s error=%s" % (r.violated, r.error))
    out = sorted(r.cases(), key=lambda c: c["n"])
    ctx.cov["states"] += r.distinct
    ctx.cov["transitions"] += r.generated
    ctx.log("TLC PackedRefs_Rand: %d buffers read, %.1fs" % (len(out), r.wall))
    if len(out) != len(inputs):
        raise ToolError("PackedRefs_Rand read %d of %d buffers" % (len(out), len(inputs)))
    cases = []
    for i, o in zip(inputs, out):
        if [q["q"] for q in o["queries"]] != [q["q"] for q in i["queries"]]:
            raise ToolError("PackedRefs_Rand did not echo the queries")
        c = dict(o)
        c["buf"] = i["buf"]
        c["origin"] = i.get("origin", "")
        cases.append(c)
    return cases


def run_cases(ctx, binary, cases, kind):
    results = ctx.harness(binary, cases, timeout=1200)
    for c, r in zip(cases, results):
        if not c.get("indomain", True):
            continue
        bad = judge(c, r)
        if c["clean"] and sum(1 for q in c["queries"] if q["want"]["found"]) >= 1 and len(c["iter"]) >= 2:
            ctx.nontrivial(bytes(c["buf"]))
        elif not c["clean"] and "got" in r and r["got"]["open_ok"]:
            ctx.nontrivial(bytes(c["buf"]))
        if bad:
            slim = {k: v for k, v in c.items() if k not in ("iter",)}
            ctx.violation({"kind": kind, "case": slim, "buffer_text": show_bytes(c["buf"])[:600], "mismatch": bad[:6],
                           "classes": classify(bad), "result": r if len(json.dumps(r)) < 4000 else "<large>"})
    return results


# ------------------------------------------------------------------ random buffers (inputs only)
COMPONENTS = ["a", "b", "ab", "a-b", "a.b", "a_b", "abc", "z", "0", "feature", "v1.0", "x-y", "A", "dev", "a0", "a-"]
PREFIXES = ["refs/heads/", "refs/tags/", "refs/remotes/origin/", "refs/notes/", "refs/x/", "refs/"]


def rand_name(rng, flat=False):
    depth = 1 if flat else rng.choice([1, 1, 2, 2, 3])
    return (rng.choice(PREFIXES) + "/".join(rng.choice(COMPONENTS) for _ in range(depth))).encode()


def rand_hex(rng, n):
    return "".join(rng.choice("0123456789abcdef") for _ in range(n)).encode()


def neighbours(rng, names):
    qs = set()
    for n in names:
        qs.add(n)
        qs.add(n[:-1] + bytes([n[-1] + 1]))
        qs.add(n[:-1] + bytes([n[-1] - 1]))
        qs.add(n[:-1])
        qs.add(n + b"0")
        qs.add(n + b"/x")
        for p in (b"refs/heads/", b"refs/tags/", b"refs/remotes/", b"refs/"):
            if n.startswith(p):
                qs.add(n[len(p):])
    return qs


def make_queries(rng, names, limit):
    pick = list(names)
    rng.shuffle(pick)
    pick = pick[:limit]
    if names:
        s = sorted(names)
        pick += [s[0], s[-1], s[len(s) // 2]]
    qs = neighbours(rng, pick)
    for _ in range(4):
        qs.add(rand_name(rng))
    qs = sorted(q for q in qs if q)
    return [{"q": b2l(q)} for q in qs]


def rand_buffer(ctx, n):
    rng = ctx.rng
    hexlen = 40          # SHA-1 only at the pinned commit (see PackedRefs.tla)
    names = set()
    flat = rng.random() < 0.3
    for _ in range(n * 3):
        if len(names) >= n:
            break
        names.add(rand_name(rng, flat))
    recs = [(nm, rand_hex(rng, hexlen), rand_hex(rng, hexlen) if rng.random() < 0.3 else None) for nm in names]
    style = rng.choice(["sorted", "sorted", "none", "unsorted"])
    if style == "sorted":
        recs.sort(key=lambda r: r[0])
        head = b"# pack-refs with: peeled fully-peeled sorted "
    else:
        rng.shuffle(recs)
        head = None if style == "none" else rng.choice([b"# pack-refs with: peeled fully-peeled ", b"# pack-refs with: peeled", b"# pack-refs with: "])
    crlf = rng.choice(["lf", "lf", "crlf", "mixed"])

    def eol():
        return b"\r\n" if crlf == "crlf" or (crlf == "mixed" and rng.random() < 0.5) else b"\n"
    lines = []
    if head is not None:
        lines.append(head + eol())
    for nm, t, p in recs:
        lines.append(t + b" " + nm + eol())
        if p:
            lines.append(b"^" + p + eol())
    damage = "none"
    if style == "sorted" and recs and rng.random() < 0.35:
        i = rng.randrange(1 if head is not None else 0, len(lines))
        damage = rng.choice(["upper", "cut", "junk", "caret", "dupeol", "space"])
        ln = lines[i]
        if damage == "upper":
            ln = ln[:3] + b"F" + ln[4:]
        elif damage == "cut":
            ln = ln[5:]
        elif damage == "junk":
            ln = b"# junk\n"
        elif damage == "caret":
            ln = b"^" + rand_hex(rng, hexlen) + b"\n" + ln
        elif damage == "dupeol":
            ln = ln + b"\n"
        else:
            ln = ln.replace(b" ", b"  ", 1)
        lines[i] = ln
    buf = b"".join(lines)
    return {"buf": b2l(buf), "queries": make_queries(rng, names, 6 if n > 20 else 12), "origin": "random/%s/%s/%s/%d" % (style, crlf, damage, n)}


# ------------------------------------------------------------------ worlds made by git
def git_world(ctx, idx, nrefs):
    rng = ctx.rng
    repo = os.path.join(ctx.work, "world-%d" % idx)
    git(["init", "-q", repo], check=True)
    git(["commit", "-q", "--allow-empty", "-m", "c1"], cwd=repo, check=True)
    git(["commit", "-q", "--allow-empty", "-m", "c2"], cwd=repo, check=True)
    commits = git(["rev-list", "HEAD"], cwd=repo, check=True).stdout.decode().split()
    blob = git(["hash-object", "-w", "--stdin"], cwd=repo, input=b"x", check=True).stdout.decode().strip()
    names = set()
    for _ in range(nrefs * 4):
        if len(names) >= nrefs:
            break
        nm = rand_name(rng)
        # a name cannot be both a file and a directory in a real repository
        if any(o == nm or o.startswith(nm + b"/") or nm.startswith(o + b"/") for o in names):
            continue
        names.add(nm)
    names = sorted(names)
    tags = [nm for nm in names if nm.startswith(b"refs/tags/")][:12]
    upd = b""
    for nm in names:
        if nm in tags:
            continue
        pool = commits if nm.startswith(b"refs/heads/") else commits + [blob]     # branches must point at commits
        upd += b"create " + nm + b" " + rng.choice(pool).encode() + b"\n"
    git(["update-ref", "--stdin"], cwd=repo, input=upd, check=True)
    for nm in tags:
        git(["tag", "-a", "-m", "t", nm[len(b"refs/tags/"):].decode(), rng.choice(commits)], cwd=repo, check=True)
    git(["pack-refs", "--all"], cwd=repo, check=True)
    buf = open(os.path.join(repo, ".git", "packed-refs"), "rb").read()
    # git's own reading of the world it wrote
    out = git(["for-each-ref", "--format=%(refname) %(objectname) %(*objectname)"], cwd=repo, check=True).stdout.split(b"\n")[:-1]
    listing = []
    for ln in out:
        parts = ln.split(b" ")
        listing.append((b2l(parts[0]), b2l(parts[1]), b2l(parts[2]) if len(parts) > 2 else []))
    if not set(names) <= set(l2b(x[0]) for x in listing):
        raise ToolError("git world %d: for-each-ref does not list the refs that were created" % idx)
    allnames = [l2b(x[0]) for x in listing]          # includes the default branch
    return {"buf": b2l(buf), "queries": make_queries(rng, allnames, 10), "origin": "git pack-refs/%d" % len(allnames)}, listing, repo


def audit_world(ctx, case, listing, repo):
    """binding C: the specification's reading of the file git wrote is git's reading."""
    if not case["clean"] or not case["sorted"]:
        audit_mismatch(ctx, "PackedRefs (git-written file)", {"clean": case["clean"], "sorted": case["sorted"]})
    spec = [(x["name"], x["target"], x["peeled"]) for x in case["iter"]]
    if spec != listing:
        audit_mismatch(ctx, "PackedRefs.Items vs git for-each-ref", {"spec": len(spec), "git": len(listing),
                                                                       "first_diff": next((a for a, b in zip(spec, listing) if a != b), None)})
    n = 0

    def one(q):
        name = l2b(q["q"])
        if not q["indomain"]:
            return None
        p = git(["rev-parse", "--verify", "-q", name.decode()], cwd=repo)
        return q, (p.stdout.strip() if p.returncode == 0 else None)
    with concurrent.futures.ThreadPoolExecutor(8) as ex:
        for r in ex.map(one, case["queries"]):
            if r is None:
                continue
            q, got = r
            n += 1
            want = l2b(q["want"]["target"]) if q["want"]["found"] else None
            if want != got:
                audit_mismatch(ctx, "PackedRefs.Find vs git rev-parse", {"q": show_bytes(q["q"]), "git": got and got.decode(), "spec": want and want.decode()})
    return len(spec) + n


def audit_handmade(ctx, cases, limit):
    """binding C on enumerated buffers: LF-only, well-formed buffers placed as .git/packed-refs; full-name lookups
    by `git rev-parse --verify` (the objects do not exist, so peeled values are not observable here)."""
    pick = [c for c in cases if c["clean"] and not c["crlf"] and c["nrecs"] >= 1]
    ctx.rng.shuffle(pick)
    pick = pick[:limit]
    repo = os.path.join(ctx.work, "handmade")
    jobs = []
    for i, c in enumerate(pick):
        d = os.path.join(repo, str(i))
        git(["init", "-q", d], check=True)
        with open(os.path.join(d, ".git", "packed-refs"), "wb") as f:
            f.write(l2b(c["buf"]))
        for q in c["queries"]:
            if l2b(q["q"]).startswith(b"refs/"):
                jobs.append((d, c, q))

    def one(j):
        d, c, q = j
        p = git(["rev-parse", "--verify", "-q", l2b(q["q"]).decode()], cwd=d)
        return c, q, (p.stdout.strip() if p.returncode == 0 else None)
    n = 0
    with concurrent.futures.ThreadPoolExecutor(8) as ex:
        for c, q, got in ex.map(one, jobs):
            n += 1
            want = l2b(q["want"]["target"]) if q["want"]["found"] else None
            if want != got:
                audit_mismatch(ctx, "PackedRefs.Find vs git rev-parse (enumerated buffer)",
                               {"buf": show_bytes(c["buf"]), "q": show_bytes(q["q"]), "git": got and got.decode(), "spec": want and want.decode()})
    ctx.log("audit: git rev-parse agreed on %d lookups in %d enumerated buffers" % (n, len(pick)))
    return n


def run(ctx):
    binary = ctx.build("vh-c19")
    # design level: the transcribed byte-wise binary search against the scan
    if ctx.thorough:
        for variant in ("branchless", "classic"):
            ctx.tlc_mc("ref", "PackedRefs_Gen", cfg="PackedRefs_MC.cfg", consts={"MaxRecs": 3, "Bisect": '"%s"' % variant}, coverage=False)
        # self-test of the model check: without the '^' line skip the transcription must fail against the scan
        ctx.tlc_mc("ref", "PackedRefs_Gen", cfg="PackedRefs_MC.cfg", consts={"MaxRecs": 2, "Bug_NoCaretSkip": "TRUE"},
                   expect_violation="Design", coverage=False)
    else:
        ctx.tlc_mc("ref", "PackedRefs_Gen", cfg="PackedRefs_MC.cfg", consts={"MaxRecs": 2}, coverage=False)

    # binding A, enumerated
    cases = ctx.tlc_gen("ref", "PackedRefs_Gen", consts={"MaxRecs": 4 if ctx.thorough else 3})
    if ctx.thorough:
        cases += ctx.tlc_gen("ref", "PackedRefs_Gen", consts={"MaxRecs": 2, "Wide": "TRUE"})
    ctx.cov["exhaustive"] = True
    results = run_cases(ctx, binary, cases, "gen")
    mid = cases[len(cases) // 2]
    ctx.sample({"buffer": show_bytes(mid["buf"]), "open": mid["open"], "clean": mid["clean"],
                "queries": [{"q": show_bytes(q["q"]), "found": q["want"]["found"]} for q in mid["queries"][:8]]})
    audited = audit_handmade(ctx, cases, 30 if not ctx.thorough else 150)

    # worlds written by git + seeded random buffers: the specification reads them (PackedRefs_Rand)
    inputs, worlds = [], []
    sizes = [0, 7, 60] if not ctx.thorough else [0, 1, 7, 30, 60, 120, 300]
    for i, n in enumerate(sizes):
        inp, listing, repo = git_world(ctx, i, n)
        worlds.append((len(inputs), listing, repo))
        inputs.append(inp)
    nrand = 40 if not ctx.thorough else 400
    for k in range(nrand):
        n = ctx.rng.choice([0, 1, 2, 3, 4, 5, 8, 13, 30, 80, 200] if k % 10 == 0 else [0, 1, 2, 3, 4, 5, 8, 13, 30])
        inputs.append(rand_buffer(ctx, n))
    rcases = spec_read(ctx, inputs)
    for at, listing, repo in worlds:
        audited += audit_world(ctx, rcases[at], listing, repo)
    ctx.log("audit: git agreed with the specification on %d readings/lookups" % audited)
    ctx.cov["git_audited"] = audited
    ctx.cov["random_in_domain"] = sum(1 for c in rcases if c["indomain"])
    rres = run_cases(ctx, binary, rcases, "random")
    ctx.sample({"origin": rcases[-1]["origin"], "open": rcases[-1]["open"], "clean": rcases[-1]["clean"], "records": rcases[-1]["nitems"]})

    # binding B: observations judged by TLC reading the buffers itself
    events, owner = [], []
    step = 3 if ctx.thorough else 5
    for c, r in list(zip(rcases, rres)) + list(zip(cases, results))[::step]:
        if "got" in r:
            events.append(event_of(c, r))
            owner.append(c)
    for bi in ctx.tlc_trace("ref", "PackedRefs_Trace", events, timeout=3000):
        c = owner[bi]
        ctx.violation({"kind": "trace", "case": {"buf": c["buf"], "queries": [{"q": q["q"]} for q in c["queries"]]},
                       "buffer_text": show_bytes(c["buf"])[:600], "mismatch": ["event rejected by PackedRefs_Trace"],
                       "classes": ["trace"]})
    ctx.cov["rule"] = ("MC: transcribed binary search vs linear scan on every enumerated buffer. A: buffers of <= %d records over 6 names "
                       "(shared prefixes) x header {none, sorted, unsorted} x peeled x CRLF x one of 10 damages, 24 queries each "
                       "(exhaustive); %d seeded random buffers (0..200 records) and %d files written by git pack-refs, read by the "
                       "spec. B: observations judged by PackedRefs_Trace. Non-trivial = well-formed buffer with >= 2 records and a "
                       "query that hits, or a damaged buffer that still opens; distinct by buffer bytes."
                       % (4 if ctx.thorough else 3, nrand, len(sizes)))
    ctx.assumptions += ["names are unique within a buffer and a `sorted` header is truthful (otherwise git's own lookup is undefined)",
                        "object ids are SHA-1 (40 hex digits); gix-hash at the pinned commit has no SHA-256",
                        "CRLF line ends are a documented leniency of gitoxide's reader (git ignores such refs); judged as in the property text",
                        "queries: valid full names below refs/ except refs/worktree/, or short names that are not pseudo-refs"]


def replay(ctx, rec):
    binary = ctx.build("vh-c19")
    c = rec["case"]
    if "open" not in c:
        c = spec_read(ctx, [c])[0]
    elif "iter" not in c:
        c = dict(spec_read(ctx, [c])[0], **{k: v for k, v in c.items() if k in ("hdr", "crlf", "damage", "nrecs")})
    r = ctx.harness(binary, [c])[0]
    bad = judge(c, r) if c.get("indomain", True) else []
    if bad:
        ctx.violation({"kind": rec.get("kind", "gen"), "case": {k: v for k, v in c.items() if k != "iter"},
                       "buffer_text": show_bytes(c["buf"])[:600], "mismatch": bad[:6], "classes": classify(bad), "result": r})
        return
    if "got" in r and ctx.tlc_trace("ref", "PackedRefs_Trace", [event_of(c, r)]):
        ctx.violation({"kind": "trace", "case": {"buf": c["buf"], "queries": [{"q": q["q"]} for q in c["queries"]]},
                       "buffer_text": show_bytes(c["buf"])[:600], "mismatch": ["event rejected by PackedRefs_Trace"], "classes": ["trace"]})
