"""C34 - No URL can inject arguments into spawned transport programs.

spec/proto/ArgSafety.tla: LooksLikeOption, ShQuote, a POSIX-sh word splitter ShWords with the law
ShWords("cmd " ++ ShQuote(s)) = <<"cmd", s>> (TLC: all strings of <= 5 tokens over ' " ! space LF $ \\ ; - a),
the argv each ssh program kind is given (Invocation), the refusal reasons (must / may), and the demand on
ANY observed invocation (Safe: fixed options, [user@]host not option-like, service, one argument that the
remote shell splits into exactly <<service, path>>; LocalSafe for the local transport).
 A: ArgSafety_Gen prints URL strings (URL and scp-like form; option-like and shell-hostile users, hosts,
    paths) with - where Url.tla describes the parse - the expected fields, reasons and argv per variant;
    replayed through gix_url::parse, ssh::connect + Transport::handshake with the executor itself installed
    as the ssh program / as git-upload-pack (it records its argv), for ssh/plink/putty/tortoiseplink/simple,
    auto-detection (-G probe) and a command that needs `sh -c`.
 B: every observed run (generated and seeded random URLs) is judged by ArgSafety_Trace relative to the
    fields gitoxide parsed; gix_quote::single is judged by the word splitter.
 C: the installed sh splits the quoted command lines (audit of ShWords), `git rev-parse --sq-quote`
    audits ShQuote, `git fetch-pack --diag-url` audits ShellPath.
"""
import concurrent.futures
import subprocess
from vf import *

LEVEL = "exploration"
META = {
    "technique": "TLA+ specification of argument safety (option-likeness, single-quote shell quoting with a POSIX word splitter and the quoting law checked by TLC, per-program-kind argv, refusal reasons); TLC-generated URLs replayed through the real ssh/local transports with a recording stand-in program; observed argv judged by a TLC trace module; sh / git sq-quote / git diag-url audits",
    "note": "The spawned program is a stand-in that records argv (the real spawn path of gix-command is exercised, incl. the sh -c route). Windows-specific program lookup, environment variables, and http/git:// transports are not covered. The remote shell is modelled as POSIX sh (audited against the installed sh); csh-like remote shells are only covered by the '!' escape being harmless in sh.",
}
VIEW0 = {"user": [], "host": [], "port": [], "path": []}
EV0 = {"ev": "", "kind": "", "v2": False, "view": VIEW0, "refused": False, "class": "", "argvs": [], "s": [], "quoted": [], "words": [],
       "csafe": {"user": "", "host": "", "path_safe": False}}
ALLV = [{"kind": k, "v2": False, "shell": False} for k in ("ssh", "plink", "putty", "tortoiseplink", "simple", "auto")] + [
    {"kind": "ssh", "v2": True, "shell": False}, {"kind": "ssh", "v2": True, "shell": True}]
UTOK = [b"", b"u@", b"-u@", b"-oProxyCommand=x@", b"u v@", b"u'@", b"$(x)@", b"u:pw@", b":-pw@", b"@"]
HTOK = [b"h", b"-oh", b"-oProxyCommand=x", b"a.b", b"H", b"h'", b"$(x)", b"h h", b"[::1]", b"-"]
PTOK = [b"p", b"-p", b"--upload-pack=x", b"a'b", b"a b", b"$(x)", b"`x`", b"a\nb", b"a!b", b'a"b', b"a\\b", b";x", b"~/p", b"~u/p", b" -p", b"\t-p",
        b"'", b"''", b"a/-b", "é".encode(), b"*", b"a&b", b"-", b"a'", b"'a"]


def ev(**kw):
    e = dict(EV0)
    e.update(kw)
    return e


def events_of(c, g):
    """one ssh event per variant + one classify event"""
    out = [ev(ev="classify", view=g["view"], csafe=g["classify"])]
    for v, r in zip(c["variants"], g["runs"]):
        out.append(ev(ev="ssh", kind=v["kind"], v2=v["v2"], view=g["view"], refused=r["refused"], **{"class": r["class"]}, argvs=r["argvs"]))
    return out


def txt(argvs):
    return [[show_bytes(a) for a in argv] for argv in argvs]


def audits(ctx, quote_cases, quote_res):
    """binding C"""
    sel = [(c, r["got"]["quoted"]) for c, r in zip(quote_cases, quote_res) if "got" in r and 0 not in c["s"]]
    sel = sel[:: max(1, len(sel) // (400 if not ctx.thorough else 3000))]

    def sh_one(cq):
        c, q = cq
        line = b"cmd " + l2b(q)
        p = subprocess.run(["sh", "-c", b"set -- " + line + b"\nprintf '%s\\0' \"$@\""], stdout=subprocess.PIPE, stderr=subprocess.PIPE)
        if p.returncode != 0:
            return ev(ev="sh", s=b2l(line), words=[b2l(b"<sh failed>")])
        return ev(ev="sh", s=b2l(line), words=[b2l(w) for w in p.stdout.split(b"\0")[:-1]])

    def sq_one(cq):
        c, _q = cq
        p = git(["rev-parse", "--sq-quote", l2b(c["s"])])
        o = p.stdout
        return ev(ev="gitsq", s=c["s"], quoted=b2l(o[1:-1] if o.startswith(b" ") and o.endswith(b"\n") else o))

    with concurrent.futures.ThreadPoolExecutor(8) as ex:
        events = list(ex.map(sh_one, sel)) + list(ex.map(sq_one, [x for x in sel if x[0]["s"] and x[0]["s"][0] != 45]))
    cwd = os.path.join(ctx.work, "empty")
    os.makedirs(cwd, exist_ok=True)
    for path in (b"/~/p", b"/~u/p", b"/p/~/q", b"/p"):
        o = git(["fetch-pack", "--diag-url", b"ssh://h" + path], cwd=cwd).stdout
        got = [ln[len(b"Diag: path="):] for ln in o.split(b"\n") if ln.startswith(b"Diag: path=")]
        if not got:
            raise ToolError("git --diag-url gave no path for %r" % path)
        events.append(ev(ev="gitpath", s=b2l(path), quoted=b2l(got[0])))
    rej = ctx.tlc_trace("proto", "ArgSafety_Trace", events)
    if rej:
        e = events[rej[0]]
        audit_mismatch(ctx, "ArgSafety", {"ev": e["ev"], "s": show_bytes(e["s"]), "quoted": show_bytes(e["quoted"]),
                                          "words": [show_bytes(w) for w in e["words"]], "n_rejected": len(rej)})
    ctx.cov["audited"] = "%d sh word splits, %d git sq-quotes, 4 git remote paths" % (len(sel), len(events) - len(sel) - 4)
    ctx.log("audit: sh, git --sq-quote and git --diag-url agree with ShWords / ShQuote / ShellPath on %d events" % len(events))


def run(ctx):
    binary = ctx.build("vh-c34")
    cases = ctx.tlc_gen("proto", "ArgSafety_Gen", consts={"QuoteToks": 5 if not ctx.thorough else 6, "PathToks": 2,
                                "RichUrlForm": "TRUE" if ctx.thorough else "FALSE"},
                        timeout=3000)
    ctx.cov["exhaustive"] = True
    for c in cases:
        c["op"] = c["fam"]
    # seeded random URLs (inputs only)
    n = 400 if not ctx.thorough else 5000
    rnd = []
    for _ in range(n):
        u, h = ctx.rng.choice(UTOK), ctx.rng.choice(HTOK)
        p = b"".join(ctx.rng.choice(PTOK) for _ in range(ctx.rng.randint(1, 2)))
        if ctx.rng.random() < 0.5:
            s = b"ssh://" + u + h + ctx.rng.choice([b"", b"", b":22", b":2222"]) + b"/" + p
        else:
            s = u + h + b":" + p
        rnd.append({"op": "ssh", "url": b2l(s), "variants": ALLV if ctx.rng.random() < 0.15 else [ctx.rng.choice(ALLV)]})
    for _ in range(n // 4):
        rnd.append({"op": "local", "path": b2l(b"".join(ctx.rng.choice(PTOK + [b"/", b"/a/"]) for _ in range(ctx.rng.randint(1, 3))))})
    allc = cases + rnd
    results = ctx.harness(binary, allc, timeout=3000)

    events, owner = [], []
    stats = {"urls": 0, "parsed_ssh": 0, "spawned_runs": 0, "refused_runs": 0, "argv_identical_to_Invocation": 0, "indomain_runs": 0,
             "classify_rejected": 0}
    for i, (c, r) in enumerate(zip(allc, results)):
        if "got" not in r:
            ctx.violation({"kind": "crash", "case": c, "classes": ["crash"], "result": r, "what": "transport panicked or hung"})
            continue
        g = r["got"]
        if c["op"] == "quote":
            events.append(ev(ev="quote", s=c["s"], quoted=g["quoted"]))
            owner.append((i, None))
            if "quoted" in c and g["quoted"] != c["quoted"]:
                stats["quote_differs_from_ShQuote"] = stats.get("quote_differs_from_ShQuote", 0) + 1
            if set(c["s"]) & {39, 33}:
                ctx.nontrivial("q" + bytes(c["s"]).hex())
        elif c["op"] == "local":
            events.append(ev(ev="local", s=c["path"], refused=g["refused"], **{"class": g["class"]}, argvs=g["argvs"]))
            owner.append((i, None))
            if "must" in c and (g["refused"] != bool(c["may"]) or g["argvs"] != c["argvs"]):
                # binding A, direct: the design's expectation printed by ArgSafety_Gen
                ctx.violation({"kind": "gen-local", "case": c, "text": show_bytes(c["path"]), "classes": ["local"], "result": g,
                               "what": "local transport refused=%s argv=%s, specification refuse=%s argv=%s" % (
                                   g["refused"], txt(g["argvs"]), bool(c["may"]), txt(c["argvs"]))})
            if c["path"][:1] == [45] or 32 in c["path"][:1]:
                ctx.nontrivial("l" + bytes(c["path"]).hex())
        else:
            stats["urls"] += 1
            if not g["parsed"] or g["scheme"] != "ssh" or not g["view"]["host"]:
                continue
            stats["parsed_ssh"] += 1
            for k, e in enumerate(events_of(c, g)):
                events.append(e)
                owner.append((i, k - 1))
            for k, (v, run_) in enumerate(zip(c["variants"], g["runs"])):
                stats["refused_runs" if run_["refused"] else "spawned_runs"] += 1
                if c.get("indomain"):
                    stats["indomain_runs"] += 1
                    x = c["expect"][k]
                    bad = []
                    if g["view"] != c["view"]:
                        bad.append("parsed fields differ from Url.Parse")
                    if run_["refused"] != bool(x["may"]):
                        bad.append("refused=%s (%s), specification reasons must=%s may=%s" % (run_["refused"], run_["class"], x["must"], x["may"]))
                    elif run_["argvs"] != x["argvs"]:
                        bad.append("argv %s, specification %s" % (txt(run_["argvs"]), txt(x["argvs"])))
                    else:
                        stats["argv_identical_to_Invocation"] += 1
                    if bad:
                        # binding A, direct comparison with the design; the property-level verdict is the trace judge's
                        ctx.violation({"kind": "gen-ssh", "case": c, "variant": v, "text": show_bytes(c["url"]), "classes": ["design"],
                                       "mismatch": bad, "result": run_})
            v_ = g["view"]
            if any(x and x[0][:1] == [45] for x in (v_["user"], v_["host"])) or v_["path"][:1] == [45] or set(v_["path"]) & {39, 33, 32, 36, 10}:
                ctx.nontrivial("u" + bytes(c["url"]).hex())
    main = [k for k, e in enumerate(events) if e["ev"] != "classify"]
    for bj in ctx.tlc_trace("proto", "ArgSafety_Trace", [events[k] for k in main], timeout=3000):
        bi = main[bj]
        i, k = owner[bi]
        c, g, e = allc[i], results[i]["got"], events[bi]
        rec = {"kind": "trace-" + e["ev"], "case": c, "classes": [e["ev"]], "text": show_bytes(c.get("url", c.get("path", c.get("s", [])))),
               "event": {k2: e[k2] for k2 in ("kind", "v2", "view", "refused", "class", "argvs", "quoted")},
               "argv_text": txt(e["argvs"]), "what": "observation rejected by ArgSafety_Trace (%s)" % e["ev"]}
        if k is not None and k >= 0:
            rec["variant"] = c["variants"][k]
        ctx.violation(rec)
    # Url::path_argument_safe & co are not used by the transports (which check for themselves): a disagreement
    # with the specification's classification is recorded as an observation, not as a verdict on this property
    cls = [k for k, e in enumerate(events) if e["ev"] == "classify"]
    for bj in ctx.tlc_trace("proto", "ArgSafety_Trace", [events[k] for k in cls], timeout=3000):
        e = events[cls[bj]]
        stats["classify_rejected"] += 1
        if "classify_example" not in ctx.cov:
            ctx.cov["classify_example"] = {"url": show_bytes(allc[owner[cls[bj]][0]]["url"]), "path": show_bytes(e["view"]["path"]), "observed": e["csafe"]}
    ctx.cov.update(stats)
    tally = {}
    for v in ctx.violations + [r for _f, r in ctx.known_hits.values()]:
        k = "%s/%s" % (v.get("kind"), ",".join(v.get("classes", [])))
        tally[k] = tally.get(k, 0) + 1
    ctx.log("violations by class: %s; classify observations: %d" % (json.dumps(tally, sort_keys=True), stats["classify_rejected"]))
    ex = next((c, r) for c, r in zip(allc, results) if c["op"] == "ssh" and "got" in r and r["got"].get("parsed") and any(not x["refused"] for x in r["got"]["runs"]))
    ctx.sample({"url": show_bytes(ex[0]["url"]), "argv": txt(ex[1]["got"]["runs"][0]["argvs"])})
    ex = next((c, r) for c, r in zip(allc, results) if c["op"] == "ssh" and "got" in r and r["got"].get("parsed") and any(x["refused"] for x in r["got"]["runs"]))
    ctx.sample({"url": show_bytes(ex[0]["url"]), "refused": ex[1]["got"]["runs"][0]["class"]})

    qc = [c for c in cases if c["op"] == "quote"]
    audits(ctx, qc, [r for c, r in zip(cases, results) if c["op"] == "quote"])

    ctx.cov["rule"] = ("A: ArgSafety_Gen - quote: all strings of <= %s tokens over 10 shell-relevant bytes (law checked; <= 4 tokens replayed); ssh: "
                       "4 users x 3 hosts x paths of <= %s tokens over 11 path tokens in scp-like form (thorough: also URL form x 2 ports; one variant), x 5 paths x 8 "
                       "variants (5 program kinds, auto-detect probe, protocol v2, sh -c route); local: 140 paths. B: %d random URLs + %d local paths. "
                       "Non-trivial = a URL whose user/host/path is option-like or whose path holds quote/space/$/!/LF; strings with ' or !; "
                       "local paths starting with - or blank; distinct by input." % (5 if not ctx.thorough else 6, 2, n, n // 4))
    ctx.assumptions += ["the remote shell is a POSIX sh (audited against the installed sh)",
                        "user@-host is not option-like for ssh clients (the argument does not start with '-')",
                        "Url::path_argument_safe / *_as_argument are judged as observations only: the transports do their own checks",
                        "the local transport is given a non-empty path (an empty one panics in new_local: `expect(\"valid url\")`)"]


def replay(ctx, rec):
    binary = ctx.build("vh-c34")
    c = rec["case"]
    r = ctx.harness(binary, [c])[0]
    if "got" not in r:
        ctx.violation(dict(rec, result=r))
        return
    g = r["got"]
    if c["op"] == "quote":
        evs = [ev(ev="quote", s=c["s"], quoted=g["quoted"])]
    elif c["op"] == "local":
        evs = [ev(ev="local", s=c["path"], refused=g["refused"], **{"class": g["class"]}, argvs=g["argvs"])]
    else:
        evs = [e for e in events_of(c, g) if e["ev"] == "ssh"] if g.get("parsed") else []
    if evs and ctx.tlc_trace("proto", "ArgSafety_Trace", evs):
        ctx.violation(dict(rec, result=g))
