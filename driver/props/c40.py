"""C40 - Path names git refuses to write are refused.

spec/match/PathProtect.tla transcribes git's verify_path / verify_dotfile / is_ntfs_dotgit /
is_ntfs_dot_generic / is_hfs_dot_generic (non-Windows build), per (core.protectNTFS, core.protectHFS).
 A: PathProtect_Gen enumerates components lead+core+suffixes (.git / .gitmodules look-alikes: case
    variants, 8.3 short names, trailing dots/spaces/:streams, backslashes, HFS-ignorable code points,
    malformed UTF-8) with the spec's verdict for the roles file / symlink / directory; replayed through
    gix_validate::path::component for all 8 option sets and both modes.  Only one direction is
    demanded: refused by git => refused by gitoxide (for either value of protect_windows).
 B: seeded random mutations of the dangerous names; gitoxide's verdicts judged by TLC (PathProtect_Trace).
 C: the installed git is observed on the same components (update-index -> verify_path; regular file,
    directory, and real symlinks; 4 option combinations) and its verdicts must EQUAL the specification
    (judged by the same TLC module); a mismatch is a tool error.
"""
import os
from vf import *

LEVEL = "exploration"
META = {
    "technique": "TLA+ transcription of git's verify_path family evaluated by TLC (generator + trace judge); "
                 "gix_validate::path::component replayed on all enumerated and on seeded random components for all option "
                 "sets; transcription audited against git update-index on every run",
    "note": "One direction only (git refuses => gitoxide refuses). git is the non-Windows build: Windows device names and "
            "characters illegal on Windows are not refused by it and therefore not demanded. Trusted: TLC, git 2.39.5.",
}
ROLES = ["file", "symlink", "dir"]
OPTS = [(n, h) for n in (0, 1) for h in (0, 1)]  # index n*2+h
EMPTY_BLOB = "e69de29bb2d1d6434b8b29ae775ad8c2e48c5391"


def idx(w, n, h):
    return w * 4 + n * 2 + h


# ------------------------------------------------------------------ diagnostics (not an oracle)
def tags(comp, bad):
    """stable descriptive class of a missed refusal, for known-finding matchers and reports"""
    c = bytes(comp)
    t = set()
    if c in (b"", b".", b".."):
        t.add("dot-or-empty")
    if b"\\" in c and all(w == 0 and n == 1 for _r, w, n, _h in bad):
        t.add("backslash-ntfs-without-windows")
    if all(h == 1 for _r, _w, _n, h in bad):
        t.add("hfs-only")
        try:
            c.decode("utf-8")
            if b"\xef\xbf\xbe" in c or b"\xef\xbf\xbf" in c:
                t.add("malformed-utf8")
        except UnicodeDecodeError:
            t.add("malformed-utf8")
    if all(r == "symlink" for r, _w, _n, _h in bad):
        t.add("symlink-only")
    return sorted(t)


def failures(refused, got):
    """refused: spec verdicts {role: [4]}, got: executor result -> list of (role, windows, ntfs, hfs)"""
    bad = []
    for role in ROLES:
        g = got["symlink"] if role == "symlink" else got["plain"]
        for n, h in OPTS:
            if refused[role][n * 2 + h]:
                for w in (0, 1):
                    if g[idx(w, n, h)] == "":
                        bad.append((role, w, n, h))
    return bad


class Collector:
    def __init__(self):
        self.by_sig = {}

    def add(self, kind, comp, refused, got, bad):
        sig = tuple(tags(comp, bad))
        cur = self.by_sig.get(sig)
        if cur is None or len(comp) < cur[0]:
            rec = {"kind": kind, "case": {"comp": comp}, "comp_text": show_bytes(comp), "classes": list(sig),
                   "git_refuses": refused,
                   "gitoxide_accepts": [{"role": r, "protect_windows": bool(w), "protect_ntfs": bool(n), "protect_hfs": bool(h)}
                                        for r, w, n, h in bad],
                   "gitoxide": got, "count": cur[1]["count"] if cur else 0}
            self.by_sig[sig] = (len(comp), rec)
            cur = self.by_sig[sig]
        cur[1]["count"] += 1

    def records(self):
        return [r for _n, r in sorted(self.by_sig.values(), key=lambda x: x[0])]


# ------------------------------------------------------------------ binding C: observe git
def observable(c):
    c = bytes(c)
    return 0 < len(c) <= 200 and c not in (b".", b"..") and b"\0" not in c and b"/" not in c and b"\n" not in c


def observe_git(ctx, comps, special=True):
    """git's verdicts (1 = refused) for every observable component, as "git" events."""
    comps = [c for c in {bytes(c): c for c in comps}.values()]
    root = os.path.join(ctx.work, "audit-%d" % len(os.listdir(ctx.work)))
    gd, wt = os.path.join(root, "repo.git"), os.path.join(root, "wt")
    os.makedirs(wt)
    git(["init", "-q", "--bare", gd], check=True)
    base = ["--git-dir=" + gd, "--work-tree=" + wt]
    obs = [c for c in comps if observable(c)]
    for c in obs:
        os.symlink("t", os.path.join(os.fsencode(wt), bytes(c)))
    res = {(bytes(c), role): [None] * 4 for c in obs for role in ROLES}
    for n, h in OPTS:
        cfg = ["-c", "core.protectNTFS=%s" % ("true" if n else "false"), "-c", "core.protectHFS=%s" % ("true" if h else "false")]
        for role in ROLES:
            paths = [bytes(c) + (b"/x" if role == "dir" else b"") for c in obs]
            if not paths:
                continue
            mode = ["--add"] if role == "symlink" else ["--force-remove"]
            r = git(cfg + base + ["update-index"] + mode + ["--verbose", "-z", "--stdin"], cwd=wt,
                    input=b"".join(p + b"\0" for p in paths), timeout=600)
            if r.returncode != 0:
                raise ToolError("git update-index failed: %s" % r.stderr.decode("utf-8", "replace")[-400:])
            ignored = {l[len(b"Ignoring path "):] for l in r.stderr.split(b"\n") if l.startswith(b"Ignoring path ")}
            verb = b"add '" if role == "symlink" else b"remove '"
            done = {l[len(verb):-1] for l in r.stdout.split(b"\n") if l.startswith(verb) and l.endswith(b"'")}
            for c, p in zip(obs, paths):
                if (p in ignored) == (p in done):
                    raise ToolError("git update-index: cannot tell what happened to %r (%s)" % (p, role))
                res[(bytes(c), role)][n * 2 + h] = 1 if p in ignored else 0
            if role == "symlink" and os.path.exists(os.path.join(gd, "index")):  # next option set starts from an empty index
                os.remove(os.path.join(gd, "index"))
    if special:
        # names that cannot go through --stdin (path normalisation): one process each
        for c in (b"", b".", b".."):
            for role in ROLES:
                v = []
                for n, h in OPTS:
                    cfg = ["-c", "core.protectNTFS=%s" % ("true" if n else "false"),
                           "-c", "core.protectHFS=%s" % ("true" if h else "false")]
                    m = "120000" if role == "symlink" else "100644"
                    p = c + (b"/x" if role == "dir" else b"")
                    r = git(cfg + base + ["update-index", "--add", "--cacheinfo", m, EMPTY_BLOB, p], cwd=wt)
                    if r.returncode != 0 and b"Invalid path" not in r.stderr:
                        raise ToolError("git update-index --cacheinfo: %s" % r.stderr.decode("utf-8", "replace")[-300:])
                    v.append(1 if r.returncode != 0 else 0)
                    if os.path.exists(os.path.join(gd, "index")):
                        os.remove(os.path.join(gd, "index"))
                res[(c, role)] = v
    shutil.rmtree(root, ignore_errors=True)
    return [{"k": "git", "comp": b2l(c), "role": role, "r": v, "s": []} for (c, role), v in res.items()]


# ------------------------------------------------------------------ random components (binding B)
SEEDS = [b".git", b"git~1", b".gitmodules", b"gitmod~1", b"gitmod~4", b"gi7eba~1", b"gi7eb~12", b"gi~12345", b".gitattributes",
         b".", b"..", b"git~2", b"con", b"a"]
IGNORABLE = ["\u200c", "\u200d", "\u200e", "\u200f", "\u202a", "\u202b", "\u202c", "\u202d", "\u202e", "\u206a", "\u206b", "\u206c",
             "\u206d", "\u206e", "\u206f", "\ufeff"]
JUNK = [b" ", b".", b":", b":x", b"\\", b"~", b"1", b"x", b"\xff", b"\xc0\xaf", b"\xed\xa0\x80", b"\xe2\x80", b"\xef\xbf\xbe",
        "\u2060".encode(), "\u00e9".encode(), b"\\.git", b"\\git~1", b"\\.gitmodules", b"\t", b"\x01", b"$"]


def rnd_comp(rng):
    s = bytearray(rng.choice(SEEDS))
    for i in range(len(s)):
        if rng.random() < 0.25 and 97 <= s[i] <= 122:
            s[i] -= 32
    s = bytes(s)
    for _ in range(rng.choice([0, 0, 1, 1, 2])):
        k = rng.randint(0, len(s))
        s = s[:k] + rng.choice(IGNORABLE).encode() + s[k:]
    if rng.random() < 0.12 and len(s) > 1:
        k = rng.randrange(len(s))
        s = s[:k] + bytes([rng.randrange(1, 256)]) + s[k + 1:]
    for _ in range(rng.choice([0, 0, 1, 1, 2, 3])):
        s += rng.choice(JUNK + [x.encode() for x in IGNORABLE[:3]])
    if rng.random() < 0.25:
        s = rng.choice([b"a\\", b"\\", b" ", b"a", b".\\", b"x:\\", "\ufeff".encode()]) + s
    return s.replace(b"/", b"_").replace(b"\0", b"_").replace(b"\n", b"_")


# ------------------------------------------------------------------ the check
def run(ctx):
    binary = ctx.build("vh-c40")
    coll = Collector()
    consts = {"SMax": 2, "Wide": "FALSE"} if not ctx.thorough else {"SMax": 2, "Wide": "TRUE"}
    cases = ctx.tlc_gen("match", "PathProtect_Gen", consts=consts, timeout=3000)
    ctx.cov["exhaustive"] = True
    results = ctx.harness(binary, [{"comp": c["comp"]} for c in cases])
    for c, r in zip(cases, results):
        if "got" not in r:
            ctx.violation({"kind": "crash", "case": {"comp": c["comp"]}, "comp_text": show_bytes(c["comp"]), "classes": ["crash"],
                           "result": r})
            continue
        if any(any(v) for v in c["refused"].values()):
            ctx.nontrivial(bytes(c["comp"]))
        bad = failures(c["refused"], r["got"])
        if bad:
            coll.add("gen", c["comp"], c["refused"], r["got"], bad)
    ctx.cov["evaluations"] = len(cases) * 16
    mid = cases[len(cases) // 2]
    ctx.sample({"comp": show_bytes(mid["comp"]), "git_refuses(ntfs,hfs = 00,01,10,11)": mid["refused"]})

    # binding B: random mutations
    n = 2000 if not ctx.thorough else 30000
    rnd = [{"comp": b2l(rnd_comp(ctx.rng))} for _ in range(n)]
    res = ctx.harness(binary, rnd)
    events, owner = [], []
    for c, r in zip(rnd, res):
        if "got" not in r:
            ctx.violation({"kind": "crash", "case": c, "comp_text": show_bytes(c["comp"]), "classes": ["crash"], "result": r})
            continue
        g = r["got"]
        events.append({"k": "gix", "comp": c["comp"], "role": "", "r": [0 if x == "" else 1 for x in g["plain"]],
                       "s": [0 if x == "" else 1 for x in g["symlink"]]})
        owner.append((c, g))
    ctx.cov["evaluations"] += 16 * len(events)
    ngix = len(events)

    # binding C: git on the enumerated components (seeded sample in the quick tier) and on the random ones
    k = 1000 if not ctx.thorough else 12000
    pick = cases if len(cases) <= k else ctx.rng.sample(cases, k)
    events += observe_git(ctx, [c["comp"] for c in pick] + [c["comp"] for c in rnd])
    rejected = ctx.tlc_trace("match", "PathProtect_Trace", events, timeout=3000)
    gitbad = [i for i in rejected if i >= ngix]
    if gitbad:
        e = events[gitbad[0]]
        audit_mismatch(ctx, "PathProtect", {"event": e, "comp": show_bytes(e["comp"]), "rejected": len(gitbad)})
    ctx.cov["git_audited"] = 4 * (len(events) - ngix)
    ctx.log("audit: git update-index agreed with the specification on %d (component, role) observations x 4 option sets"
            % (len(events) - ngix))
    # random components rejected by the judge: the record needs git's verdicts; they were observed above
    gitv = {}
    for e in events[ngix:]:
        gitv.setdefault(bytes(e["comp"]), {})[e["role"]] = e["r"]
    for bi in rejected:
        if bi >= ngix:
            continue
        c, g = owner[bi]
        refused = gitv.get(bytes(c["comp"]))
        if refused is None or len(refused) != 3:
            raise ToolError("no git observation for rejected component %r" % c["comp"])
        bad = failures(refused, g)
        if not bad:
            raise ToolError("judge rejected %r but git's verdicts explain it" % c["comp"])
        ctx.nontrivial(bytes(c["comp"]))
        coll.add("random", c["comp"], refused, g, bad)
    for e in events[ngix:]:
        if any(e["r"]):
            ctx.nontrivial(bytes(e["comp"]))
    for r in coll.records():
        ctx.violation(r)
    ctx.cov["rule"] = ("A: every component lead+core+<=%s suffix tokens of PathProtect_Gen (%s alphabets) x 3 roles x 4 (protectNTFS, "
                       "protectHFS) x 2 protect_windows; B: %d seeded random mutations of dangerous names. evaluations = calls of "
                       "gix_validate::path::component. Non-trivial = git refuses the component in some role/option set; distinct by bytes."
                       % (consts["SMax"], "wide" if ctx.thorough else "quick", n))
    ctx.assumptions += ["git 2.39.5 (non-Windows build) is the reference; its verify_path is observed through update-index on every run",
                        "components contain no NUL and no '/'",
                        "roles: regular-file leaf, symlink leaf, directory above a regular file (mode None / Symlink / None in gitoxide)"]


def replay(ctx, rec):
    binary = ctx.build("vh-c40")
    c = rec["case"]
    r = ctx.harness(binary, [c])[0]
    if "got" not in r:
        ctx.violation(dict(rec, result=r))
        return
    g = r["got"]
    ev = {"k": "gix", "comp": c["comp"], "role": "", "r": [0 if x == "" else 1 for x in g["plain"]],
          "s": [0 if x == "" else 1 for x in g["symlink"]]}
    if ctx.tlc_trace("match", "PathProtect_Trace", [ev]):
        ctx.violation(dict(rec, gitoxide=g, replayed=True))
