"""C20 - Reference updates are crash-consistent.

spec/ref/RefStore.tla spells out, in order, the file-system mutations commit performs (CommitSteps:
reflog append, lock rename, reflog removal, packed-refs replacement by one rename, loose unlink) and
TLC checks CrashConsistent for every enumerated transaction: after any prefix of the mutations each
name resolves to its old or its new value and packed-refs is the complete old or new map.
 A: transactions of RefStore_Gen that the model commits are executed in a child process under an
    LD_PRELOAD shim (harness/shim/crash.c) that kills the process right before its n-th file-system
    mutation (open-for-write, write, rename, unlink, mkdir, rmdir, ...), for every n = 1..N (N from a
    dry run). After each crash a fresh gix_ref handle and git read every name: the value must be the
    model's `before` or `after` value of that name, iteration must not fail, packed-refs must be
    byte-identical to the old or the new file, and anything left over must be a *.lock file.
"""
from vf import *
import refstore as rs

LEVEL = "fault_enumeration"
META = {
    "technique": "TLA+ model of commit's mutation order checked by TLC (CrashConsistent); real commits killed before every file-system mutation (LD_PRELOAD crash shim) and read back by gitoxide and git",
    "note": "Crash = process death between two libc-level file-system mutations (the shim counts open-for-write/creat, write, rename*, unlink*, mkdir*, rmdir, link*, truncate). Torn writes inside one syscall and power loss (un-synced data) are outside the property's mechanism (rename atomicity). Reflog contents are not judged. Trusted: the shim sees every mutation (Rust std uses libc).",
}


def run(ctx):
    binary = ctx.build("vh-c16")
    env = rs.template(ctx)
    cases = ctx.tlc_gen("ref", "RefStore_Gen", consts={"Plan": 1}, timeout=3000)
    cases = [c for c in cases if c["verdict"] != "err" and c["nsteps"] > 0]
    cases.sort(key=lambda c: json.dumps(c, sort_keys=True))
    if ctx.thorough:
        two = ctx.tlc_gen("ref", "RefStore_Gen", consts={"Plan": 2}, timeout=3000)
        two = [c for c in two if c["verdict"] != "err" and c["nsteps"] > 1]
        two.sort(key=lambda c: json.dumps(c, sort_keys=True))
        cases = ctx.rng.sample(cases, 400) + ctx.rng.sample(two, 250)
    else:
        # stratified by number of model steps so that multi-step commits (packed rewrite + unlink) are present
        by = {}
        for c in cases:
            by.setdefault((c["nsteps"], c["mode"], c["edits"][0]["op"]), []).append(c)
        picked = []
        for k in sorted(by):
            picked += ctx.rng.sample(by[k], min(len(by[k]), 12))
        cases = picked
    for c in cases:
        c["op"] = "crash"
    ctx.log("%d transactions to crash at every mutation point" % len(cases))
    results = ctx.harness(binary, cases, timeout=3000, env=env)
    points = 0
    for c, r in zip(cases, results):
        if "got" not in r:
            ctx.violation({"kind": "crash-harness", "case": c, "result": r, "what": "executor failed"})
            continue
        g = r["got"]
        if not g["dry_ok"]:
            if c["verdict"] == "ok":
                ctx.violation({"kind": "dry", "case": c, "what": "transaction the model commits failed in the dry run: " + g["dry_out"][:200]})
            continue
        for run_ in g["runs"]:
            points += 1
            ctx.nontrivial(json.dumps([c["loose"], c["packed"], c["mode"], c["edits"], run_["n"]], sort_keys=True))
            bad = []
            for n in c["before"]:
                allowed = [rs.tkey(c["before"][n]), rs.tkey(c["after"][n])]
                got = run_["fresh"].get(n)
                if got is None or rs.tkey(got) not in allowed:
                    bad.append("%s reads %s to gitoxide, allowed %s" % (n, got, allowed))
            # git as second reader, within its limits as an observer (see refstore.judge_tx)
            for want in (c["before"], c["after"]):
                pass
            gv = run_["git"]
            for n in c["before"]:
                if n == "HEAD" or gv is None:
                    continue
                b, a = c["before"][n], c["after"][n]
                if b["k"] == "sym" or a["k"] == "sym":
                    continue  # for-each-ref prints the end of symbolic chains / hides dangling ones
                if c["before"]["HEAD"]["k"] == "none" or c["after"]["HEAD"]["k"] == "none":
                    continue  # without HEAD git sees no repository
                if rs.tkey(gv[n]) not in [rs.tkey(b), rs.tkey(a)]:
                    bad.append("%s reads %s to git, allowed %s" % (n, gv[n], [rs.tkey(b), rs.tkey(a)]))
            for e in run_["iter"]:
                if e[0] == "<error>":
                    bad.append("iteration fails after the crash: %s" % e[1])
            if run_["packed_state"] == "other":
                bad.append("packed-refs is neither the complete old nor the complete new file")
            if bad:
                ctx.violation({"kind": "crash-point", "case": c, "n": run_["n"], "points": g["points"], "mismatch": bad,
                               "classes": rs.classes(bad), "observed": run_})
    ctx.cov["crash_points_executed"] = points
    ctx.sample({"transaction": {k: cases[0][k] for k in ("loose", "packed", "mode", "edits")}, "crash_points": results[0].get("got", {}).get("points")})
    ctx.cov["rule"] = ("Transactions the model commits (stratified seeded sample of RefStore_Gen by model step count x mode x op; "
                       "thorough: 650 incl. 250 two-edit ones) x every mutation point 1..N found by a dry run. One evaluation = one "
                       "transaction; non-trivial/distinct = each (transaction, crash point) pair actually executed.")
    ctx.assumptions += ["process death only between libc-level mutations; no torn writes, no lost un-synced data"]


def replay(ctx, rec):
    binary = ctx.build("vh-c16")
    env = rs.template(ctx)
    c = rec["case"]
    r = ctx.harness(binary, [c], env=env)[0]
    g = r.get("got")
    if not g:
        ctx.violation(dict(rec, result=r))
        return
    for run_ in g["runs"]:
        for n in c["before"]:
            allowed = [rs.tkey(c["before"][n]), rs.tkey(c["after"][n])]
            got = run_["fresh"].get(n)
            if got is None or rs.tkey(got) not in allowed or run_["packed_state"] == "other":
                ctx.violation({"kind": "crash-point", "case": c, "n": run_["n"], "observed": run_, "mismatch": ["replayed"]})
                return
