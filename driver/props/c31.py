"""C31 - Fetching and cloning reproduce the server's objects and references.

spec/proto/Fetch.tla: histories as DAGs with (possibly skewed) commit times and annotated tag objects; a fetch as a
state machine start -> negotiate (have-lines newest first, server acknowledgements) -> pack (Closure(wants) minus
what acknowledged commits reach) -> refs (git's update rules: new / same / fast-forward = is-ancestor / forced /
rejected non-ff / rejected tag; automatic tag following with back-fill) -> done, with the invariants HavesAreLocal,
AckedAreCommon, RefsClosed (a ref never points at history that is not stored), PackSuffices, OdbClosed, FinalRefs,
NoSilentRewind, FastForwardsTaken - model-checked by TLC for every world of Fetch_Gen (5 history shapes x server
refs x client refs x 6 refspec sets x tag following, every negotiation length). Bug_FFByTimeCutoff (the
fast-forward test of the pinned commit) is shown to violate FastForwardsTaken on the skewed shape.
 A: a seeded sample of TLC's worlds is materialised (server and client repositories written object by object from a
    git-made universe), fetched with gix (Remote::connect -> prepare_fetch -> receive) over file:// with protocol 1
    and 2; the resulting references (git for-each-ref) vs TLC's expected_refs; git fsck --connectivity-only clean.
 B: Fetch_Trace judges what was observed (references and which objects are present) with the specification's
    operators, recomputing the expectation from the world.
 C: `git fetch` into an identical copy of the client must produce the specification's references (else tool error).
 Clone: gix::prepare_clone(..).fetch_only vs ExpectedClone and vs `git clone --no-checkout`; --depth 1 clones of
 tag-less servers: references, shallow boundary and fsck.
"""
import os
import subprocess
from vf import *

LEVEL = "model_checking"
META = {
    "technique": "TLA+ state machine of a fetch (negotiation, pack, reference update rules, tag following) on small commit DAGs, model-checked by TLC for closure/safety invariants over all worlds of the instance; sampled worlds materialised with git and fetched/cloned by the gix crate over file:// (protocol 1 and 2); observed references and object sets judged by a TLC trace spec; git fetch / git clone as auditor",
    "note": "Worlds: 5 history shapes of 6 commits + 1 annotated tag object, server heads main/dev and tag v1, client tracking refs / local branch / local tag, 6 refspec sets, tag following on/off; bare clients. gitoxide deliberately mirrors remote symbolic refs as symbolic refs (documented), so servers have no symbolic refs besides HEAD and HEAD is not mapped. The negotiation model abstracts the batching of have-lines and the skipping algorithm; real negotiation is observed only through its outcome (objects present, fsck). Shallow: only --depth 1 clones. ssh/http transports are not covered.",
}

SPECS = {
    1: ["+refs/heads/*:refs/remotes/origin/*"],
    2: ["refs/heads/*:refs/remotes/origin/*"],
    3: ["refs/heads/main:refs/heads/main"],
    4: ["+refs/heads/*:refs/remotes/origin/*", "^refs/heads/dev"],
    5: ["+refs/heads/*:refs/remotes/origin/*", "refs/tags/*:refs/tags/*"],
    6: ["+refs/heads/*:refs/remotes/origin/*", "+refs/tags/*:refs/tags/*"],
}
# the history shapes of Fetch_Gen.tla (materialisation of the same tables; read back and compared below)
SHAPES = {
    1: ([[], [1], [2], [3], [4], [2], [3]], [10, 20, 30, 40, 50, 35, 0]),
    2: ([[], [1], [2], [1], [4], [3], [2]], [10, 20, 30, 25, 45, 60, 0]),
    3: ([[], [1], [1], [2, 3], [4], [3], [4]], [10, 20, 21, 30, 40, 33, 0]),
    4: ([[], [1], [2], [3], [4], [2], [3]], [10, 50, 20, 60, 70, 15, 0]),
    5: ([[], [1], [1], [2, 3], [2, 3], [4, 5], [5]], [30, 20, 40, 10, 50, 60, 0]),
}


class Universe:
    """all objects of one history shape, made by git; files[c] = the loose object files that came with object c"""

    def __init__(self, ctx, shape):
        self.dir = os.path.join(ctx.work, "uni-%d.git" % shape)
        git(["init", "-q", "--bare", self.dir], check=True)
        parents, times = SHAPES[shape]
        self.ids, self.files = {}, {}
        for c in range(1, 8):
            before = self._loose()
            if c < 7:
                blob = git(["-c", "core.fsync=none", "hash-object", "-w", "--stdin"], cwd=self.dir, input=b"content of %d\n" % c, check=True).stdout.decode().strip()
                tree = git(["-c", "core.fsync=none", "mktree"], cwd=self.dir, input=("100644 blob %s\tf%d\n" % (blob, c)).encode(), check=True).stdout.decode().strip()
                args = ["-c", "core.fsync=none", "commit-tree", "-m", "commit %d" % c]
                for p in parents[c - 1]:
                    args += ["-p", self.ids[p]]
                date = "%d +0000" % (1000000000 + times[c - 1])
                self.ids[c] = git(args + [tree], cwd=self.dir, env={"GIT_AUTHOR_DATE": date, "GIT_COMMITTER_DATE": date}, check=True).stdout.decode().strip()
            else:
                body = "object %s\ntype commit\ntag v1\ntagger T <t@x> 1000000000 +0000\n\nannotated\n" % self.ids[parents[6][0]]
                self.ids[c] = git(["-c", "core.fsync=none", "mktag"], cwd=self.dir, input=body.encode(), check=True).stdout.decode().strip()
            self.files[c] = sorted(self._loose() - before)
        self.num = {v: k for k, v in self.ids.items()}
        # read back: parents and committer times as git sees them
        for c in range(1, 7):
            out = git(["log", "-1", "--format=%P|%ct", self.ids[c]], cwd=self.dir, check=True).stdout.decode().strip()
            ps, ct = out.split("|")
            if sorted(self.num[p] for p in ps.split()) != sorted(parents[c - 1]) or int(ct) != 1000000000 + times[c - 1]:
                raise ToolError("universe %d: commit %d is not what the shape table says" % (shape, c))

    def _loose(self):
        res = set()
        od = os.path.join(self.dir, "objects")
        for d in os.listdir(od):
            if len(d) == 2:
                for f in os.listdir(os.path.join(od, d)):
                    res.add(d + "/" + f)
        return res

    def make_repo(self, path, objs, refs, head="refs/heads/main", config=""):
        os.makedirs(os.path.join(path, "objects", "info"))
        os.makedirs(os.path.join(path, "objects", "pack"))
        os.makedirs(os.path.join(path, "refs", "heads"))
        os.makedirs(os.path.join(path, "refs", "tags"))
        for c in objs:
            for f in self.files[c]:
                dst = os.path.join(path, "objects", f)
                os.makedirs(os.path.dirname(dst), exist_ok=True)
                shutil.copyfile(os.path.join(self.dir, "objects", f), dst)
        for name, c in refs.items():
            p = os.path.join(path, name)
            os.makedirs(os.path.dirname(p), exist_ok=True)
            with open(p, "w") as f:
                f.write(self.ids[c] + "\n")
        with open(os.path.join(path, "HEAD"), "w") as f:
            f.write("ref: %s\n" % head)
        with open(os.path.join(path, "config"), "w") as f:
            f.write("[core]\n\trepositoryformatversion = 0\n\tbare = true\n" + config)


def refs_of(path, uni):
    out = git(["for-each-ref", "--format=%(refname) %(objectname)"], cwd=path, check=True).stdout.decode()
    res = {}
    for line in out.splitlines():
        n, o = line.split(" ")
        res[n] = uni.num.get(o, -1)
    return res


def has_objects(path, uni):
    inp = "".join(uni.ids[c] + "\n" for c in range(1, 8)).encode()
    out = git(["cat-file", "--batch-check"], cwd=path, input=inp, check=True).stdout.decode().splitlines()
    return [c for c, line in zip(range(1, 8), out) if not line.endswith("missing")]


def fsck_clean(path):
    p = git(["fsck", "--connectivity-only", "--no-dangling"], cwd=path)
    return p.returncode == 0, (p.stdout + p.stderr).decode("utf-8", "replace")[-300:]


def seq_to_map(s):
    return {r["name"]: r["obj"] for r in s}


def world_text(c):
    return "shape %d; server %s; client %s (objects %s); refspecs %s%s" % (
        c["shape"], seq_to_map(c["server_refs"]), seq_to_map(c["client_refs"]), c["client_odb"], SPECS[c["set"]], "" if c["follow"] else " --no-tags")


def run_fetches(ctx, binary, unis, cases):
    jobs = []
    for k, c in enumerate(cases):
        uni = unis[c["shape"]]
        base = os.path.join(ctx.work, "w", "%05d" % k)
        server = os.path.join(base, "server.git")
        uni.make_repo(server, c["server_odb"], seq_to_map(c["server_refs"]))
        conf = '[remote "origin"]\n\turl = %s\n' % server + "".join("\tfetch = %s\n" % s for s in SPECS[c["set"]]) + ("" if c["follow"] else "\ttagOpt = --no-tags\n")
        clients = {}
        for tag in ("gix1", "gix2", "git"):
            p = os.path.join(base, "client-%s.git" % tag)
            uni.make_repo(p, c["client_odb"], seq_to_map(c["client_refs"]), config=conf)
            clients[tag] = p
        # read back
        if refs_of(server, uni) != seq_to_map(c["server_refs"]) or refs_of(clients["git"], uni) != seq_to_map(c["client_refs"]):
            raise ToolError("materialisation: references of world %d differ from the model" % k)
        if has_objects(clients["git"], uni) != c["client_odb"] or has_objects(server, uni) != c["server_odb"]:
            raise ToolError("materialisation: objects of world %d differ from the model" % k)
        jobs.append((k, c, uni, base, server, clients))
    hcases = []
    for (k, c, uni, base, server, clients) in jobs:
        for tag, proto in (("gix1", 1), ("gix2", 2)):
            hcases.append({"op": "fetch", "repo": clients[tag], "remote": "origin", "protocol": proto, "tags": "default" if c["follow"] else "none", "depth": 0})
    results = ctx.harness(binary, hcases, timeout=3000)
    events, owners = {}, {}
    for j, (k, c, uni, base, server, clients) in enumerate(jobs):
        want = seq_to_map(c["expected_refs"])
        # binding C: git fetch into the identical copy
        p = git(["fetch", "origin"], cwd=clients["git"])
        got_git = refs_of(clients["git"], uni)
        if got_git != want:
            audit_mismatch(ctx, "Fetch (git fetch vs ExpectedRefs)", {"world": world_text(c), "git": got_git, "spec": want,
                                                                     "stderr": p.stderr.decode("utf-8", "replace")[-300:]})
        decisions = {m["dst"]: m["decision"] for m in c["mappings"]}
        for i, (tag, proto) in enumerate((("gix1", 1), ("gix2", 2))):
            r = results[2 * j + i]
            rec = {"kind": "fetch", "case": {"world": c, "protocol": proto}, "world_text": world_text(c), "protocol": proto,
                   "shape": c["shape"], "set": c["set"], "decisions": sorted(set(decisions.values()))}
            if "got" not in r:
                ctx.violation(dict(rec, classes=["crash"], what="fetch panicked/hung", result=r, panic=str(r.get("panic", ""))[:80]))
                continue
            g = r["got"]
            got = refs_of(clients[tag], uni)
            has = has_objects(clients[tag], uni)
            ok_fsck, fsck_out = fsck_clean(clients[tag])
            bad = []
            if not g["ok"]:
                bad.append("fetch failed: " + g["err"])
            if got != want:
                diff = {n: {"spec": want.get(n), "gix": got.get(n), "rule": decisions.get(n)} for n in set(want) | set(got) if want.get(n) != got.get(n)}
                bad.append("references differ: %s" % json.dumps(diff, sort_keys=True))
            if not ok_fsck:
                bad.append("git fsck --connectivity-only: " + fsck_out)
            rec["rules"] = sorted({decisions.get(n, "tag-following") for n in set(want) | set(got) if want.get(n) != got.get(n)})
            if bad:
                ctx.violation(dict(rec, classes=["fetch", "refs" if got != want else "objects"], mismatch=bad, updates=g["updates"],
                                   what="after the fetch the client is not what the specification (and git fetch) say"))
            ev = {"refs0": c["client_refs"], "odb0": c["client_odb"], "ms": c["specs"], "follow": c["follow"],
                  "stags": [r_ for r_ in c["server_refs"] if r_["name"].startswith("refs/tags/")], "ok": g["ok"],
                  "refs": [{"name": n, "obj": o} for n, o in sorted(got.items())], "has": has}
            events.setdefault(c["shape"], []).append(ev)
            owners.setdefault(c["shape"], []).append(rec)
        if any(d not in ("new", "same") for d in decisions.values()) or c["follow"]:
            ctx.nontrivial("fetch:" + json.dumps([c["shape"], c["set"], c["follow"], c["server_refs"], c["client_refs"]], sort_keys=True))
        shutil.rmtree(base, ignore_errors=True)
    for shape, evs in sorted(events.items()):
        for bi in ctx.tlc_trace("proto", "Fetch_Trace", evs, consts={"Shape": shape, "Small": "FALSE"}):
            ctx.violation(dict(owners[shape][bi], classes=["fetch", "trace"], observed={"refs": evs[bi]["refs"], "has": evs[bi]["has"]},
                               what="observed references/objects rejected by Fetch_Trace"))
    ctx.cov["fetches"] = ctx.cov.get("fetches", 0) + len(hcases)
    ctx.cov["git_fetch_audits"] = ctx.cov.get("git_fetch_audits", 0) + len(jobs)


def run_clones(ctx, binary, unis, cases):
    """distinct servers: full clone and (tag-less servers) --depth 1 clone"""
    seen, jobs = set(), []
    for c in cases:
        key = json.dumps([c["shape"], c["server_refs"]], sort_keys=True)
        if key in seen:
            continue
        seen.add(key)
        jobs.append(c)
    hcases, meta = [], []
    for k, c in enumerate(jobs):
        uni = unis[c["shape"]]
        base = os.path.join(ctx.work, "cl", "%04d" % k)
        server = os.path.join(base, "server.git")
        uni.make_repo(server, c["server_odb"], seq_to_map(c["server_refs"]))
        tagless = not any(r["name"].startswith("refs/tags/") for r in c["server_refs"])
        for depth in ([0, 1] if tagless else [0]):
            for proto in (1, 2):
                dest = os.path.join(base, "gix-%d-%d" % (depth, proto))
                hcases.append({"op": "clone", "url": "file://" + server, "dest": dest, "bare": False, "protocol": proto, "depth": depth})
                meta.append((c, uni, base, server, depth, proto, dest))
    results = ctx.harness(binary, hcases, timeout=3000)
    audited = set()
    for (c, uni, base, server, depth, proto, dest), r in zip(meta, results):
        rec = {"kind": "clone", "case": {"world": c, "protocol": proto, "depth": depth}, "world_text": "clone of shape %d server %s depth %d" % (c["shape"], seq_to_map(c["server_refs"]), depth),
               "protocol": proto, "shape": c["shape"], "depth": depth}
        want = seq_to_map(c["expected_clone"])
        if (server, depth) not in audited:
            audited.add((server, depth))
            gdest = os.path.join(base, "git-%d" % depth)
            args = ["clone", "-q", "--no-checkout"] + (["--depth", "1", "--no-single-branch"] if depth else []) + ["file://" + server, gdest]
            git(args, check=True)
            ggot = refs_of(gdest, uni)
            if ggot != want:
                audit_mismatch(ctx, "Fetch (git clone vs ExpectedClone)", {"server": seq_to_map(c["server_refs"]), "git": ggot, "spec": want})
            if depth:
                sh = sorted(uni.num.get(l.strip(), -1) for l in open(os.path.join(gdest, ".git", "shallow")))
                if sh != c["shallow_tips"]:
                    audit_mismatch(ctx, "Fetch (shallow boundary)", {"git": sh, "spec": c["shallow_tips"]})
        if "got" not in r:
            ctx.violation(dict(rec, classes=["crash"], what="clone panicked/hung", result=r, panic=str(r.get("panic", ""))[:80]))
            continue
        g = r["got"]
        bad = []
        if not g["ok"]:
            bad.append("clone failed: " + g["err"])
        else:
            got = refs_of(dest, uni)
            if got != want:
                bad.append("references differ: spec %s, gix %s" % (want, got))
            head = open(os.path.join(dest, ".git", "HEAD")).read().strip()
            if head != "ref: refs/heads/main":
                bad.append("HEAD is %r" % head)
            ok_fsck, out = fsck_clean(dest)
            if not ok_fsck:
                bad.append("git fsck --connectivity-only: " + out)
            shp = os.path.join(dest, ".git", "shallow")
            sh = sorted(uni.num.get(l.strip(), -1) for l in open(shp)) if os.path.exists(shp) else []
            if sh != (c["shallow_tips"] if depth else []):
                bad.append("shallow boundary %s, specification %s" % (sh, c["shallow_tips"] if depth else []))
            if not depth and not set(c["server_odb"]) <= set(has_objects(dest, uni)):
                bad.append("objects missing: has %s, server has %s" % (has_objects(dest, uni), c["server_odb"]))
        if bad:
            ctx.violation(dict(rec, classes=["clone", "depth%d" % depth], mismatch=bad, what="the clone is not what the specification (and git clone) say"))
        ctx.nontrivial("clone:" + json.dumps([c["shape"], c["server_refs"], depth, proto], sort_keys=True))
    shutil.rmtree(os.path.join(ctx.work, "cl"), ignore_errors=True)
    ctx.cov["clones"] = ctx.cov.get("clones", 0) + len(hcases)


def run(ctx):
    binary = ctx.build("vh-c31")
    shapes = [1, 2, 3, 4, 5] if ctx.thorough else [4]
    small = "FALSE" if ctx.thorough else "TRUE"
    ctx.tlc_mc("proto", "Fetch_Gen", cfg="Fetch_MC.cfg", consts={"Shape": 4, "Small": "TRUE", "Bug_FFByTimeCutoff": "TRUE"}, workers=6,
               expect_violation="FastForwardsTaken", coverage=False)
    unis, cases = {}, []
    for s in shapes:
        # one TLC run per shape: invariants of the state machine in every state + one CASE line per world
        cs = ctx.tlc_gen("proto", "Fetch_Gen", consts={"Shape": s, "Small": small}, workers=6, timeout=3000)
        cs.sort(key=lambda c: json.dumps(c, sort_keys=True))
        ctx.cov["worlds_shape_%d" % s] = len(cs)
        # sample: prefer worlds where a rule other than new/same decides something
        interesting = lambda c: any(m["decision"] not in ("new", "same") for m in c["mappings"])
        inter = [c for c in cs if interesting(c)]
        rest = [c for c in cs if not interesting(c)]
        ctx.rng.shuffle(inter)
        ctx.rng.shuffle(rest)
        n = 80 if ctx.thorough else 44
        cases += inter[: n * 3 // 4] + rest[: n // 4]
        unis[s] = Universe(ctx, s)
    ctx.cov["exhaustive"] = False
    ctx.cov["worlds_executed"] = len(cases)
    run_fetches(ctx, binary, unis, cases)
    run_clones(ctx, binary, unis, cases[:: (3 if ctx.thorough else 4)])
    ctx.sample({"world": world_text(cases[0]), "mappings": cases[0]["mappings"], "expected_refs": seq_to_map(cases[0]["expected_refs"])})
    classes = {}
    for v in ctx.violations:
        k = "%s shape=%s proto=%s rules=%s" % ("/".join(v.get("classes", [])), v.get("shape"), v.get("protocol"), ",".join(v.get("rules", [])))
        classes[k] = classes.get(k, 0) + 1
    ctx.cov["violation_classes"] = classes
    if classes:
        ctx.log("violation classes: %s" % json.dumps(classes, sort_keys=True))
    ctx.cov["rule"] = ("TLC model-checks every world of Fetch_Gen for the shapes %s; executed: a seeded sample (3/4 of it worlds in which a rule other than "
                       "new/same decides a mapping), each fetched with protocol 1 and 2; clones of the distinct servers among them. Non-trivial = the world "
                       "exercises fast-forward / forced / rejected rules or tag following; distinct by (shape, refspec set, follow, server refs, client refs)." % shapes)
    ctx.assumptions += ["git 2.39.5 fetch/clone/upload-pack are the reference (audited on every executed world)",
                        "bare clients, no symbolic refs on the server besides HEAD, HEAD not mapped by refspecs",
                        "file:// transport only"]


def replay(ctx, rec):
    binary = ctx.build("vh-c31")
    c = rec["case"]["world"]
    unis = {c["shape"]: Universe(ctx, c["shape"])}
    if rec["kind"] == "clone":
        run_clones(ctx, binary, unis, [c])
    else:
        run_fetches(ctx, binary, unis, [c])
