"""C35 - Credential helper messages cannot be forged.

spec/proto/CredCtx.tla states the helper wire format (key=value LF lines, blank line ends, first '='
splits, unknown keys skipped), Write/Read over byte sequences, which contexts must be refused (a value
with LF or NUL) and which may be (CR, as git >= 2.48.1 / Debian's 2.39.5 do), and the design-level
statements RoundTrip and RefusalNecessary, model-checked by TLC over every generated context.
 A: CredCtx_Gen enumerates contexts (one focus field x token strings, all pairs of fields) with the
    demanded refusal verdict; replayed through Context::write_to and Context::from_bytes.
    CredCtxDec_Gen enumerates messages (<= MaxToks tokens) with Read's result; replayed via from_bytes.
 B: the recorded (refused, bytes, read-back) of every generated and of seeded random contexts, and
    decodes of seeded random messages, are judged by CredCtx_Trace (IsEncodingOf is order independent).
 C: the installed git is handed contexts through `git credential fill` (percent-encoded url); what
    its helper receives, or its refusal, is judged by the same module (mismatch = tool error).
"""
import os
import concurrent.futures
from vf import *

LEVEL = "exploration"
META = {
    "technique": "TLA+ specification of the credential wire format (Write/Read/refusal) with round-trip and refusal-necessity statements model-checked by TLC; TLC-enumerated contexts and messages replayed in gix-credentials; observations judged by a TLC trace module; spec audited against git credential",
    "note": "Exhaustive over the token alphabets of the _Gen modules (stated in coverage.rule); random part seeded. `quit` is not part of what is sent and is outside the compared fields. Messages with a CR directly before LF and non-ASCII keys are outside the judged domain of the decoder.",
}
FIELDS = ["url", "path", "protocol", "host", "username", "password"]
TEXT = ["protocol", "host", "username", "password"]
EMPTY = {f: [] for f in FIELDS}
VTOK = [b"a", b"=", b"\r", b"\n", b"\0", "é".encode(), b"b", b" ", b"\r\n", b"username=x", b"\n\n", b"%0a", b":", b"/"]
LTOK = [b"username=", b"password=", b"path=", b"url=", b"host=", b"protocol=", b"quit=", b"x=", b"a", b"=", b"\n", b"\n", b"\r",
        b"\0", b"\xff", "é".encode(), b"1", b"true", b" "]


def rt_event(case, g):
    return {"kind": "rt", "ctx": case["ctx"], "refused": g["refused"], "bytes": g["bytes"], "back_ok": g["back_ok"],
            "back": g["back"], "ok": False}


def dec_event(case, g):
    return {"kind": "dec", "ctx": EMPTY, "refused": False, "bytes": case["input"], "back_ok": False, "back": g["ctx"],
            "ok": g["ok"]}


def show_ctx(c):
    return {f: show_bytes(v[0]) for f, v in c.items() if v}


def rt_mismatch(case, g):
    """readable description of a rejected event (labels only; the verdict is TLC's). `case` carries the
    specification's verdicts when it was printed by CredCtx_Gen."""
    bad = []
    if case.get("must_refuse") and not g["refused"]:
        bad.append("refusal: a value with LF/NUL was sent")
    if g["refused"] and case.get("may_refuse") is False:
        bad.append("refusal: a harmless context was refused")
    if not g["refused"]:
        if not g["back_ok"]:
            bad.append("readback: from_bytes fails on what write_to wrote: " + g.get("err", ""))
        elif g["back"] != case["ctx"]:
            diff = [f for f in FIELDS if g["back"][f] != case["ctx"][f]]
            bad.append("readback: fields %s differ after write_to -> from_bytes" % diff)
    return bad


def classes(bad):
    return sorted({b.split(":")[0] for b in bad}) or ["encoding"]


def random_ctx(rng):
    c = {}
    for f in FIELDS:
        if rng.random() < 0.45:
            c[f] = []
            continue
        k = rng.choice([0, 1, 1, 2, 3, 5])
        s = b"".join(rng.choice(VTOK) for _ in range(k))
        if rng.random() < 0.25:
            if f in TEXT:
                s += "".join(chr(rng.choice([rng.randrange(1, 128), rng.randrange(128, 0x800), rng.randrange(0x800, 0xd800),
                                             rng.randrange(0x10000, 0x110000)])) for _ in range(rng.randint(1, 3))).encode()
            else:
                s += bytes(rng.randrange(256) for _ in range(rng.randint(1, 4)))
        c[f] = [b2l(s)]
    return c


def random_msg(rng):
    s = b"".join(rng.choice(LTOK) for _ in range(rng.randint(0, 12)))
    if rng.random() < 0.15:
        s += bytes(rng.randrange(256) for _ in range(rng.randint(1, 4)))
    return s


def pct(b):
    return "".join("%%%02x" % x for x in b)


def git_audit(ctx, n):
    """binding C: git's own writer / refusal vs the specification"""
    vals = [b"a", b"a=b", b"=", b"a\r", b"\r", b"\ra", b"a\nb", b"\n", "é".encode(), b"a b", b"a\r\n", b"username=x", b"a%b",
            b"\xff", b"a\n", b"\r\r"]
    jobs = []
    # gitoxide types the user name as text: Read demands UTF-8 there (git does not care), so 0xff only goes into the path
    uvals = [v for v in vals if v != b"\xff"]
    for u in vals:
        if u in uvals:
            jobs.append({"username": u, "path": None})
        jobs.append({"username": None, "path": u})
    for _ in range(max(0, n - len(jobs))):
        jobs.append({"username": ctx.rng.choice(uvals + [None]), "path": ctx.rng.choice(vals + [None])})

    def one(idx_job):
        idx, j = idx_job
        out = os.path.join(ctx.work, "githelper-%d" % idx)
        url = "https://" + (pct(j["username"]) + "@" if j["username"] is not None else "") + "ex.com"
        if j["path"] is not None:
            url += "/" + pct(j["path"])
        helper = "!f() { test \"$1\" = get && cat > %s; echo username=hu; echo password=pw; }; f" % out
        p = git(["-c", "credential.useHttpPath=true", "-c", "credential.helper=", "-c", "credential.helper=" + helper,
                 "credential", "fill"], input=("url=%s\n" % url).encode())
        c = dict(EMPTY)
        c["protocol"] = [b2l(b"https")]
        c["host"] = [b2l(b"ex.com")]
        if j["username"] is not None:
            c["username"] = [b2l(j["username"])]
        if j["path"] is not None:
            c["path"] = [b2l(j["path"])]
        if p.returncode == 0:
            if not os.path.exists(out):
                raise ToolError("git credential fill succeeded without calling the helper: %r" % url)
            return {"kind": "git", "ctx": c, "refused": False, "bytes": b2l(open(out, "rb").read()), "back_ok": False,
                    "back": EMPTY, "ok": False}, p
        # git died: before reaching the helper (LF: url refused) or while writing to it (CR; the lines
        # already written are a prefix without the offending value)
        return {"kind": "git", "ctx": c, "refused": True, "bytes": [], "back_ok": False, "back": EMPTY, "ok": False}, p

    with concurrent.futures.ThreadPoolExecutor(8) as ex:
        res = list(ex.map(one, enumerate(jobs)))
    events = [e for e, _ in res]
    if not any(e["refused"] for e in events) or all(e["refused"] for e in events):
        raise ToolError("git audit is vacuous (refused: %d of %d)" % (sum(e["refused"] for e in events), len(events)))
    for bi in ctx.tlc_trace("proto", "CredCtx_Trace", events):
        audit_mismatch(ctx, "CredCtx", {"ctx": show_ctx(events[bi]["ctx"]), "git_refused": events[bi]["refused"],
                                        "git_bytes": show_bytes(events[bi]["bytes"]),
                                        "stderr": res[bi][1].stderr.decode("utf-8", "replace")[-200:]})
    ctx.cov["git_audited"] = len(events)
    ctx.log("audit: git credential agreed with the specification on %d contexts (%d refused)" % (
        len(events), sum(e["refused"] for e in events)))


def run(ctx):
    binary = ctx.build("vh-c35")
    consts = {"FocusToks": 3, "PairToks": 1} if not ctx.thorough else {"FocusToks": 4, "PairToks": 2}
    dconsts = {"MaxToks": 4 if not ctx.thorough else 5}
    if ctx.thorough:
        # self-test of the model: the reader of the pinned commit breaks the design-level round trip
        ctx.tlc_mc("proto", "CredCtx_Gen", consts={"Bug_StripCR": "TRUE", "FocusToks": 2, "PairToks": 0},
                   expect_violation="InvRoundTrip", coverage=False)
    gen, seen = [], set()
    for c in ctx.tlc_gen("proto", "CredCtx_Gen", consts=consts):
        k = json.dumps(c["ctx"], sort_keys=True)      # the same context is reached through several selectors
        if k not in seen:
            seen.add(k)
            gen.append(c)
    dec = ctx.tlc_gen("proto", "CredCtxDec_Gen", consts=dconsts)
    ctx.cov["exhaustive"] = True
    for c in gen:
        c["op"] = "rt"
    for c in dec:
        c["op"] = "dec"

    # seeded random contexts and messages
    nr = 3000 if not ctx.thorough else 20000
    rnd = [{"op": "rt", "ctx": random_ctx(ctx.rng)} for _ in range(nr)]
    rmsg = [{"op": "dec", "input": b2l(random_msg(ctx.rng))} for _ in range(nr)]

    cases = gen + dec + rnd + rmsg
    results = ctx.harness(binary, cases)
    events, owner = [], []
    wire_same = 0
    for i, (c, r) in enumerate(zip(cases, results)):
        if "got" not in r:
            ctx.violation({"kind": "crash", "case": c, "result": r, "classes": ["crash"],
                           "what": "write_to/from_bytes panicked or hung"})
            continue
        g = r["got"]
        if c["op"] == "rt":
            events.append(rt_event(c, g))
            if "wire" in c and not g["refused"] and g["bytes"] == c["wire"]:
                wire_same += 1
            vals = [v[0] for v in c["ctx"].values() if v]
            if any(set(v) & {0, 10, 13, 61} for v in vals):
                ctx.nontrivial("rt" + json.dumps(c["ctx"], sort_keys=True))
        else:
            events.append(dec_event(c, g))
            if "ok" in c and c["indomain"] and (g["ok"] != c["ok"] or (g["ok"] and g["ctx"] != c["ctx"])):
                # binding A on the reader: direct comparison with the line printed by CredCtxDec_Gen
                ctx.violation({"kind": "dec-gen", "case": c, "input_text": show_bytes(c["input"]), "classes": ["decode"],
                               "what": "from_bytes ok=%s %s, specification ok=%s %s" % (g["ok"], show_ctx(g["ctx"]), c["ok"], show_ctx(c["ctx"])),
                               "result": g})
            if set(c["input"]) & {0, 13, 255} or c["input"].count(10) > 1 or c["input"].count(61) > 1:
                ctx.nontrivial("dec" + bytes(c["input"]).hex())
        owner.append(i)
    for bi in ctx.tlc_trace("proto", "CredCtx_Trace", events):
        c, g = cases[owner[bi]], results[owner[bi]]["got"]
        if c["op"] == "rt":
            bad = rt_mismatch(c, g)
            ctx.violation({"kind": "rt", "case": c, "ctx_text": show_ctx(c["ctx"]), "classes": classes(bad), "mismatch": bad,
                           "trailing_cr": any(v and v[0][-1:] == [13] for v in c["ctx"].values()),
                           "wire_text": show_bytes(g["bytes"]), "result": g,
                           "what": "write_to/from_bytes observation rejected by CredCtx_Trace.JudgeRt"})
        else:
            ctx.violation({"kind": "dec", "case": c, "input_text": show_bytes(c["input"]), "classes": ["decode"], "result": g,
                           "what": "from_bytes result rejected by CredCtx_Trace.JudgeDec"})
    tally = {}
    for v in ctx.violations + [r for _f, r in ctx.known_hits.values()]:
        k = "%s/%s/trailing_cr=%s" % (v.get("kind"), ",".join(v.get("classes", [])), v.get("trailing_cr"))
        tally[k] = tally.get(k, 0) + 1
    if tally:
        ctx.log("violations by class: %s" % json.dumps(tally, sort_keys=True))
    ctx.cov["writer_byte_identical_to_canonical_Write"] = "%d/%d sent generated contexts" % (
        wire_same, sum(1 for c, r in zip(gen, results) if "got" in r and not r["got"]["refused"]))
    ctx.sample({"ctx": show_ctx(gen[len(gen) // 2]["ctx"]), "spec": {k: gen[len(gen) // 2][k] for k in ("must_refuse", "may_refuse")},
                "observed": results[len(gen) // 2].get("got")})
    ctx.sample({"message": show_bytes(dec[len(dec) // 2]["input"]), "spec_ok": dec[len(dec) // 2]["ok"],
                "spec_ctx": show_ctx(dec[len(dec) // 2]["ctx"])})

    git_audit(ctx, 60 if not ctx.thorough else 400)

    ctx.cov["rule"] = ("A: CredCtx_Gen - each of the 6 fields x every string of <= %s tokens over {a,=,CR,LF,NUL,e-acute(,0xff for url/path)} "
                       "with the other fields absent/'b', plus all field pairs x strings of <= %s tokens; CredCtxDec_Gen - every message of <= %s "
                       "tokens over {username=,path=,x=,a,=,LF,CR,NUL,0xff,e-acute} (both exhaustive). B: %d seeded random contexts and %d random "
                       "messages. Non-trivial = a context with '=', CR, LF or NUL in some value / a message with NUL, CR, 0xff, several lines or "
                       "several '='; distinct by content." % (consts["FocusToks"], consts["PairToks"], dconsts["MaxToks"], nr, nr))
    ctx.assumptions += ["the text fields of a Context are UTF-8 by type; `quit` is never sent and not compared",
                        "decoder inputs with CR directly before LF (CRLF helpers; stripped by git as well) and non-ASCII keys are not judged",
                        "refusing a value that contains CR is allowed (git's credential.protectProtocol), sending it is allowed only if it reads back unchanged"]


def replay(ctx, rec):
    binary = ctx.build("vh-c35")
    c = rec["case"]
    r = ctx.harness(binary, [c])[0]
    if "got" not in r:
        ctx.violation(dict(rec, result=r))
        return
    ev = rt_event(c, r["got"]) if c["op"] == "rt" else dec_event(c, r["got"])
    if ctx.tlc_trace("proto", "CredCtx_Trace", [ev]):
        ctx.violation(dict(rec, result=r["got"]))
