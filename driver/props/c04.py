"""C04 - Tree editing yields the same tree as building the result from scratch.

spec/object/TreeEditor.tla gives the abstract meaning of an edit history (upsert / remove / cursor
edits / set_root / intermediate writes) on a flat set of leaf entries - the set of paths git builds a
tree from - including shadowing on file<->directory type changes, disappearing empty directories and
null-id placeholders.
 A: TreeEditor_Gen enumerates every history of <= MaxOps steps over a colliding path alphabet
    (a, a-, a0, a/b, a/c, a/b/c; cursors at a and a/b), each closed by a write; the real
    gix_object::tree::Editor replays them against an in-memory object map; after every write the tree
    read back from the returned id must be exactly the spec's flat tree and the id must be the
    canonical id of that flat tree (SHA-1 by the evaluator: hashlib; audited against `git mktree`).
 B: seeded random histories (30-120 steps, 12 paths) validated step by step by TreeEditor_Trace
    (stateful acceptor), which also judges every tree handed to `out` for canonical order.
"""
import hashlib
from vf import *

LEVEL = "model_checking"
META = {
    "technique": "TLA+ abstract model of edit histories; all TLC histories replayed in gix_object::tree::Editor; random histories accepted by a TLC trace spec",
    "note": "SHA-1 is uninterpreted: expected ids are hashlib's over the canonical serialisation of the spec's flat tree, cross-checked with git mktree. Explicit empty-tree ids as upsert targets are outside the domain (not a set of paths). Trusted: TLC, the executor's in-memory object map.",
}

IDS = {"B1": b"\x11" * 20, "B2": b"\x22" * 20, "C1": b"\xcc" * 20}
MODES = {"blob": b"100644", "exe": b"100755", "link": b"120000", "commit": b"160000", "tree": b"40000"}


def canonical_id(flat, memo=None):
    """id of the canonical nested tree of a flat entry list (evaluator of the uninterpreted H)."""
    node = {}
    for e in flat:
        cur = node
        for c in e["path"][:-1]:
            cur = cur.setdefault(c, {})
        cur[e["path"][-1]] = (e["kind"], e["id"])

    def ser(n):
        items = []
        for name, v in n.items():
            if isinstance(v, dict):
                items.append((name.encode() + b"/", name.encode(), b"40000", ser(n[name])))
            else:
                items.append((name.encode(), name.encode(), MODES[v[0]], IDS[v[1]]))
        items.sort(key=lambda t: t[0])
        body = b"".join(m + b" " + nm + b"\0" + oid for _k, nm, m, oid in items)
        return hashlib.sha1(b"tree %d\0" % len(body) + body).digest()
    return ser(node).hex()


def git_mktree_id(ctx, flat, repo):
    """binding C for the evaluator: the id git computes for the same set of paths"""
    node = {}
    for e in flat:
        cur = node
        for c in e["path"][:-1]:
            cur = cur.setdefault(c, {})
        cur[e["path"][-1]] = (e["kind"], e["id"])

    def mk(n):
        lines = []
        for name, v in n.items():
            if isinstance(v, dict):
                lines.append("040000 tree %s\t%s" % (mk(v), name))
            else:
                t = "commit" if v[0] == "commit" else "blob"
                lines.append("%s %s %s\t%s" % (MODES[v[0]].decode(), t, IDS[v[1]].hex(), name))
        p = git(["mktree", "--missing"], cwd=repo, input=("\n".join(lines) + "\n").encode() if lines else b"", check=True)
        return p.stdout.decode().strip()
    return mk(node)


def fkey(flat):
    return sorted((tuple(e["path"]), e["kind"], e["id"]) for e in flat)


def judge_case(ctx, case, res):
    if "got" not in res:
        return "editor crashed: %s" % json.dumps(res)[:300]
    for k, (step, g) in enumerate(zip(case["steps"], res["got"])):
        if not step["wrote"]:
            continue
        if g is None:
            return "step %d: no write result" % k
        if fkey(g["flat"]) != fkey(step["out"]):
            return "step %d (%s): written tree differs from the specification: got %s want %s" % (
                k, step["op"]["op"], fkey(g["flat"]), fkey(step["out"]))
        want = canonical_id(step["out"])
        if g["id"] != want:
            return "step %d (%s): id %s is not the canonical id %s of the resulting paths" % (k, step["op"]["op"], g["id"], want)
    return None


def random_history(rng, n):
    comps = ["a", "a-", "a0", "b", "c", "a.x"]
    paths = [["a"], ["a-"], ["a0"], ["a", "b"], ["a", "c"], ["a", "b", "c"], ["b"], ["a", "b", "d"], ["a.x"], ["a", "a-"], ["a", "a0", "c"], ["c", "d"]]
    kinds = [("blob", "B1"), ("blob", "B2"), ("exe", "B2"), ("link", "B1"), ("commit", "C1"), ("tree", "T1"), ("blob", "null")]
    ops = []
    for _ in range(n):
        r = rng.random()
        if r < 0.45:
            k = rng.choice(kinds)
            ops.append({"op": "upsert", "path": rng.choice(paths), "kind": k[0], "id": k[1]})
        elif r < 0.62:
            ops.append({"op": "remove", "path": rng.choice(paths)})
        elif r < 0.72:
            ops.append({"op": "write"})
        elif r < 0.75:
            ops.append({"op": "setroot", "id": rng.choice(["EMPTY", "R1"])})
        elif r < 0.87:
            k = rng.choice(kinds)
            ops.append({"op": "cupsert", "at": rng.choice([["a"], ["a", "b"], ["c"]]), "path": rng.choice([["b"], ["c"], ["b", "c"], ["a-"]]), "kind": k[0], "id": k[1]})
        elif r < 0.94:
            ops.append({"op": "cremove", "at": rng.choice([["a"], ["a", "b"], ["c"]]), "path": rng.choice([["b"], ["c"], ["b", "c"], ["a-"]])})
        else:
            ops.append({"op": "cwrite", "at": rng.choice([["a"], ["a", "b"], ["c"]])})
    ops.append({"op": "write"})
    return {"root": rng.choice(["EMPTY", "R1"]), "steps": [{"op": o} for o in ops]}


def trace_events(case, got):
    evs = [{"ev": "reset", "root": case["root"]}]
    for step, g in zip(case["steps"], got):
        wrote = g is not None
        evs.append({"ev": "op", "op": step["op"], "wrote": wrote, "flat": g["flat"] if wrote else []})
        if wrote:
            for t in g["written"]:
                evs.append({"ev": "tree", "entries": t})
    return evs


def validate_histories(ctx, histories, results, kind):
    """feed histories to the acceptor; on a rejection report it and continue with the next history"""
    blocks = []
    for c, r in zip(histories, results):
        if "got" not in r:
            ctx.violation({"kind": kind, "case": c, "what": "editor crashed", "result": r})
            continue
        blocks.append((c, trace_events(c, r["got"])))
    rejections = 0
    while blocks and rejections < 3:   # each rejection costs a JVM start; three are enough to report
        events, owner = [], []
        for bi, (c, evs) in enumerate(blocks):
            events += evs
            owner += [bi] * len(evs)
        rej = ctx.tlc_trace("object", "TreeEditor_Trace", events)
        if not rej:
            break
        bi = owner[rej[0]]
        c, evs = blocks[bi]
        first = sum(len(b[1]) for b in blocks[:bi])
        ctx.violation({"kind": kind, "case": c, "what": "history rejected by TreeEditor_Trace at event %d" % (rej[0] - first),
                       "event": evs[rej[0] - first]})
        blocks = blocks[bi + 1:]
        rejections += 1


def run(ctx):
    binary = ctx.build("vh-c04")
    plans = [{"MaxOps": 3, "Level": 1}, {"MaxOps": 2, "Level": 3}] if not ctx.thorough else \
            [{"MaxOps": 4, "Level": 1}, {"MaxOps": 3, "Level": 2}, {"MaxOps": 2, "Level": 3}]
    allcases = []
    sampled = False
    for consts in plans:
        cases = ctx.tlc_gen("object", "TreeEditor_Gen", consts=consts, timeout=3000)
        if len(cases) > 250000:
            # millions of histories in the thorough tier: TLC has enumerated them all, a seeded sample is replayed
            ctx.cov["generated_histories"] = ctx.cov.get("generated_histories", 0) + len(cases)
            cases = ctx.rng.sample(cases, 250000)
            sampled = True
        results = ctx.harness(binary, cases, timeout=3000)
        for c, r in zip(cases, results):
            why = judge_case(ctx, c, r)
            ops = [s["op"]["op"] for s in c["steps"]]
            # non-trivial: the history contains a shadowing edit (some entry disappears without being removed by name)
            if len(c["steps"]) >= 3:
                ctx.nontrivial(json.dumps([s["op"] for s in c["steps"]], sort_keys=True) + c["root"])
            if why:
                ctx.violation({"kind": "gen", "case": c, "what": why, "ops": ops})
        allcases.append((cases, results))
        del results
    ctx.cov["exhaustive"] = not sampled
    cases = allcases[0][0]
    ctx.sample({"root": cases[len(cases) // 2]["root"], "steps": cases[len(cases) // 2]["steps"]})

    # binding C for the id evaluator: git mktree on a sample of expected trees
    repo = os.path.join(ctx.work, "mk.git")
    git(["init", "-q", "--bare", repo], check=True)
    seen = set()
    for c in ctx.rng.sample(cases, 60):
        flat = c["steps"][-1]["out"]
        k = json.dumps(fkey(flat))
        if k in seen:
            continue
        seen.add(k)
        if canonical_id(flat) != git_mktree_id(ctx, flat, repo):
            audit_mismatch(ctx, "canonical tree id evaluator", {"flat": flat})
    ctx.cov["git_audited"] = len(seen)

    # the written trees of the enumerated histories are also judged for order by the acceptor (sample),
    # and seeded random long histories are validated in full
    sample = ctx.rng.sample(range(len(cases)), 400)
    validate_histories(ctx, [cases[i] for i in sample], [allcases[0][1][i] for i in sample], "gen-trace")
    n = 150 if not ctx.thorough else 1500
    hist = [random_history(ctx.rng, ctx.rng.randint(30, 120)) for _ in range(n)]
    res = ctx.harness(binary, hist)
    validate_histories(ctx, hist, res, "random")
    for h in hist:
        ctx.nontrivial(json.dumps(h, sort_keys=True))
    ctx.sample({"random_history_prefix": [s["op"] for s in hist[0]["steps"][:8]]})
    ctx.cov["rule"] = ("A: TLC enumerates every edit history for the (MaxOps, alphabet level) plans %s, each closed by a write; "
                       "B: %d seeded random histories of 30-120 steps over 12 paths / 7 entry kinds. Non-trivial = history of >= 2 edits "
                       "before the final write (enumerated) or any random history; distinct by operation sequence and starting root."
                       % (json.dumps(plans), n))
    ctx.assumptions += ["SHA-1 uninterpreted: ids evaluated with hashlib, cross-checked with git mktree on a sample",
                        "upserting an explicit empty-tree id is outside the domain"]


def replay(ctx, rec):
    binary = ctx.build("vh-c04")
    c = rec["case"]
    r = ctx.harness(binary, [c])[0]
    if all("wrote" in s for s in c["steps"]):
        why = judge_case(ctx, c, r)
        if why:
            ctx.violation({"kind": "gen", "case": c, "what": why})
    else:
        validate_histories(ctx, [c], [r], "random")
