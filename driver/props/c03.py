"""C03 - Tree entry ordering and name lookup match git.

spec/object/TreeOrder.tla: Key(e) = name (+ '/' for a directory), EntryLess = byte order of keys (shown equal to a
literal transcription of git's base_name_compare), SortEntries, Render/Preimage of the tree object, Lookup by
linear scan; laws (strict total order, same as git's comparison, sort is a sorted permutation, binary search by
(name, kind) == linear scan) are invariants of the generator run.
 A: TreeOrder_Gen enumerates every set of <= 4 entries over names that are prefixes of each other continued by
    bytes below and above '/', with every mode assignment; prints sorted order, tree bytes, hash preimage and the
    expected result of looking up every name as file and as directory. Replayed through tree::Entry/EntryRef Ord
    (several input orders), Tree::write_to/size, loose_header, compute_hash, TreeRef::from_bytes, TreeRefIter,
    TreeRef::write_to, TreeRef::bisect_entry and tree::Editor (upserts into an empty tree).
 B: seeded random larger entry sets; the observations are judged by TreeOrder_Trace.
 C: `git mktree --missing -z --batch` builds the same sets; the stored tree bytes and id must be the spec's.
SHA-1 is evaluated by hashlib on the spec's Preimage (A) / on the spec-validated observed header+bytes (B).
"""
from vf import *

LEVEL = "exploration"
META = {
    "technique": "TLA+ transcription of git's tree entry order + tree format + lookup; TLC enumerates entry sets with expected results and checks order laws; real gix-object replays; git mktree audits the spec; random sets judged by a TLC trace module",
    "note": "Names are NUL- and slash-free and distinct within a tree (what git can store). SHA-1 by hashlib.",
}

TYPE_OF = {b"40000": b"tree", b"160000": b"commit"}
SEQ_FIELDS = ("sorted", "sorted_ref", "decoded", "iter_decoded")


def harness_input(c, rng):
    n = len(c["entries"])
    perms = []
    if n > 1:
        perms.append(list(range(n - 1, -1, -1)))
        p = list(range(n))
        rng.shuffle(p)
        perms.append(p)
    return {"entries": c["entries"], "perms": perms,
            "lookups": [{"name": l["name"], "dir": l["dir"]} for l in c["lookups"]]}


def ent_text(es):
    return ["%s %s" % (show_bytes(e["mode"]), show_bytes(e["name"])) for e in es]


def judge_gen(c, r):
    if "got" not in r:
        return ["crash: %s" % json.dumps(r)[:300]]
    g = r["got"]
    bad = []
    for f in SEQ_FIELDS:
        if g[f] != c["sorted"]:
            bad.append("%s: spec order %s, gitoxide %s" % (f, ent_text(c["sorted"]), ent_text(g[f])))
    for k, s in enumerate(g["sorted_perms"]):
        if s != c["sorted"]:
            bad.append("sorted_perms: input order %d sorts to %s, spec %s" % (k, ent_text(s), ent_text(c["sorted"])))
    if g["bytes"] != c["bytes"]:
        bad.append("bytes: tree bytes differ from the spec's Render")
    if g["ref_bytes"] != c["bytes"]:
        bad.append("ref_bytes: TreeRef::write_to differs from the spec's Render")
    if g["size"] != c["size"]:
        bad.append("size: spec %d, gitoxide %d" % (c["size"], g["size"]))
    if g["header"] != c["header"]:
        bad.append("header: spec %r, gitoxide %r" % (show_bytes(c["header"]), show_bytes(g["header"])))
    want = b2l(hashlib.sha1(l2b(c["preimage"])).digest())
    if g["id"] != want:
        bad.append("id: SHA-1(spec preimage) %s, gitoxide %s" % (l2b(want).hex(), l2b(g["id"]).hex()))
    for e, o in zip(c["lookups"], g["lookups"]):
        if (o["found"], o["mode"], o["id"]) != (e["found"], e["mode"], e["id"]) or (o["found"] and o["found_name"] != e["name"]):
            bad.append("lookup: %r as %s: spec found=%s mode=%s, gitoxide found=%s mode=%s" % (
                show_bytes(e["name"]), "dir" if e["dir"] else "file", e["found"], show_bytes(e["mode"]), o["found"], show_bytes(o["mode"])))
    if not g["editor"]["skipped"] and g["editor"]["bytes"] != c["bytes"]:
        bad.append("editor: tree written by tree::Editor differs from the spec's Render")
    return bad


def classes(bad):
    return sorted({b.split(":")[0] for b in bad})


def git_trees(ctx, sets):
    """binding C helper: let git build the trees; returns [(id hex, tree bytes)] aligned with sets."""
    repo = os.path.join(ctx.work, "audit.git")
    if not os.path.exists(repo):
        git(["init", "-q", "--bare", repo], check=True)
    out = []
    chunk = 4000
    for s in range(0, len(sets), chunk):
        inp = bytearray()
        for es in sets[s:s + chunk]:
            for e in es:
                m = l2b(e["mode"])
                inp += m + b" " + TYPE_OF.get(m, b"blob") + b" " + l2b(e["id"]).hex().encode() + b"\t" + l2b(e["name"]) + b"\0"
            inp += b"\0"
        p = git(["-c", "core.fsync=none", "-c", "core.looseCompression=0", "mktree", "--missing", "-z", "--batch"], cwd=repo, input=bytes(inp), check=True, timeout=600)
        ids = p.stdout.split()
        if len(ids) != len(sets[s:s + chunk]):
            raise ToolError("git mktree --batch returned %d ids for %d trees" % (len(ids), len(sets[s:s + chunk])))
        q = git(["cat-file", "--batch"], cwd=repo, input=b"\n".join(ids) + b"\n", check=True, timeout=600)
        data, pos = q.stdout, 0
        for i in ids:
            nl = data.index(b"\n", pos)
            hid, kind, size = data[pos:nl].split()
            if hid != i or kind != b"tree":
                raise ToolError("git cat-file --batch: unexpected header %r" % data[pos:nl])
            body = data[nl + 1:nl + 1 + int(size)]
            pos = nl + 1 + int(size) + 1
            out.append((i.decode(), body))
    return out


def audit(ctx, cases):
    got = git_trees(ctx, [c["entries"] for c in cases])
    for c, (gid, body) in zip(cases, got):
        want_id = hashlib.sha1(l2b(c["preimage"])).hexdigest()
        if body != l2b(c["bytes"]) or gid != want_id:
            audit_mismatch(ctx, "TreeOrder", {"entries": ent_text(c["entries"]), "spec_sorted": ent_text(c["sorted"]),
                                              "git_id": gid, "spec_id": want_id, "git_bytes": b2l(body)})
    ctx.log("audit: git mktree stored exactly the spec's bytes/id for %d entry sets" % len(cases))
    ctx.cov["git_audited"] = ctx.cov.get("git_audited", 0) + len(cases)


MODES = [b"40000", b"100644", b"100755", b"120000", b"160000", b"100664"]
TAILS = [0x2d, 0x2e, 0x30, 0x01, 0xff, 0x20, 0x41, 0x61, 0x7f, 0x2e, 0x30]   # around '/' (0x2f), never '/' or NUL


def random_set(rng):
    n = rng.randint(1, 24)
    names = set()
    pool = [b"a", b"b", b"ab", b"A", b"lib", b"src", b".git", b"\xc3\xa9"]
    while len(names) < n:
        if names and rng.random() < 0.65:
            base = rng.choice(sorted(names))
            k = rng.random()
            if k < 0.7:
                nm = base + bytes([rng.choice(TAILS)])
            elif k < 0.85 and len(base) > 1:
                nm = base[:-1]
            else:
                nm = base + bytes(rng.choice(TAILS) for _ in range(2))
        else:
            nm = rng.choice(pool) if rng.random() < 0.6 else bytes(rng.choice([x for x in range(1, 256) if x != 47]) for _ in range(rng.randint(1, 3)))
        names.add(nm)
    names = sorted(names)
    rng.shuffle(names)
    es = []
    for nm in names:
        m = MODES[0] if rng.random() < 0.45 else rng.choice(MODES)
        es.append({"mode": b2l(m), "name": b2l(nm), "id": [rng.randrange(256) for _ in range(20)]})
    lookups = []
    for nm in names:
        lookups.append({"name": b2l(nm), "dir": False})
        lookups.append({"name": b2l(nm), "dir": True})
    for _ in range(4):
        nm = rng.choice(names) + bytes([rng.choice(TAILS)])
        lookups.append({"name": b2l(nm), "dir": rng.random() < 0.5})
    perms = []
    for _ in range(2):
        p = list(range(len(es)))
        rng.shuffle(p)
        perms.append(p)
    return {"entries": es, "perms": perms, "lookups": lookups}


def dir_prefix_pair(es):
    """input classification only: some directory's name is a proper prefix of another entry's name"""
    for a in es:
        if l2b(a["mode"]) == b"40000":
            for b in es:
                if len(b["name"]) > len(a["name"]) and b["name"][:len(a["name"])] == a["name"]:
                    return True
    return False


def event_of(inp, got):
    ev = {"entries": inp["entries"]}
    ev.update(got)
    ev["sha1"] = b2l(hashlib.sha1(l2b(got["header"]) + l2b(got["bytes"])).digest())
    return ev


def report(ctx, kind, inp, bad, extra=None):
    rec = {"kind": kind, "case": inp, "entries_text": ent_text(inp["entries"]), "mismatch": bad, "classes": classes(bad)}
    if extra:
        rec.update(extra)
    ctx.violation(rec)


def run(ctx):
    binary = ctx.build("vh-c03")
    consts = {"MaxEntries": 4, "ModeClass": 5, "MoreNames": "FALSE"} if ctx.thorough else {"MaxEntries": 4, "ModeClass": 3, "MoreNames": "FALSE"}
    cases = ctx.tlc_gen("object", "TreeOrder_Gen", consts=consts, timeout=3000)
    if ctx.thorough:
        cases += ctx.tlc_gen("object", "TreeOrder_Gen", consts={"MaxEntries": 3, "ModeClass": 6, "MoreNames": "TRUE"}, timeout=3000)
    cases.sort(key=lambda c: json.dumps(c, sort_keys=True))      # TLC workers print in any order
    ctx.cov["exhaustive"] = True
    inputs = [harness_input(c, ctx.rng) for c in cases]
    results = ctx.harness(binary, inputs, timeout=1800)
    ctx.log("executor replayed %d enumerated sets" % len(cases))
    for c, inp, r in zip(cases, inputs, results):
        bad = judge_gen(c, r)
        if bad:
            report(ctx, "gen", inp, bad, {"spec_sorted": ent_text(c["sorted"]), "result": r})
        if c["special"]:
            ctx.nontrivial(json.dumps(c["entries"]))
    k = len(cases) * 2 // 3
    ctx.sample({"entries": ent_text(cases[k]["entries"]), "spec_sorted": ent_text(cases[k]["sorted"]),
                "id": hashlib.sha1(l2b(cases[k]["preimage"])).hexdigest()})
    # binding C: every set in which the directory rule matters, and a seeded sample of the others
    cap = 30000 if ctx.thorough else len(cases)
    special = [c for c in cases if c["special"]]
    others = [c for c in cases if not c["special"]]
    ctx.rng.shuffle(others)
    audit(ctx, (special + others)[:max(cap, len(special))])

    # binding B: random larger sets
    nrand = 6000 if ctx.thorough else 400
    rnd = [random_set(ctx.rng) for _ in range(nrand)]
    res = ctx.harness(binary, rnd, timeout=1800)
    events, owner = [], []
    for i, (inp, r) in enumerate(zip(rnd, res)):
        if "got" not in r:
            report(ctx, "random", inp, ["crash: %s" % json.dumps(r)[:300]], {"result": r})
            continue
        events.append(event_of(inp, r["got"]))
        owner.append(i)
        if dir_prefix_pair(inp["entries"]):
            ctx.nontrivial(json.dumps(inp["entries"]))
    rejected = set()
    chunk = 1500
    for s in range(0, len(events), chunk):
        for bi in ctx.tlc_trace("object", "TreeOrder_Trace", events[s:s + chunk], timeout=3000):
            rejected.add(s + bi)
            report(ctx, "trace", rnd[owner[s + bi]], ["trace: event rejected by TreeOrder_Trace"],
                   {"observed_sorted": ent_text(events[s + bi]["sorted"])})
    # git on the random sets: the observed (spec-accepted) bytes and id must be what git stores
    ok_idx = [i for i in range(len(events)) if i not in rejected]
    got = git_trees(ctx, [events[i]["entries"] for i in ok_idx])
    for i, (gid, body) in zip(ok_idx, got):
        if body != l2b(events[i]["bytes"]) or gid != l2b(events[i]["id"]).hex():
            audit_mismatch(ctx, "TreeOrder(random)", {"entries": ent_text(events[i]["entries"]), "git_id": gid,
                                                      "spec_accepted_id": l2b(events[i]["id"]).hex()})
    ctx.cov["git_audited"] = ctx.cov.get("git_audited", 0) + len(ok_idx)
    ctx.log("audit: git mktree agrees on %d random sets" % len(ok_idx))
    if events:
        ctx.sample({"random_entries": ent_text(events[0]["entries"]), "observed_sorted": ent_text(events[0]["sorted"])})
    ctx.cov["rule"] = ("A: TreeOrder_Gen, all sets of <= %s entries over 8 names (a b ab a- a. a0 a\\x01 a\\xff) x %s modes%s; "
                       "every case looked up 22 (name, kind) pairs. B: %d seeded random sets of 1..24 prefix-chained names. "
                       "Non-trivial = the directory rule changes the relative order of some pair (A: spec's SlashRuleMatters; "
                       "B: a directory's name is a proper prefix of another name); distinct by entry set."
                       % (consts["MaxEntries"], consts["ModeClass"], " + sets of <= 3 over 11 names x 6 modes" if ctx.thorough else "", nrand))
    ctx.assumptions += ["names are non-empty, NUL- and slash-free, distinct within one tree",
                        "SHA-1 evaluated by hashlib; git 2.39.5 mktree is the reference for order and bytes (audited every run)"]


def replay(ctx, rec):
    binary = ctx.build("vh-c03")
    inp = rec["case"]
    r = ctx.harness(binary, [inp])[0]
    if "got" not in r:
        ctx.violation(dict(rec, result=r))
        return
    ev = event_of(inp, r["got"])
    if ctx.tlc_trace("object", "TreeOrder_Trace", [ev]):
        ctx.violation(dict(rec, observed_sorted=ent_text(ev["sorted"])))
