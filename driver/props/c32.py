"""C32 - Refspec matching agrees with git; matching never panics.

spec/proto/Refspec.tla transcribes git's parse_refspec (fetch) and the fetch mapping
(get_fetch_map / match_name_with_pattern / refname_match rules / get_local_ref / negative refspecs /
duplicate + conflict handling / funny destinations).
 A1: Refspec_Gen enumerates refspec lists (<= MaxSpecs tokens) x advertised ref sets (<= MaxRefs) and
     prints the specification's mappings; replayed through gix_refspec::parse,
     MatchGroup::from_fetch_specs(..).match_remotes(..) and Outcome::validated().
 A2: RefspecParse_Gen enumerates refspec strings (<= MaxToks tokens) with git's verdict and the
     parsed fields; replayed through gix_refspec::parse.
 B : seeded random refspec lists / ref sets; what gitoxide answered is judged by TLC (Refspec_Trace).
 C : the real `git fetch` into scratch repositories audits the specification: on a sample of the
     A1 cases (compared with the printed expectation), on A2 strings ("invalid refspec"), and on the
     random cases (git's observed mapping is judged by Refspec_Trace as `who = "git"` events).
Object ids are uninterpreted in the spec: one commit per index is created with git and passed to TLC
through $PARAMS.
"""
import concurrent.futures
import re
import threading
from vf import *

LEVEL = "exploration"
NOIDS = 20

SHAPES = ("overlap", "ambiguous", "headsdst", "funnyhead", "funnyname", "funnyoutside")


def txt(l):
    return show_bytes(l)


# ----------------------------------------------------------------------------- git world (binding C)
class World:
    """A shared object store with NOIDS commits and one bare 'remote' per set of advertised refs."""

    def __init__(self, ctx):
        self.ctx = ctx
        self.root = os.path.join(ctx.work, "world")
        os.makedirs(self.root, exist_ok=True)
        self.store = os.path.join(self.root, "store.git")
        git(["init", "-q", "--bare", self.store], check=True)
        tree = git(["hash-object", "-w", "-t", "tree", "--stdin"], cwd=self.store, input=b"", check=True).stdout.strip().decode()
        self.oids = []
        for i in range(1, NOIDS + 1):
            c = git(["commit-tree", "-m", "c%d" % i, tree], cwd=self.store, check=True).stdout.strip().decode()
            self.oids.append(c)
        if len(set(self.oids)) != NOIDS:
            raise ToolError("commit ids not distinct")
        self.params = os.path.join(self.root, "params.json")
        with open(self.params, "w") as f:
            f.write(json.dumps({"oids": [b2l(o.encode()) for o in self.oids]}) + "\n")
        self.remotes = {}
        self.lock = threading.Lock()
        self.n = 0
        self.tls = threading.local()

    def _bare(self, path):
        git(["init", "-q", "--bare", path], check=True)
        with open(os.path.join(path, "objects", "info", "alternates"), "w") as f:
            f.write(os.path.join(self.store, "objects") + "\n")

    def remote(self, refs):
        """refs: [(name str, oid str)] -> path of a bare repository advertising exactly these"""
        key = tuple(refs)
        with self.lock:
            ent = self.remotes.get(key)
            if ent is None:
                ent = self.remotes[key] = {"path": os.path.join(self.root, "r%d.git" % len(self.remotes)), "lock": threading.Lock(), "ready": False}
        with ent["lock"]:
            if ent["ready"]:
                return ent["path"]
            path = ent["path"]
            self._bare(path)
            cmds = b""
            for name, oid in refs:
                if name == "HEAD":
                    git(["update-ref", "--no-deref", "HEAD", oid], cwd=path, check=True)
                else:
                    cmds += b"create %s %s\n" % (name.encode(), oid.encode())
            if cmds:
                git(["update-ref", "--stdin"], cwd=path, input=cmds, check=True)
            with open(os.path.join(path, "config"), "a") as f:
                f.write("[uploadpack]\n\tallowAnySHA1InWant = true\n")
            # read the world back through git plumbing and compare with the abstract one
            out = git(["ls-remote", path], check=True).stdout.decode().splitlines()
            seen = sorted(tuple(reversed(l.split("\t"))) for l in out)
            if seen != sorted(refs):
                raise ToolError("materialised remote differs from abstract world: %s vs %s" % (seen, sorted(refs)))
            ent["ready"] = True
            return path

    def fetch(self, specs, refs):
        """run the real git fetch; returns the observation as a 'git' event (or None if not observable)"""
        names = [(txt(r["name"]), txt(r["oid"])) for r in refs]
        remote = self.remote(names)
        local = getattr(self.tls, "local", None)
        if local is None:
            with self.lock:
                self.n += 1
                local = self.tls.local = os.path.join(self.root, "l%d.git" % self.n)
            self._bare(local)
        if any(fs for _d, _s, fs in os.walk(os.path.join(local, "refs"))) or any(os.path.exists(os.path.join(local, f)) for f in ("FETCH_HEAD", "packed-refs")):
            raise ToolError("scratch repository not empty before fetch")
        args = [l2b(s).decode() for s in specs]
        p = git(["-c", "gc.auto=0", "-c", "maintenance.auto=false", "fetch", "--no-tags", "--refmap=", remote] + args, cwd=local)
        err = p.stderr.decode("utf-8", "replace")
        ev = {"who": "git", "specs": specs, "refs": refs, "invalid": False, "missing": False, "conflict": False,
              "funny": "Ignoring funny ref" in err, "pairs": []}
        try:
            if p.returncode != 0:
                if "invalid refspec" in err.lower():
                    ev["invalid"] = True
                elif "couldn't find remote ref" in err:
                    ev["missing"] = True
                elif "Cannot fetch both" in err:
                    ev["conflict"] = True
                elif "cannot lock ref" in err or "could not be updated" in err or "refusing to fetch" in err:
                    return None  # local directory/file conflict between destinations: not the mapping's business
                else:
                    raise ToolError("unexpected git fetch failure for %s on %s: %s" % (args, names, err[-400:]))
                return ev
            by_oid = {}
            for n, o in names:
                by_oid.setdefault(o, []).append(n)
            fh_count = {}
            fhp = os.path.join(local, "FETCH_HEAD")
            if os.path.exists(fhp):
                for line in open(fhp, "rb").read().decode().splitlines():
                    m = re.match(r"^([0-9a-f]{40})\t(not-for-merge)?\t(.*)$", line)
                    if not m:
                        raise ToolError("FETCH_HEAD line: %r" % line)
                    d = m.group(3)
                    mm = re.match(r"^(branch|tag|remote-tracking branch) '(.*)' of ", d)
                    if mm:
                        src = {"branch": "refs/heads/", "tag": "refs/tags/", "remote-tracking branch": "refs/remotes/"}[mm.group(1)] + mm.group(2)
                    else:
                        mm = re.match(r"^'(.*)' of ", d)
                        src = mm.group(1) if mm else "HEAD"
                    fh_count[src] = fh_count.get(src, 0) + 1
            dst_count = {}
            out = git(["for-each-ref", "--format=%(objectname) %(refname)"], cwd=local, check=True).stdout.decode().splitlines()
            for l in out:
                o, dst = l.split(" ", 1)
                cands = by_oid.get(o, [])
                if len(cands) == 1:
                    src = cands[0]
                elif not cands and o in fh_count:
                    src = o  # fetched by object id
                else:
                    raise ToolError("cannot attribute %s (%s) to a source among %s" % (dst, o, names))
                ev["pairs"].append({"src": b2l(src.encode()), "dst": b2l(dst.encode())})
                dst_count[src] = dst_count.get(src, 0) + 1
            for src, n in fh_count.items():
                if n > dst_count.get(src, 0):
                    ev["pairs"].append({"src": b2l(src.encode()), "dst": []})
            return ev
        finally:
            # empty the scratch repository for the next fetch of this thread (checked before it is used again)
            shutil.rmtree(os.path.join(local, "refs"), ignore_errors=True)
            os.makedirs(os.path.join(local, "refs", "heads"))
            for f in ("FETCH_HEAD", "packed-refs"):
                if os.path.exists(os.path.join(local, f)):
                    os.remove(os.path.join(local, f))


# ----------------------------------------------------------------------------- judging executor output
def quads(ms):
    return sorted((tuple(m["src"]), tuple(m["dst"]), bool(m["oid"]), m["spec"]) for m in ms)


def gix_quads(ms):
    # the executor numbers specs from 0, the specification from 1
    return sorted((tuple(m["src"]), tuple(m["dst"]) if m["has_dst"] else (), bool(m["src_is_oid"]), m["spec"] + 1) for m in ms)


def show_q(qs):
    return ["%s -> %s (spec %d)" % (txt(list(q[0])), txt(list(q[1])) if q[1] else "-", q[3]) for q in qs]


def judge_match(c, r):
    """c: a Refspec_Gen case (expectations printed by TLC); r: executor result. -> (stage, [mismatch])"""
    if "got" not in r:
        return "panic", ["executor crashed: %s" % json.dumps(r)[:300]]
    g = r["got"]
    if not all(p["ok"] for p in g["parse"]):
        return "parse", ["gix_refspec::parse refused a refspec valid for git: %s" % [p["err"] for p in g["parse"]]]
    if "match_panic" in g:
        return "panic", ["match_remotes panicked: " + g["match_panic"]]
    want, got = quads(c["matched"]), gix_quads(g["match"]["mappings"])
    if want != got:
        return "match", ["match_remotes mappings %s, git's %s" % (show_q(got), show_q(want))]
    if "validate_panic" in g:
        return "panic", ["validated panicked: " + g["validate_panic"]]
    v = g["validated"]
    if v["ok"] == c["conflict"]:
        return "validated", ["validated ok=%s, git reports conflict=%s" % (v["ok"], c["conflict"])]
    if v["ok"]:
        want, got = quads(c["final"]), gix_quads(v["mappings"])
        if want != got:
            return "validated", ["validated mappings %s, git's final map %s" % (show_q(got), show_q(want))]
    return None, []


def judge_parse(c, r):
    if "got" not in r:
        return ["executor crashed: %s" % json.dumps(r)[:300]]
    p = r["got"]["parse"][0]
    if not c["gitok"]:
        return []   # the property quantifies over refspecs valid for git; see run() for the count of these
    if p["ok"] != c["gixok"]:
        return ["gix_refspec::parse accepts=%s, specification=%s (git accepts=%s, refused by design=%s, err=%s)"
                % (p["ok"], c["gixok"], c["gitok"], c["bydesign"], p["err"])]
    bad = []
    if p["ok"]:
        kind = "exclude" if c["mode"] == "negative" else ("update" if c["dst"] else "only")
        if p["kind"] != kind:
            bad.append("instruction %s, expected %s" % (p["kind"], kind))
        if kind == "update" and p["force"] != (c["mode"] == "force"):
            bad.append("force=%s, expected %s" % (p["force"], c["mode"] == "force"))
        if p["src"] != c["src"]:
            bad.append("source %r, expected %r" % (txt(p["src"]), txt(c["src"])))
        if p["dst"] != c["dst"]:
            bad.append("destination %r, expected %r" % (txt(p["dst"]), txt(c["dst"])))
    return bad


def gix_event(specs, refs, r):
    g = r["got"]
    ev = {"who": "gix", "specs": specs, "refs": refs, "parse": [p["ok"] for p in g["parse"]], "ran": False,
          "matched": [], "final": [], "vok": False}
    if isinstance(g["match"], dict) and isinstance(g["validated"], dict):
        conv = lambda ms: [{"src": m["src"], "dst": m["dst"] if m["has_dst"] else [], "oid": m["src_is_oid"], "spec": m["spec"] + 1} for m in ms]
        ev["ran"] = True
        ev["matched"] = conv(g["match"]["mappings"])
        ev["vok"] = g["validated"]["ok"]
        ev["final"] = conv(g["validated"]["mappings"])
    return ev


def crashed(r):
    return "got" not in r or "match_panic" in r["got"] or "validate_panic" in r["got"]


def report(ctx, vios):
    """smallest representative of every (stage, classes) first, so that each gets a replay file"""
    vios.sort(key=lambda v: (len(json.dumps(v["case"].get("specs", v["case"].get("input"))))
                             + len(json.dumps(v["case"].get("refs", [])))))
    seen, first, rest = set(), [], []
    for v in vios:
        k = (v["stage"], tuple(v["classes"]))
        (rest if k in seen else first).append(v)
        seen.add(k)
    prio = {"panic": 0, "match": 1, "validated": 2, "parse": 3, "trace": 4}
    first.sort(key=lambda v: (len(v["classes"]), prio.get(v["stage"], 9)))
    for v in first + rest:
        ctx.violation(v)
    if vios:
        summary = {}
        for v in vios:
            k = "%s %s" % (v["stage"], "+".join(v["classes"]) or "-")
            summary[k] = summary.get(k, 0) + 1
        ctx.log("mismatches by (stage, input shapes): %s" % json.dumps(summary, sort_keys=True))


# ----------------------------------------------------------------------------- random inputs (binding B)
POOL = ["HEAD", "refs/heads/a", "refs/heads/aa", "refs/heads/aba", "refs/heads/ab", "refs/heads/b", "refs/heads/main",
        "refs/heads/x/a", "refs/tags/a", "refs/tags/v1", "refs/a", "refs/remotes/a/HEAD", "refs/remotes/p/a"]
PRE = ["refs/heads/", "refs/tags/", "refs/", "refs/remotes/o/", "refs/n/", "heads/", "tags/", "remotes/", "", "q/"]
STEM = ["a", "aa", "aba", "ab", "b", "main", "x/a", "HEAD", "v1", "a/HEAD"]
FIX = ["", "a", "b", "ab", "/a", "a/", "aa"]


def rand_spec(rng, oids):
    k = rng.random()
    mode = rng.choice(["", "", "", "+"])
    if k < 0.30:   # pattern
        s = rng.choice(PRE[:5]) + rng.choice(FIX) + "*" + rng.choice(FIX)
        d = rng.choice(PRE) + rng.choice(FIX) + "*" + rng.choice(FIX)
        return mode + s + ":" + d
    if k < 0.45:   # negative
        n = rng.choice(POOL) if rng.random() < 0.85 else rng.choice(["a", "refs/heads/*", "heads/a"])
        return "^" + n
    if k < 0.55:   # object id
        o = oids[rng.randrange(NOIDS - 4, NOIDS)]
        return mode + o + (":" + rng.choice(PRE) + rng.choice(STEM[:5]) if rng.random() < 0.6 else "")
    if k < 0.60:
        return rng.choice(["", ":", "@", "@:h", ":refs/heads/h", "HEAD:", "+", "refs/heads/*", "a:refs/heads/*", "^a:b", "a:b:c", "refs/heads/a**:refs/x/a**"])
    src = (rng.choice(PRE) if rng.random() < 0.6 else "") + rng.choice(STEM)
    if rng.random() < 0.55:
        return mode + src + ":" + rng.choice(PRE) + rng.choice(STEM[:6])
    return mode + src


def rand_case(rng, oids):
    nspec = rng.choice([1, 1, 2, 2, 2, 3, 4])
    names = [n for n in POOL if rng.random() < rng.choice([0.2, 0.4, 0.7])]
    specs = [b2l(rand_spec(rng, oids).encode()) for _ in range(nspec)]
    refs = [{"name": b2l(n.encode()), "oid": b2l(oids[POOL.index(n)].encode())} for n in names]
    return {"specs": specs, "refs": refs}


def to_exec(c):
    return {"specs": c["specs"], "refs": [dict(r, peeled=[]) for r in c["refs"]]}


# ----------------------------------------------------------------------------- run
def run(ctx):
    binary = ctx.build("vh-c32")
    world = World(ctx)
    os.environ["PARAMS"] = world.params      # read by Refspec_Gen (vf.tlc_gen has no env parameter)
    vios = []

    # ---- A1: matching
    consts = {"MaxSpecs": 2, "MaxRefs": 3, "Wide": "TRUE" if ctx.thorough else "FALSE"}
    cases = ctx.tlc_gen("proto", "Refspec_Gen", consts=consts, timeout=3000)
    ctx.cov["exhaustive"] = True
    if ctx.thorough:
        # self-test: the specification with the overlap defect re-introduced breaks its own design-level law
        ctx.tlc_mc("proto", "Refspec_Gen", consts={"Bug_GlobOverlap": "TRUE", "MaxSpecs": 1, "MaxRefs": 2},
                   expect_violation="GlobMapsKeepMiddle", coverage=False)
    results = ctx.harness(binary, [to_exec(c) for c in cases], timeout=1200)
    for c, r in zip(cases, results):
        classes = sorted(k for k in SHAPES if c["shapes"][k])
        if c["matched"] and (classes or c["conflict"] or len(c["matched"]) != len(c["final"]) or any(s[:1] == [94] for s in c["specs"])):
            ctx.nontrivial(json.dumps([c["specs"], [r_["name"] for r_ in c["refs"]]]))
        stage, bad = judge_match(c, r)
        if bad:
            vios.append({"kind": "gen", "stage": stage, "classes": classes, "shape": c["shapes"], "case": c, "mismatch": bad,
                         "specs_text": [txt(s) for s in c["specs"]], "refs_text": [txt(x["name"]) for x in c["refs"]],
                         "result": r})
    mid = cases[len(cases) // 2]
    ctx.sample({"specs": [txt(s) for s in mid["specs"]], "refs": [txt(x["name"]) for x in mid["refs"]],
                "final": show_q(quads(mid["final"])), "conflict": mid["conflict"]})

    # ---- C on a sample of the A1 cases: real git fetch vs the printed expectation
    ctx.log("executor replayed %d enumerated cases" % len(cases))
    n_audit = 120 if not ctx.thorough else 1500
    stride = max(1, len(cases) // n_audit)
    sample = [c for i, c in enumerate(cases) if i % stride == 0]
    per_shape = {}
    for c in cases:
        for k in SHAPES:
            if c["shapes"][k] and per_shape.get(k, 0) < (8 if not ctx.thorough else 100):
                per_shape[k] = per_shape.get(k, 0) + 1
                sample.append(c)
    audited = skipped = 0
    with concurrent.futures.ThreadPoolExecutor(12) as ex:
        for c, ev in zip(sample, ex.map(lambda c: world.fetch(c["specs"], c["refs"]), sample)):
            if ev is None:
                skipped += 1
                continue
            audited += 1
            want_pairs = sorted((tuple(m["src"]), tuple(m["dst"])) for m in c["final"])
            got_pairs = sorted((tuple(m["src"]), tuple(m["dst"])) for m in ev["pairs"])
            ok = not ev["invalid"] and ev["missing"] == c["missing"]
            if ok and not c["missing"]:
                ok = ev["conflict"] == c["conflict"] and (c["conflict"] or want_pairs == got_pairs)
                # git's message "Ignoring funny ref": a destination HEAD is dropped silently (local HEAD is a symref)
                fin = {(tuple(m["src"]), tuple(m["dst"])) for m in c["final"]}
                dropped = [m for m in c["matched"] if (tuple(m["src"]), tuple(m["dst"])) not in fin and m["dst"] != b2l(b"HEAD")]
                # (git prints it while expanding each spec, i.e. also for sources a negative spec removes later)
                ok = ok and (ev["funny"] or not dropped) and bool(dropped) == (c["shapes"]["funnyname"] or c["shapes"]["funnyoutside"])
            if not ok:
                audit_mismatch(ctx, "Refspec (git fetch)", {"specs": [txt(s) for s in c["specs"]], "refs": [txt(x["name"]) for x in c["refs"]],
                                                            "git": {k: ev[k] for k in ("invalid", "missing", "conflict", "funny")},
                                                            "git_pairs": [(txt(list(a)), txt(list(b))) for a, b in got_pairs],
                                                            "spec_pairs": [(txt(list(a)), txt(list(b))) for a, b in want_pairs],
                                                            "spec": {"missing": c["missing"], "conflict": c["conflict"], "shapes": c["shapes"]}})
    ctx.log("audit: git fetch agreed with the specification on %d enumerated cases (%d not observable)" % (audited, skipped))
    ctx.cov["git_audited_match"] = audited

    # ---- A2: parsing
    pconsts = {"MaxToks": 4, "Wide": "TRUE" if ctx.thorough else "FALSE"}
    pcases = ctx.tlc_gen("proto", "RefspecParse_Gen", consts=pconsts)
    pres = ctx.harness(binary, [{"specs": [c["input"]], "refs": []} for c in pcases])
    lenient = 0
    for c, r in zip(pcases, pres):
        if not c["gitok"] and "got" in r and r["got"]["parse"][0]["ok"]:
            lenient += 1
        if not c["gitok"] or c["bydesign"] or c["mode"] != "normal" or c["dst"]:
            ctx.nontrivial(bytes(c["input"]))
        bad = judge_parse(c, r)
        if bad:
            vios.append({"kind": "parse", "stage": "parse", "classes": ["bydesign"] if c["bydesign"] else [], "case": c, "mismatch": bad,
                         "input_text": txt(c["input"]), "result": r})
    # C: "invalid refspec" from git fetch
    small = [c for c in pcases if len(c["input"]) <= 2]
    rest = [c for c in pcases if len(c["input"]) > 3]
    ctx.cov["gix_accepts_strings_git_refuses"] = lenient
    if lenient:
        ctx.log("note: gix_refspec::parse accepted %d strings git refuses (not judged: the property is about valid refspecs)" % lenient)
    n_p = 400 if not ctx.thorough else 5000
    psample = small + rest[:: max(1, len(rest) // max(1, n_p - len(small)))]

    def parse_audit(c):
        s = l2b(c["input"]).decode()
        # a configured fetch refspec is parsed by the same parse_refspec(.., fetch = 1); no transport involved
        p = git(["-c", "remote.x.url=/nonexistent", "-c", "remote.x.fetch=" + s, "remote", "get-url", "x"], cwd=world.store)
        err = p.stderr.decode("utf-8", "replace")
        if "invalid refspec" not in err and "No such remote" not in err:
            raise ToolError("unexpected answer of git for refspec %r: %s" % (s, err[-300:]))
        return "invalid refspec" in err
    with concurrent.futures.ThreadPoolExecutor(12) as ex:
        for c, inv in zip(psample, ex.map(parse_audit, psample)):
            if inv == c["gitok"]:
                audit_mismatch(ctx, "Refspec.Parse (git fetch)", {"input": txt(c["input"]), "git_invalid": inv, "spec_ok": c["gitok"]})
    ctx.log("audit: git fetch agreed with Parse on %d refspec strings" % len(psample))
    ctx.cov["git_audited_parse"] = len(psample)

    # ---- B: random lists, judged by TLC; git's behaviour on a part of them judged by the same module
    n = 1500 if not ctx.thorough else 12000
    n_git = 100 if not ctx.thorough else 1000
    rnd = [rand_case(ctx.rng, world.oids) for _ in range(n)]
    rres = ctx.harness(binary, [to_exec(c) for c in rnd], timeout=1200)
    events, owner, crashes = [], [], []
    for c, r in zip(rnd, rres):
        if crashed(r):
            what = r["got"].get("match_panic") or r["got"].get("validate_panic") if "got" in r else json.dumps(r)[:300]
            crashes.append({"kind": "random", "stage": "panic", "classes": [], "case": c, "mismatch": ["matching panicked: %s" % what],
                            "specs_text": [txt(s) for s in c["specs"]], "refs_text": [txt(x["name"]) for x in c["refs"]], "result": r})
            continue
        events.append(gix_event(c["specs"], c["refs"], r))
        owner.append(c)
        if events[-1]["matched"]:
            ctx.nontrivial(json.dumps([c["specs"], [x["name"] for x in c["refs"]]]))
    gsub = [c for c in rnd[:n_git] if all(b"\n" not in l2b(s) for s in c["specs"])]
    n_gix = len(events)
    with concurrent.futures.ThreadPoolExecutor(12) as ex:
        for c, ev in zip(gsub, ex.map(lambda c: world.fetch(c["specs"], c["refs"]), gsub)):
            if ev is not None:
                ev.pop("funny")
                events.append(ev)
                owner.append(c)
    ctx.log("executor replayed %d random cases, git fetched %d of them" % (len(rnd), len(events) - n_gix))
    rejected = ctx.tlc_trace("proto", "Refspec_Trace", events)
    gix_rej = [bi for bi in rejected if bi < n_gix]
    labels = {}
    if gix_rej or crashes:
        # label the rejected / crashing inputs with the specification's shape predicates (TLC decides, one probe event per shape)
        inputs = [events[bi] for bi in gix_rej] + [v["case"] for v in crashes]
        probes = [{"who": "probe", "specs": x["specs"], "refs": x["refs"], "shape": k} for x in inputs for k in SHAPES]
        for pi in ctx.tlc_trace("proto", "Refspec_Trace", probes):
            labels.setdefault(pi // len(SHAPES), []).append(SHAPES[pi % len(SHAPES)])
        for j, v in enumerate(crashes):
            v["classes"] = sorted(labels.get(len(gix_rej) + j, []))
            v["shape"] = {k: k in v["classes"] for k in SHAPES}
        labels = {bi: labels.get(j, []) for j, bi in enumerate(gix_rej)}
    vios += crashes
    for bi in rejected:
        ev, c = events[bi], owner[bi]
        if bi >= n_gix:
            audit_mismatch(ctx, "Refspec_Trace (git event)", {"specs": [txt(s) for s in c["specs"]], "refs": [txt(x["name"]) for x in c["refs"]],
                                                               "git": {k: ev[k] for k in ("invalid", "missing", "conflict")},
                                                               "pairs": [(txt(p["src"]), txt(p["dst"])) for p in ev["pairs"]]})
        vios.append({"kind": "random", "stage": "trace", "classes": sorted(labels.get(bi, [])), "shape": {k: k in labels.get(bi, []) for k in SHAPES},
                     "case": c, "mismatch": ["observation rejected by Refspec_Trace"],
                     "specs_text": [txt(s) for s in c["specs"]], "refs_text": [txt(x["name"]) for x in c["refs"]], "event": ev})
    ctx.cov["git_audited_random"] = len(events) - n_gix
    report(ctx, vios)
    ctx.cov["rule"] = ("A1: all lists of <= %s refspecs over the %s token alphabet of Refspec_Gen x all sets of <= %s advertised refs "
                       "(exhaustive); A2: all refspec strings of <= %s tokens of RefspecParse_Gen; B: %d seeded random lists. Non-trivial = "
                       "(A1/B) at least one mapping results and a special rule fires (overlapping glob, ambiguous abbreviation, abbreviated "
                       "destination, funny destination, conflict, negative spec), (A2) the string is invalid, restricted or not a plain "
                       "positive spec; distinct by input." % (consts["MaxSpecs"], "wide" if ctx.thorough else "quick", consts["MaxRefs"],
                                                             pconsts["MaxToks"], n))
    ctx.assumptions += ["git 2.39.5 `git fetch` into a fresh bare repository is the reference (audited on every run)",
                        "negative refspecs that are globs or abbreviated names are refused by gix-refspec by design; lists containing them are not judged for matching",
                        "mappings are compared as sets of (source, destination, first producing spec); the force flag is only compared at parse level",
                        "a non-pattern source without a matching remote ref makes git die; the specification lets that spec contribute no mapping"]


def replay(ctx, rec):
    binary = ctx.build("vh-c32")
    c = rec["case"]
    if rec.get("kind") == "parse":
        r = ctx.harness(binary, [{"specs": [c["input"]], "refs": []}])[0]
        bad = judge_parse(c, r)
        if bad:
            ctx.violation(dict(rec, mismatch=bad, result=r))
        return
    r = ctx.harness(binary, [to_exec(c)])[0]
    if rec.get("kind") == "gen":
        stage, bad = judge_match(c, r)
        if bad:
            ctx.violation(dict(rec, stage=stage, mismatch=bad, result=r))
        return
    if crashed(r):
        ctx.violation(dict(rec, result=r))
        return
    ev = gix_event(c["specs"], c["refs"], r)
    if ctx.tlc_trace("proto", "Refspec_Trace", [ev]):
        ctx.violation(dict(rec, event=ev))
