"""C21 - Reflogs read back forwards and backwards identically.

spec/ref/Reflog.tla holds (1) the reflog line grammar (FormatLine / ParseLine, law LineRoundTrip), (2) the
forward reading of a file (git's: one entry per newline-terminated line) and (3) the sliding-window reverse
reader of gix_ref::file::log::iter::Reverse as a state machine (Load / Yield / YieldFirst / Refill / TooSmall /
Deplete over buf, last_nl_pos, last_read_pos), with the judged domain `InDomain` of DESIGN.md.
 MC: Reflog_Gen model-checks the reader on every file of <= MaxLines lines (content lengths 0..MaxLen, with and
     without final newline) x every buffer size 1..MaxB: index safety of every step, termination (liveness) and,
     inside the domain, output = lines reversed without "buffer too small". Self-test: with the too generous
     domain claim (Wide) TLC must refute InvCorrect.
 A:  every one of those (file, B) pairs is replayed through log::iter::reverse(Cursor, buf) and forward; inside the
     domain the real reader must yield exactly the lines TLC printed. ReflogLine_Gen enumerates entries over field
     alphabets and prints the line the grammar demands; Line::write_to / LineRef::from_bytes must agree.
 B:  seeded random reflogs of 0..50 entries appended by gitoxide transactions (and by git), read through
     Store::reflog_iter / reflog_iter_rev with buffer sizes from the longest line to beyond the file size and
     through the reference's log platform; Reflog_Trace judges: file = what the grammar writes, forward = what
     the grammar reads, reverse = forward reversed (inside the domain).
 C:  git-written logs must be what the grammar writes (audit of the spec), `git log -g` must read gitoxide-written
     logs as the appended entries.
"""
import os
import shutil
from vf import *

LEVEL = "model_checking"
META = {
    "technique": "TLA+ state machine of the sliding-window reverse reader model-checked by TLC (safety, termination, output inside the judged domain); every model-checked (file, buffer) pair replayed in gix-ref; random real reflogs judged by a TLC trace spec; spec audited against git",
    "note": "Exhaustive for files of <= MaxLines lines with content lengths 0..MaxLen and all buffer sizes 1..MaxB (constants recorded in the evidence); real-size reflogs are sampled. Judged domain: every line newline-terminated and buffer >= longest line including its newline (one more byte when the last line lacks the newline). Trusted: TLC, the transcription of Reverse::next into Reflog.tla (its outputs are compared with the real reader on every enumerated pair, also outside the domain, and reported as a statistic).",
}


def raw_items(items):
    """abstract files: every line is unparsable, the executor reports the raw bytes the parser was given"""
    out = []
    for it in items:
        if "bad" in it:
            out.append(it["bad"])
        elif "io" in it:
            out.append({"io": it["io"]})
        else:
            out.append({"parsed": it["ok"]})
    return out


def judge_abs(ctx, c, r, count=None):
    if "got" not in r:
        ctx.violation({"kind": "crash", "case": c, "classes": ["crash"], "result": r, "what": "reader panicked/hung"})
        return
    g = r["got"]
    fwd, rev = raw_items(g["fwd"]), raw_items(g["rev"])
    if fwd != c["lines"]:
        ctx.violation({"kind": "abs-fwd", "case": c, "classes": ["forward"], "got": fwd,
                       "what": "forward iterator does not yield the lines of the file"})
    model = c["model_out"] + ([{"io": "buffer too small for line size"}] if c["model_status"] == "toosmall" else [])
    if count is not None:
        count["all"] += 1
        count["same"] += 1 if rev == model else 0
    if c["indomain"]:
        if g["err"] or rev != c["expect"]:
            ctx.violation({"kind": "abs-rev", "case": c, "classes": ["reverse"], "got": rev, "file_text": show_bytes(c["file"]),
                           "what": "inside the domain (B=%d) the reverse reader must yield the lines in reverse order" % c["B"]})
        if c["B"] < len(c["file"]):
            ctx.nontrivial(("abs", bytes(c["file"]), c["B"]))


def obs_of(entry, offset):
    return {"bad": False, "old": entry["old"], "new": entry["new"], "name": entry["name"], "email": entry["email"],
            "secs": entry["secs"], "sign": entry["tz"][0], "offset": offset, "msg": entry["msg"]}


def judge_line(ctx, c, r):
    if "got" not in r:
        ctx.violation({"kind": "crash", "case": c, "classes": ["crash"], "result": r, "what": "line writer/parser panicked"})
        return
    g = r["got"]
    want = obs_of(c["entry"], c["offset"])
    bad = []
    if g.get("written") != c["line_tab"]:
        bad.append("Line::write_to wrote %r, grammar: %r" % (show_bytes(g.get("written") or []), show_bytes(c["line_tab"])))
    for k in ("parsed", "parsed_nl", "owned"):
        if g.get(k) != want:
            bad.append("%s differs from the entry written" % k)
    if bad:
        ctx.violation({"kind": "line", "case": c, "classes": ["line"] + msg_classes([c["entry"]["msg"]]), "mismatch": bad, "got": g})
    if c["entry"]["msg"]:
        ctx.nontrivial(("line", bytes(c["line_tab"])))


# ------------------------------------------------------------------ real stores (binding B)
NAMES = [b"A", b"A B", b"Zo\xc3\xab Q", b"x-y_z"]
EMAILS = [b"a@x", b"first.last@example.com", b"@"]
TZS = [b"+0000", b"+0130", b"-1200", b"+0545"]
WORDS = [b"commit", b"commit (initial):", b"pull --ff-only:", b"Fast-forward", b"rebase (pick):", b"x", b"\xc3\xa9t\xc3\xa9", b"a < b",
         b"checkout: moving from a to b", b"m" * 37, b"reset: moving to HEAD~1", b"a\tb", b"\xe2\x86\x92"]
# message shapes kept in files of their own, so that a finding about one shape cannot hide behind another
FEATURE_WORDS = {"gt": [b"->", b"<>", b"a > b", b">"], "nonutf8": [b"\xff", b"caf\xe9", b"\xc3(", b"\x80\x81"]}
FEATURES = [None, "cr", "gt", "nonutf8"]


def template(ctx):
    """a repository with a handful of commits whose ids serve as reflog values"""
    d = os.path.join(ctx.work, "tmpl")
    if os.path.exists(d):
        return d, ctx._c21_oids
    git(["init", "-q", d], check=True)
    tree = git(["-c", "core.fsync=none", "mktree"], cwd=d, input=b"", check=True).stdout.strip().decode()
    oids, parent = [], []
    for i in range(7):
        p = git(["-c", "core.fsync=none", "commit-tree", tree, "-m", "c%d" % i] + parent, cwd=d, input=b"", check=True)
        oids.append(p.stdout.strip().decode())
        parent = ["-p", oids[-1]]
    ctx._c21_oids = oids
    return d, oids


def random_message(rng, normal, feat):
    k = rng.choice([0, 0, 1, 1, 2, 3, 5, 9])
    pool = WORDS + FEATURE_WORDS.get(feat, []) * 3
    words = [rng.choice(pool) for _ in range(k)]
    if normal:  # git's own normal form: single blanks, no control characters, trimmed
        words = [w for w in words if b"\t" not in w]
        return b" ".join(words)
    msg = b" ".join(words)
    r = rng.random()
    if r < 0.1:
        msg = b" " + msg
    elif r < 0.2:
        msg += b"  "
    elif r < 0.3:
        lo, hi = (128, 256) if feat == "nonutf8" else (32, 127)
        msg += bytes(rng.randrange(lo, hi) for _ in range(rng.randint(1, 40)))
        if feat != "gt":
            msg = msg.replace(b">", b")")
    return msg


def random_log(rng, oids, writer, nlines, feat):
    zero = "0" * 40
    epoch = [0] if rng.random() < 0.3 else []       # git's reflog walker stops at timestamp 0: keep it to some files
    entries, prev = [], zero
    name, email = rng.choice(NAMES), rng.choice(EMAILS)
    for i in range(nlines):
        new = rng.choice([o for o in oids if o != prev])
        if rng.random() < 0.2:
            name, email = rng.choice(NAMES), rng.choice(EMAILS)
        if writer == "git" and email == b"@":
            email = b"a@x"
        msg = random_message(rng, writer == "git", feat)
        if feat == "cr" and msg and rng.random() < 0.4:
            msg += b"\r"
        secs = str(rng.choice(epoch + [7, 1000000000 + i, 1700000000 + 97 * i, 99999999999])).encode()
        entries.append({"old": b2l(prev.encode()), "new": b2l(new.encode()), "name": b2l(name), "email": b2l(email),
                        "secs": b2l(secs), "tz": b2l(rng.choice(TZS)), "msg": b2l(msg)})
        prev = new
    return entries


def msg_classes(msgs):
    """names of the special message shapes present (labels for the report; the verdict is TLC's)"""
    out = set()
    for m in msgs:
        m = l2b(m)
        if m.endswith(b"\r"):
            out.add("cr-message")
        if b">" in m:
            out.add("gt-in-message")
        try:
            m.decode("utf-8")
        except UnicodeDecodeError:
            out.add("non-utf8-message")
    return sorted(out)


def git_append(d, ref, entries):
    for e in entries:
        env = {"GIT_COMMITTER_NAME": l2b(e["name"]).decode("utf-8", "surrogateescape"),
               "GIT_COMMITTER_EMAIL": l2b(e["email"]).decode(),
               "GIT_COMMITTER_DATE": "@%s %s" % (l2b(e["secs"]).decode(), l2b(e["tz"]).decode())}
        args = ["-c", "core.fsync=none", "-c", "core.logAllRefUpdates=always", "update-ref"]
        if e["msg"]:
            args += ["-m", l2b(e["msg"])]
        old = l2b(e["old"]).decode()
        args += [ref, l2b(e["new"]).decode(), old]
        git(args, cwd=d, check=True, env=env)


def intern(table, item):
    k = json.dumps(item, sort_keys=True)
    if k not in table:
        table[k] = len(table) + 1
    return table[k]


def fwd_obs(items):
    return [it["ok"] if "ok" in it else {"bad": True} for it in items]


def choose_bs(rng, file, thorough):
    """buffer sizes: inputs only (which pairs are judged is decided by Reflog_Trace's InDom)"""
    size = len(file)
    lens = [len(x) + 1 for x in file.split(b"\n")[:-1]] or [1]
    L = max(lens)
    bs = {max(1, L - 1), L, L + 1, L + 2, max(1, size - 1), max(1, size), size + 1, 2 * size + 3, 512}
    acc = 0
    for n in reversed(lens[-4:]):      # window boundaries falling on line boundaries
        acc += n
        bs |= {b for b in (acc - 1, acc, acc + 1) if b >= L}
    if thorough and len(lens) <= 5:
        bs |= set(range(L, size + 3))
    else:
        for _ in range(24 if thorough else 8):
            bs.add(rng.randint(L, max(L, size + 2)))
    return sorted(bs)


def run_stores(ctx, binary, specs):
    """specs: [{"writer","ref","entries","feat"}] -> judged through Reflog_Trace"""
    d, _ = template(ctx)
    gd = os.path.join(d, ".git")
    first = []
    for s in specs:
        if not s["entries"]:       # an empty log file
            lp = os.path.join(gd, "logs", s["ref"])
            os.makedirs(os.path.dirname(lp), exist_ok=True)
            open(lp, "wb").close()
        elif s["writer"] == "git":
            git_append(d, s["ref"], s["entries"])
        first.append({"op": "store", "git_dir": gd, "name": s["ref"], "bs": [],
                      "append": s["entries"] if s["writer"] == "gix" else None})
    res1 = ctx.harness(binary, first)
    second = []
    for s, r in zip(specs, res1):
        if "got" not in r or "append_error" in r["got"]:
            ctx.violation({"kind": "append", "case": s, "classes": ["append"], "result": r, "what": "appending reflog entries failed"})
            s["file"] = None
            second.append({"op": "store", "git_dir": gd, "name": s["ref"], "bs": [], "append": None})
            continue
        s["file"] = r["got"]["file"]
        s["bs"] = s.get("bs") or choose_bs(ctx.rng, l2b(s["file"]), ctx.thorough)
        second.append({"op": "store", "git_dir": gd, "name": s["ref"], "bs": s["bs"], "append": None})
    res2 = ctx.harness(binary, second)
    events, owner = [], []
    for si, (s, r) in enumerate(zip(specs, res2)):
        if s["file"] is None:
            continue
        if "got" not in r:
            ctx.violation({"kind": "crash", "case": s, "classes": ["crash"], "result": r, "what": "reflog reader panicked/hung"})
            continue
        g = r["got"]
        if g["file"] != s["file"] or not isinstance(g["fwd"], list):
            raise ToolError("C21: log file changed between runs / unreadable: %s" % json.dumps(g["fwd"])[:200])
        events.append({"kind": "wrote", "file": g["file"], "appended": s["entries"]})
        owner.append((si, "wrote", None))
        events.append({"kind": "file", "file": g["file"], "fwd": fwd_obs(g["fwd"])})
        owner.append((si, "file", None))
        fileev = len(events)
        table = {}
        fids = [intern(table, it) for it in g["fwd"]]
        revs = list(g["revs"])
        if g["platform"]:
            pl = g["platform"]
            if pl["all"] != g["fwd"]:
                ctx.violation({"kind": "platform", "case": s, "classes": ["platform"], "what": "log platform all() differs from reflog_iter"})
            revs.append(pl["rev"])
        for rv in revs:
            rids = [intern(table, it) for it in rv["items"]]
            events.append({"kind": "rev", "fileev": fileev, "B": rv["B"], "err": bool(rv["err"]), "fwd": fids, "rev": rids})
            owner.append((si, "rev", rv))
            if rv["B"] < len(g["file"]):
                ctx.nontrivial(("store", bytes(g["file"]), rv["B"]))
    rejected = ctx.tlc_trace("ref", "Reflog_Trace", events) if events else []
    for bi in rejected:
        si, what, rv = owner[bi]
        s = specs[si]
        s["rejected"] = True
        case = {"kind": "store", "writer": s["writer"], "ref": s["ref"], "entries": s["entries"], "feat": s["feat"]}
        shapes = msg_classes([e["msg"] for e in s["entries"]])
        if what == "wrote":
            if s["writer"] == "git":
                audit_mismatch(ctx, "Reflog.LogFile vs git update-ref", {"file": show_bytes(s["file"]), "entries": s["entries"]})
            ctx.violation({"kind": "wrote", "case": case, "classes": ["wrote"] + shapes, "file_text": show_bytes(s["file"])[:600],
                           "what": "the log file written by the transactions is not the lines the grammar writes for the appended entries"})
        elif what == "file":
            ctx.violation({"kind": "file-fwd", "case": case, "classes": ["forward"] + shapes, "file_text": show_bytes(s["file"])[:600],
                           "what": "forward iteration does not yield the entries of the file's lines"})
        else:
            case["bs"] = [rv["B"]]
            ctx.violation({"kind": "rev", "case": case, "classes": ["reverse"] + shapes, "B": rv["B"], "err": rv["err"], "n_items": len(rv["items"]),
                           "what": "inside the domain the reverse reading must be the forward reading reversed"})
    return events, rejected


def git_reads(ctx, specs):
    """binding C: git reads gitoxide-written logs as the appended entries"""
    d, _ = template(ctx)
    n = 0
    for s in specs:
        if s["writer"] != "gix" or not s["entries"] or s["file"] is None or s.get("rejected"):
            continue    # only files the specification accepted as LogFile(entries) audit the specification
        if any(e["secs"] == [48] for e in s["entries"]):
            continue    # the reflog walker of git stops at entries with timestamp 0
        p = git(["log", "-g", "--format=%H%x00%gn%x00%ge%x00%gs%x01", s["ref"]], cwd=d, check=True)
        got = [x.lstrip(b"\n").split(b"\x00") for x in p.stdout.split(b"\x01") if x.strip(b"\n")]
        # `git log -g` trims white space around the subject
        got = [x[:3] + [x[3].strip()] for x in got if len(x) == 4]
        want = [[l2b(e["new"]), l2b(e["name"]), l2b(e["email"]), l2b(e["msg"]).strip()] for e in reversed(s["entries"])]
        if got != want:
            k = next((i for i, (a, b) in enumerate(zip(got, want)) if a != b), min(len(got), len(want)))
            audit_mismatch(ctx, "git log -g on a gitoxide-written reflog",
                           {"ref": s["ref"], "entry": k, "n_got": len(got), "n_want": len(want), "got": repr(got[k:k + 1])[:300], "want": repr(want[k:k + 1])[:300]})
        n += 1
    ctx.cov["git_read_logs"] = n


def run(ctx):
    binary = ctx.build("vh-c21")
    # --- the reader model: vacuity + self-test on a small instance
    ctx.tlc_mc("ref", "Reflog_Gen", consts={"MaxLines": 2, "MaxLen": 3, "MaxB": 8}, workers=4,
               must_cover=["ALoad", "AYield", "AYieldFirst", "ARefill", "ATooSmall", "ADeplete"])
    ctx.tlc_mc("ref", "Reflog_Gen", consts={"MaxLines": 2, "MaxLen": 3, "MaxB": 8, "Wide": "TRUE"}, workers=4,
               expect_violation="InvCorrect", coverage=False)
    # --- model checking + binding A
    consts = {"MaxLines": 4, "MaxLen": 5, "MaxB": 26} if ctx.thorough else {"MaxLines": 3, "MaxLen": 5, "MaxB": 20}
    cases = ctx.tlc_gen("ref", "Reflog_Gen", consts=consts, workers=6)
    ctx.cov["exhaustive"] = True
    ctx.cov["instance"] = consts
    for c in cases:
        c["op"] = "abs"
    results = ctx.harness(binary, cases)
    count = {"all": 0, "same": 0}
    for c, r in zip(cases, results):
        judge_abs(ctx, c, r, count)
    ctx.cov["model_agrees_with_reader_everywhere"] = "%d/%d (file, B) pairs incl. outside the domain" % (count["same"], count["all"])
    ctx.cov["in_domain_pairs"] = sum(1 for c in cases if c["indomain"])
    pick = next(c for c in cases if c["indomain"] and len(c["lines"]) == 3 and c["B"] < len(c["file"]))
    ctx.sample({"file": show_bytes(pick["file"]), "B": pick["B"], "expect": [show_bytes(x) for x in pick["expect"]]})

    lines = ctx.tlc_gen("ref", "ReflogLine_Gen", consts={"Wide": "TRUE" if ctx.thorough else "FALSE"}, workers=6)
    for c in lines:
        c["op"] = "line"
    for c, r in zip(lines, ctx.harness(binary, lines)):
        judge_line(ctx, c, r)
    ctx.sample({"line": show_bytes(lines[len(lines) // 2]["line_tab"])})

    # --- binding B/C: real reflogs
    _, oids = template(ctx)
    nfiles = 120 if ctx.thorough else 36
    specs = []
    for i in range(nfiles):
        writer = "git" if i % 4 == 3 else "gix"
        n = [0, 1, 2, 3][i] if i < 4 else ctx.rng.choice([1, 2, 3, 4, 5, 8, 13, 21, 34, 50])
        if writer == "git":
            n = max(1, min(n, 20))
        feat = FEATURES[(i // 4) % 4] if i % 4 in (2, 3) and i >= 4 else None      # half of the files are plain
        if feat == "cr" and writer == "git":
            feat = None      # git collapses white space in messages, a trailing CR cannot be written through it
        specs.append({"writer": writer, "ref": "refs/heads/r%d" % i, "feat": feat, "entries": random_log(ctx.rng, oids, writer, n, feat)})
    events, rejected = run_stores(ctx, binary, specs)
    git_reads(ctx, specs)
    ctx.cov["real_reflogs"] = {"files": nfiles, "reverse_readings": sum(1 for e in events if e["kind"] == "rev")}
    ctx.cov["rule"] = ("MC/A: every file of <= %(MaxLines)s lines with content lengths 0..%(MaxLen)s (with/without final newline) x every "
                       "buffer size 1..%(MaxB)s, enumerated by TLC (exhaustive); line grammar: entries over field alphabets. "
                       "B: seeded random reflogs of 0..50 entries written by gitoxide/git, buffer sizes from the longest line to "
                       "beyond the file size. Non-trivial = judged (file, buffer) pair whose buffer is smaller than the file "
                       "(the window has to slide), or a line with a message; distinct by file bytes and B." % consts)
    ctx.assumptions += ["judged domain (DESIGN.md C21): every line newline-terminated and B >= longest line including its newline; "
                        "a file whose last line lacks the newline only with B >= longest + 1",
                        "reflog messages are single-line (documented requirement of LogChange::message)",
                        "git 2.39.5 update-ref / log -g are the reference for the line grammar (audited on every run)"]


def replay(ctx, rec):
    binary = ctx.build("vh-c21")
    c = rec["case"]
    if c.get("op") == "abs":
        judge_abs(ctx, c, ctx.harness(binary, [c])[0])
    elif c.get("op") == "line":
        judge_line(ctx, c, ctx.harness(binary, [c])[0])
    else:
        s = {"writer": c["writer"], "ref": c["ref"], "entries": c["entries"], "feat": c.get("feat")}
        if c.get("bs"):
            s["bs"] = c["bs"] + [512]
        run_stores(ctx, binary, [s])
