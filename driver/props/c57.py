"""C57 - ANSI-C unquoting inverts git's path quoting.

spec/misc/CQuote.tla transcribes git's quote_c_style (cq_lookup table, core.quotePath on/off, forced
quotes) and unquote_c_style; the law Undo(Quote(s) ++ tail) = (s, |Quote(s)|) is an invariant of the
generator runs (checked by TLC on the specification itself).
 A: CQuote_Gen enumerates token strings (byte classes of the rule + every single byte) x quotePath x
    forced x tails and prints the quoted text and the expected (bytes, consumed); CQuote_Rand does the
    same for seeded random byte strings drawn by the driver. Replayed through gix_quote::ansi_c::undo.
 B: every recorded (text, ok, out, consumed), including randomly damaged quoted texts, is judged by
    CQuote_Trace (TLC as reference interpreter; only texts the spec's Undo accepts are judged).
 C: the spec's Quote is compared with `git ls-tree` on trees whose entry names are the byte strings
    (both quotePath settings); the spec's Undo with `git mktree` (which unquotes its input paths).
"""
import os
from vf import *

LEVEL = "exploration"
META = {
    "technique": "TLA+ transcription of git's C-style quoting; TLC enumerates/derives quoted texts and expected unquoting results, replayed through gix_quote::ansi_c::undo; observations re-judged by a TLC trace module; spec audited against git ls-tree/mktree",
    "note": "Exhaustive for the stated token alphabet and length; random strings up to 60 bytes. Malformed quoting (unterminated, unknown escapes) is outside the property and not judged.",
}
EMPTY_BLOB = b"e69de29bb2d1d6434b8b29ae775ad8c2e48c5391"
ENTRY = b"100644 blob " + EMPTY_BLOB + b"\t"


def judge(case, res):
    """compare one executor result with the specification's expectation (fields of `case`)"""
    if "got" not in res:
        return ["undo crashed: %s" % json.dumps(res)[:200]]
    g = res["got"]
    bad = []
    if not g["ok"]:
        return ["undo rejects git's quoted form: %s" % g["err"][:120]]
    if g["out"] != case["bytes"]:
        bad.append("unquoted bytes differ: got %r, spec %r" % (show_bytes(g["out"]), show_bytes(case["bytes"])))
    if g["consumed"] != case["consumed"]:
        bad.append("consumed differs: got %d, spec %d" % (g["consumed"], case["consumed"]))
    return bad


def classify(bad):
    return sorted({b.split(":")[0] for b in bad})


def name_ok_for_tree(s):
    return len(s) > 0 and 0 not in s and 47 not in s


def audit(ctx, cases):
    """binding C. (1) Quote: git ls-tree prints the spec's `printed` for every entry name.
    (2) Undo: git mktree (non -z) unquotes the spec's quoted text to the spec's `bytes`."""
    repo = os.path.join(ctx.work, "audit.git")
    if not os.path.exists(repo):
        git(["init", "-q", "--bare", repo], check=True)
    n1 = n2 = 0
    for qp in (True, False):
        want = {}
        for c in cases:
            if c["qp"] == qp and name_ok_for_tree(c["input"]):
                want[bytes(c["input"])] = bytes(c["printed"])
        if not want:
            continue
        inp = b"".join(ENTRY + n + b"\0" for n in want)
        tree = git(["mktree", "-z", "--missing"], cwd=repo, input=inp, check=True).stdout.strip().decode()
        raw = git(["ls-tree", "-z", tree], cwd=repo, check=True).stdout.split(b"\0")[:-1]
        quoted = git(["-c", "core.quotePath=%s" % ("true" if qp else "false"), "ls-tree", tree], cwd=repo, check=True).stdout.split(b"\n")[:-1]
        if len(raw) != len(want) or len(quoted) != len(want):
            raise ToolError("audit world: tree has %d/%d entries, expected %d" % (len(raw), len(quoted), len(want)))
        for r, q in zip(raw, quoted):
            name = r.split(b"\t", 1)[1]
            shown = q.split(b"\t", 1)[1]
            if name not in want:
                raise ToolError("audit world: unexpected tree entry %r" % name)
            n1 += 1
            if want[name] != shown:
                audit_mismatch(ctx, "CQuote.Quote", {"input": b2l(name), "qp": qp, "git": b2l(shown), "spec": b2l(want[name])})
    # Undo: complete quoted forms only (mktree ignores what follows the closing quote)
    todo = {}
    for c in cases:
        if c["quoted"] and not c["tail"] and name_ok_for_tree(c["bytes"]) and 10 not in c["text"]:
            todo[bytes(c["text"])] = bytes(c["bytes"])
    texts = list(todo)
    for k in range(0, len(texts), 2000):
        chunk = texts[k:k + 2000]
        inp = b"\n".join(ENTRY + t + b"\n" for t in chunk)
        p = git(["mktree", "--batch", "--missing"], cwd=repo, input=inp)
        trees = p.stdout.split()
        if p.returncode != 0 or len(trees) != len(chunk):
            bad = chunk[len(trees)] if len(trees) < len(chunk) else b""
            audit_mismatch(ctx, "CQuote.Undo", {"git_refuses": b2l(bad), "stderr": p.stderr.decode("utf-8", "replace")[-200:]})
        out = git(["cat-file", "--batch"], cwd=repo, input=b"\n".join(trees) + b"\n", check=True).stdout
        pos = 0
        for t in chunk:
            nl = out.index(b"\n", pos)
            size = int(out[pos:nl].split()[2])
            body = out[nl + 1:nl + 1 + size]
            pos = nl + 1 + size + 1
            name = body[body.index(b" ") + 1:len(body) - 21]
            n2 += 1
            if name != todo[t]:
                audit_mismatch(ctx, "CQuote.Undo", {"text": b2l(t), "git": b2l(name), "spec": b2l(todo[t])})
    ctx.log("audit: git ls-tree agreed on %d quoted names, git mktree on %d unquoted texts" % (n1, n2))
    ctx.cov["git_audited"] = ctx.cov.get("git_audited", 0) + n1 + n2


CLASSES = [bytes([b]) for b in (7, 8, 9, 10, 11, 12, 13, 0, 1, 27, 31, 34, 92, 127, 128, 255, 32)] + \
          [b"a", b"n", b"t", b"0", b"1", b"3", b"7", b"8", b"\xc3\xa9", b"\xe2\x82\xac", b"dir", b".txt", b"\\n", b"\"\""]


def random_inputs(ctx, n):
    rnd = []
    for _ in range(n):
        k = ctx.rng.choice([0, 1, 2, 3, 5, 8, 13, 21, 34, 60])
        s = b""
        while len(s) < k:
            s += ctx.rng.choice(CLASSES) if ctx.rng.random() < 0.6 else bytes([ctx.rng.randrange(256)])
        s = s[:k]
        tail = b"" if ctx.rng.random() < 0.3 else bytes(ctx.rng.choice(b' "\\xn0\t\n\xff') for _ in range(ctx.rng.randint(1, 6)))
        rnd.append({"input": b2l(s), "qp": ctx.rng.random() < 0.7, "forced": ctx.rng.random() < 0.3, "tail": b2l(tail)})
    return rnd


def spec_cases_for(ctx, inputs):
    """CQuote_Rand: the specification computes text/expectation for inputs drawn by the driver."""
    path = os.path.join(ctx.work, "rand-inputs-%d.ndjson" % len(ctx.cov["tlc_runs"]))
    with open(path, "w") as f:
        for r in inputs:
            f.write(json.dumps(r, separators=(",", ":")) + "\n")
    # vf.tlc_gen has neither an env parameter nor the depth-first queue (a chain of N states is 3x
    # slower on the default disk queue), so the private runner is used the way tlc_trace does
    r = ctx._tlc("misc", "CQuote_Rand", ctx.cfg("misc", "CQuote_Rand.cfg"), 1, 1800, env={"TRACE": path}, dfs=True)
    if r.violated or r.error:
        ctx._dump("CQuote_Rand.tlc.out", r.out)
        raise ToolError("generator CQuote_Rand: violated=%s error=%s" % (r.violated, r.error))
    cases = r.cases()
    ctx.cov["states"] += r.distinct
    ctx.cov["transitions"] += r.generated
    ctx.log("TLC CQuote_Rand: %d cases, %.1fs" % (len(cases), r.wall))
    cases.sort(key=lambda c: c["n"])
    if [c["input"] for c in cases] != [r["input"] for r in inputs]:
        raise ToolError("CQuote_Rand did not echo the inputs")
    return [c for c in cases if c["indomain"]]


def event_of(text, res):
    g = res["got"]
    return {"text": text, "ok": g["ok"], "out": g["out"], "consumed": g["consumed"]}


def check_cases(ctx, binary, cases, kind):
    results = ctx.harness(binary, cases)
    for c, r in zip(cases, results):
        bad = judge(c, r)
        if c["quoted"] and c["text"] != [34] + c["input"] + [34]:
            ctx.nontrivial(bytes(c["text"]))          # at least one escape sequence to interpret
        if bad:
            ctx.violation({"kind": kind, "case": c, "text": show_bytes(c["text"]), "mismatch": bad,
                           "classes": classify(bad), "result": r})
    return results


def run(ctx):
    binary = ctx.build("vh-c57")
    consts = {"MaxToks": 3, "Wide": "TRUE" if ctx.thorough else "FALSE"}
    cases = ctx.tlc_gen("misc", "CQuote_Gen", consts=consts)
    ctx.cov["exhaustive"] = True
    results = check_cases(ctx, binary, cases, "gen")
    ctx.sample({"text": show_bytes(cases[len(cases) // 2]["text"]), "spec": cases[len(cases) // 2]})
    audit(ctx, cases if ctx.thorough else [c for c in cases if len(c["input"]) <= 2 or c["tail"] == []])

    rnd = spec_cases_for(ctx, random_inputs(ctx, 3000 if not ctx.thorough else 30000))
    rres = check_cases(ctx, binary, rnd, "random")
    ctx.sample({"text": show_bytes(rnd[0]["text"]), "spec": rnd[0]})
    audit(ctx, rnd)

    # binding B: the observations themselves, judged by TLC; plus damaged quoted texts (judged only
    # where the specification's Undo still accepts them)
    events = []
    step = 1 if ctx.thorough else 7
    for c, r in list(zip(rnd, rres)) + list(zip(cases, results))[::step]:
        if "got" in r:
            events.append(event_of(c["text"], r))
    damaged = []
    for c in rnd[: 1500 if not ctx.thorough else 10000]:
        t = list(c["text"])
        if not t:
            continue
        op = ctx.rng.randrange(4)
        i = ctx.rng.randrange(len(t))
        if op == 0:
            del t[i]
        elif op == 1:
            t[i] = ctx.rng.choice([34, 92, 48, 56, 110, 120, 255])
        elif op == 2:
            t.insert(i, ctx.rng.choice([34, 92, 48, 51, 52]))
        else:
            t = t[:i]
        damaged.append({"text": t})
    dres = ctx.harness(binary, damaged)
    for c, r in zip(damaged, dres):
        if "got" not in r:
            ctx.violation({"kind": "crash", "case": c, "text": show_bytes(c["text"]), "mismatch": ["undo crashed"],
                           "classes": ["undo crashed"], "result": r})
        else:
            events.append(event_of(c["text"], r))
    for bi in ctx.tlc_trace("misc", "CQuote_Trace", events):
        ev = events[bi]
        ctx.violation({"kind": "trace", "case": {"text": ev["text"]}, "text": show_bytes(ev["text"]),
                       "mismatch": ["event rejected by CQuote_Trace"], "classes": ["trace"], "event": ev})
    ctx.cov["rule"] = ("A: all strings of <= 3 tokens over the %s alphabet of CQuote_Gen plus every single byte (alone, +'0', +'n') x "
                       "quotePath x forced x tails (exhaustive); seeded random strings of 0..60 bytes through CQuote_Rand. B: those "
                       "observations and randomly damaged texts judged by CQuote_Trace. Non-trivial = the quoted text contains at "
                       "least one escape sequence; distinct by text bytes." % ("wide (28-token)" if ctx.thorough else "quick (16-token)"))
    ctx.assumptions += ["git 2.39.5 ls-tree/mktree are the reference for the transcription (audited on every run; names with NUL or '/' "
                        "and empty names cannot be stored in a tree and are covered by the spec's own round-trip invariant only)",
                        "texts that are not a complete quoted form (unterminated, unknown escape, bad octal) are not judged"]


def replay(ctx, rec):
    binary = ctx.build("vh-c57")
    c = rec["case"]
    r = ctx.harness(binary, [c])[0]
    if "bytes" in c:
        bad = judge(c, r)
        if bad:
            ctx.violation({"kind": rec.get("kind", "gen"), "case": c, "text": show_bytes(c["text"]), "mismatch": bad,
                           "classes": classify(bad), "result": r})
        return
    if "got" not in r:
        ctx.violation(dict(rec, result=r))
        return
    ev = event_of(c["text"], r)
    if ctx.tlc_trace("misc", "CQuote_Trace", [ev]):
        ctx.violation({"kind": "trace", "case": c, "text": show_bytes(c["text"]), "mismatch": ["event rejected by CQuote_Trace"],
                       "classes": ["trace"], "event": ev})
