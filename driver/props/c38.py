"""C38 - Attribute values agree with git check-attr.

spec/match/Attr.tla (on Ignore.tla / Wildmatch.tla, whose pattern functions attr.c shares with dir.c) transcribes
attr.c: line parsing (blanks, comments, `[attr]` macros and where they are allowed, attribute tokens `a -a !a a=v`,
name validity, negative patterns dropped), the attribute stack and its precedence (info/attributes, per-directory
files deepest first, core.attributesFile, built-in `binary`), determine_macros, fill / fill_one / macroexpand_one
(last line first, last assignment first, first decision sticks, a macro expands only when SET), path_matches
(directory-only patterns apply to paths given with a trailing slash).  Result per path: the set of
(attribute, set | unset | value) that `git check-attr -a` lists.
 A: Attr_Gen enumerates every world of <= LMax lines over two families of files on a fixed tree and prints the
    spec's attributes for 7 query paths x {case-sensitive, ignoreCase}; each world is materialised by the executor
    and asked through gix_worktree::Stack::at_entry().matching_attributes().
 B: seeded random worlds (random trees and lines incl. odd attribute tokens, macros, redefinitions, CRLF, BOM);
    gitoxide's answers are judged by TLC (Attr_Trace).
 C: the same worlds are materialised for the installed git and `git check-attr -a -z --stdin` answers are judged by
    the same TLC module; a rejected git event is a tool error.
"""
import os
from vf import *

LEVEL = "exploration"
META = {
    "technique": "TLA+ transcription of git's attr.c on top of the dir.c/wildmatch transcriptions, evaluated by TLC (generator + "
                 "trace judge); gix_worktree::Stack replayed on all enumerated and on seeded random worlds; transcription "
                 "audited against git check-attr on every run",
    "note": "C-quoted patterns are outside the domain (quoting is C57's subject). Attribute files come from the worktree "
            "(not from the index). Trusted: TLC, git 2.39.5.",
}


def norm(lst):
    """attribute list -> canonical sorted list of [name, st, value] (pure data normalisation)"""
    out = []
    for x in lst:
        if isinstance(x, dict):
            out.append([x["n"], x["st"], x["v"]])
        else:
            out.append([x[0], x[1], x[2]])
    return sorted(out)


def recs(lst):
    return [{"n": x[0], "st": x[1], "v": x[2]} for x in lst]


def show_attrs(lst):
    return ["%s%s" % (show_bytes(n), "" if st == "set" else (": unset" if st == "unset" else "=" + show_bytes(v))) for n, st, v in norm(lst)]


# ------------------------------------------------------------------ binding C: observe git
def materialise(root, world):
    rootb = os.fsencode(root)
    os.makedirs(rootb, exist_ok=True)
    for s in world["srcs"]:
        if s["kind"] == "dir" and s["content"]:
            d = os.path.join(rootb, bytes(s["base"])) if s["base"] else rootb
            os.makedirs(d, exist_ok=True)
            with open(os.path.join(d, b".gitattributes"), "wb") as f:
                f.write(bytes(s["content"]))


def parse_check_attr(out, paths):
    """-z output: (path NUL attr NUL info NUL)* -> per path list of [name, st, value]"""
    f = out.split(b"\0")
    if len(f) % 3 != 1 or f[-1] != b"":
        raise ToolError("git check-attr: unexpected output shape (%d fields)" % len(f))
    by = {p: [] for p in paths}
    for i in range(0, len(f) - 1, 3):
        p, a, v = f[i:i + 3]
        if p not in by:
            raise ToolError("git check-attr reported an unknown path %r" % p)
        if v == b"unspecified":
            continue
        by[p].append([b2l(a), "set", []] if v == b"set" else [b2l(a), "unset", []] if v == b"unset" else [b2l(a), "value", b2l(v)])
    return by


def observe_git(ctx, worlds):
    """"git" events (two per world: core.ignoreCase off/on).  Worlds made of per-directory files without macro
    lines share one repository (world k below w<k>/; macros are only honoured in the top-level file, so worlds
    with `[attr]` cannot be nested); all others get their own worktree and two processes each."""
    top = os.path.join(ctx.work, "audit-%d" % len(os.listdir(ctx.work)))
    os.makedirs(top)
    events = []

    def batchable(w):
        return all(s["kind"] == "dir" and b"[attr]" not in bytes(s["content"]) for s in w["srcs"])
    batch = [w for w in worlds if batchable(w)]
    single = [w for w in worlds if not batchable(w)]

    def qpath(q):
        return bytes(q["p"]) + (b"/" if q["d"] else b"")
    if batch:
        repo = os.path.join(top, "batch")
        git(["init", "-q", repo], check=True)
        paths = []
        for k, w in enumerate(batch):
            materialise(os.path.join(repo, "w%d" % k), w)
            paths += [b"w%d/" % k + qpath(q) for q in w["queries"]]
        for icase in (False, True):
            r = git(["-c", "core.ignorecase=%s" % ("true" if icase else "false"), "-c", "core.attributesFile=/dev/null",
                     "check-attr", "-a", "-z", "--stdin"],
                    cwd=repo, input=b"".join(p + b"\0" for p in paths), timeout=900)
            if r.returncode != 0:
                raise ToolError("git check-attr failed: %s" % r.stderr.decode("utf-8", "replace")[-400:])
            by = parse_check_attr(r.stdout, paths)
            for k, w in enumerate(batch):
                events.append({"k": "git", "srcs": w["srcs"], "queries": w["queries"], "icase": icase,
                               "r": [recs(norm(by[b"w%d/" % k + qpath(q)])) for q in w["queries"]]})
    if single:
        gd = os.path.join(top, "single.git")
        git(["init", "-q", "--bare", gd], check=True)
        for k, w in enumerate(single):
            wt = os.path.join(top, "s%d" % k)
            materialise(wt, w)
            with open(os.path.join(gd, "info", "attributes"), "wb") as f:
                f.write(b"".join(bytes(s["content"]) for s in w["srcs"] if s["kind"] == "info"))
            glob = os.path.join(top, "s%d.global" % k)
            with open(glob, "wb") as f:
                f.write(b"".join(bytes(s["content"]) for s in w["srcs"] if s["kind"] == "global"))
            paths = [qpath(q) for q in w["queries"]]
            for icase in (False, True):
                r = git(["--git-dir=" + gd, "--work-tree=" + wt, "-c", "core.attributesFile=" + glob,
                         "-c", "core.ignorecase=%s" % ("true" if icase else "false"), "check-attr", "-a", "-z", "--stdin"],
                        cwd=wt, input=b"".join(p + b"\0" for p in paths))
                if r.returncode != 0:
                    raise ToolError("git check-attr failed: %s" % r.stderr.decode("utf-8", "replace")[-400:])
                by = parse_check_attr(r.stdout, paths)
                events.append({"k": "git", "srcs": w["srcs"], "queries": w["queries"], "icase": icase,
                               "r": [recs(norm(by[p])) for p in paths]})
    shutil.rmtree(top, ignore_errors=True)
    return events


# ------------------------------------------------------------------ random worlds (binding B)
NAMES = [b"a", b"b", b"c", b"A", b"ab", b"a.c", b"b.c", b"B"]
PATS = [b"*", b"a", b"b", b"c", b"A", b"*.c", b"a*", b"a/", b"b/", b"/a", b"/c", b"a/b", b"a/*", b"a/**", b"**/c", b"*/c", b"ab", b"a.c",
        b"[ab]", b"?", b"!c", b"\\!c", b"C", b"a/b/", b"**", b"a**/c", b"a/**/c", b"[attr]", b"/*/c"]
ATTRS = [b"text", b"-text", b"!text", b"eol=lf", b"eol=crlf", b"binary", b"-binary", b"!binary", b"binary=x", b"m", b"-m", b"!m", b"m=x",
         b"diff", b"-diff", b"merge", b"x=", b"a=b=c", b"y", b"-y", b"n2", b"-n2"]
ODD = [b"-", b"!", b"=x", b"-a=b", b"!a=b", b"\xc3\xa9", b"--x", b"a,b", b"a-b", b".x", b"_x", b"x=\xff", b"-!x", b"!-x"]
MACROS = [b"[attr]m", b"[attr]n2", b"[attr]binary", b"[attr]text", b"[attr]-bad", b"[attr]b\xc3\xa9", b"[attr]y"]


def rnd_line(rng):
    k = rng.random()
    if k < 0.04:
        return rng.choice([b"", b"# c text", b"   ", b"\t", b" # x"])
    head = rng.choice(MACROS) if k < 0.2 else rng.choice(PATS)
    toks = [rng.choice(ATTRS) if rng.random() < 0.93 else rng.choice(ODD) for _ in range(rng.choice([0, 1, 1, 1, 2, 2, 3]))]
    sep = rng.choice([b" ", b" ", b" ", b"\t", b"  "])
    line = head + b"".join(sep + t for t in toks)
    if rng.random() < 0.08:
        line = rng.choice([b" ", b"\t", b"  "]) + line
    if rng.random() < 0.06:
        line += rng.choice([b" ", b"\t"])
    return line


def rnd_world(rng, allow_global):
    dirs = [b""]
    nodes = {}
    for _ in range(rng.randint(3, 7)):
        parent = rng.choice(dirs)
        if parent.count(b"/") >= 2 and parent:
            continue
        name = rng.choice(NAMES)
        p = (parent + b"/" + name) if parent else name
        if p in nodes:
            continue
        isdir = rng.random() < 0.5
        nodes[p] = isdir
        if isdir:
            dirs.append(p)
    if not nodes:
        nodes[b"a"] = False
    bases = [("dir", d) for d in dirs]
    if allow_global:
        bases += [("info", b""), ("global", b"")]
    chosen = rng.sample(bases, min(len(bases), rng.randint(1, 3)))
    if ("dir", b"") not in chosen and rng.random() < 0.6:
        chosen.append(("dir", b""))
    srcs = []
    for kind, base in chosen:
        eol = b"\r\n" if rng.random() < 0.1 else b"\n"
        content = b"".join(rnd_line(rng) + eol for _ in range(rng.randint(1, 4)))
        if rng.random() < 0.05:
            content = b"\xef\xbb\xbf" + content
        if rng.random() < 0.1:
            content = content.rstrip(b"\r\n")
        srcs.append({"kind": kind, "base": b2l(base), "content": b2l(content)})
    queries = [{"p": b2l(p), "d": d} for p, d in sorted(nodes.items())]
    rng.shuffle(queries)
    return {"srcs": srcs, "queries": queries}


# ------------------------------------------------------------------ the check
def got_vectors(world, r):
    if "got" not in r:
        return None
    g = r["got"]
    if any(isinstance(x, dict) for x in g["cs"] + g["ic"]):
        return None
    return [norm(x) for x in g["cs"]], [norm(x) for x in g["ic"]]


class Collector:
    """keeps, per class signature, the smallest disagreeing (world, query) and counts the rest"""

    def __init__(self):
        self.by_sig = {}

    def add(self, kind, world, icase, qi, want, got, cs_agrees):
        q = world["queries"][qi]
        wn, gn = {bytes(x[0]) for x in want}, {bytes(x[0]) for x in got}
        classes = []
        if gn - wn:
            classes.append("extra-attribute")
        if wn - gn:
            classes.append("missing-attribute")
        if any(x not in got for x in want if bytes(x[0]) in gn):
            classes.append("different-value")
        if icase and cs_agrees:
            classes.append("ignorecase-only")
        if any(s["kind"] != "dir" and s["content"] for s in world["srcs"]):
            classes.append("with-info-or-global")
        if any(b"[attr]" in bytes(s["content"]) for s in world["srcs"]):
            classes.append("with-macro")
        sig = tuple(classes)
        size = sum(len(s["content"]) for s in world["srcs"]) + len(q["p"])
        cur = self.by_sig.get(sig)
        if cur is None or size < cur[0]:
            rec = {"kind": kind, "case": {"srcs": world["srcs"], "queries": world["queries"]}, "query_index": qi, "icase": icase,
                   "path": show_bytes(q["p"]), "is_dir": q["d"],
                   "files": [{"kind": s["kind"], "base": show_bytes(s["base"]), "content": show_bytes(s["content"])}
                             for s in world["srcs"] if s["content"]],
                   "spec": show_attrs(want), "gitoxide": show_attrs(got), "classes": classes,
                   "count": cur[1]["count"] if cur else 0}
            self.by_sig[sig] = (size, rec)
            cur = self.by_sig[sig]
        cur[1]["count"] += 1

    def records(self):
        return [r for _s, r in sorted(self.by_sig.values(), key=lambda x: x[0])]


def run(ctx):
    binary = ctx.build("vh-c38")
    coll = Collector()
    fams = [{"LMax": 2, "Family": '"dirs"', "Small": "FALSE"}, {"LMax": 2, "Family": '"global"', "Small": "FALSE"}]
    if ctx.thorough:
        fams += [{"LMax": 3, "Family": '"dirs"', "Small": "TRUE"}, {"LMax": 3, "Family": '"global"', "Small": "TRUE"}]
    audit_worlds = []
    ctx.cov["exhaustive"] = True
    ctx.cov["queries"] = 0
    for consts in fams:
        cases = ctx.tlc_gen("match", "Attr_Gen", consts=consts, timeout=3000)
        results = ctx.harness(binary, [{"srcs": c["srcs"], "queries": c["queries"]} for c in cases], timeout=3000)
        for c, r in zip(cases, results):
            gv = got_vectors(c, r)
            if gv is None:
                ctx.violation({"kind": "crash", "case": {"srcs": c["srcs"], "queries": c["queries"]}, "classes": ["crash"], "result": r})
                continue
            for icase in (0, 1):
                for qi, want in enumerate(c["res"][icase]):
                    w = norm(want)
                    if gv[icase][qi] != w:
                        coll.add("gen", c, bool(icase), qi, w, gv[icase][qi], gv[0][qi] == norm(c["res"][0][qi]))
            if len({json.dumps(norm(x)) for x in c["res"][0]}) > 1:
                ctx.nontrivial(json.dumps(c["lines"]))
        ctx.cov["queries"] += 2 * sum(len(c["queries"]) for c in cases)
        k = (200 if consts["Family"] == '"dirs"' else 40) if not ctx.thorough else (2500 if consts["Family"] == '"dirs"' else 250)
        audit_worlds += cases if len(cases) <= k else ctx.rng.sample(cases, k)
        mid = cases[len(cases) // 2]
        ctx.sample({"lines": [[x["f"], show_bytes(x["t"])] for x in mid["lines"]], "family": consts["Family"],
                    "spec": [[show_attrs(r) for r in rr] for rr in mid["res"]]})

    # binding B: random worlds
    n = 160 if not ctx.thorough else 3000
    rnd = [rnd_world(ctx.rng, allow_global=(i % 3 == 0)) for i in range(n)]
    res = ctx.harness(binary, rnd, timeout=3000)
    events, owner = [], []
    for w, r in zip(rnd, res):
        gv = got_vectors(w, r)
        if gv is None:
            ctx.violation({"kind": "crash", "case": w, "classes": ["crash"], "result": r})
            continue
        for icase in (0, 1):
            events.append({"k": "gix", "srcs": w["srcs"], "queries": w["queries"], "icase": bool(icase), "r": [recs(x) for x in gv[icase]]})
            owner.append((w, icase, gv[icase], gv[0]))
        if any(gv[0]):
            ctx.nontrivial(json.dumps(w["srcs"]))
    ctx.cov["queries"] += sum(len(e["queries"]) for e in events)
    ngix = len(events)
    gitev = observe_git(ctx, [{"srcs": c["srcs"], "queries": c["queries"]} for c in audit_worlds] + rnd)
    events += gitev
    rejected = ctx.tlc_trace("match", "Attr_Trace", events, timeout=3000)
    gitbad = [i for i in rejected if i >= ngix]
    if gitbad:
        e = events[gitbad[0]]
        audit_mismatch(ctx, "Attr", {"files": [[s["kind"], show_bytes(s["base"]), show_bytes(s["content"])] for s in e["srcs"]],
                                    "queries": [[show_bytes(q["p"]), q["d"]] for q in e["queries"]], "icase": e["icase"],
                                    "git": [show_attrs(x) for x in e["r"]], "rejected": len(gitbad)})
    ctx.cov["git_audited"] = sum(len(e["queries"]) for e in gitev)
    ctx.log("audit: git check-attr agreed with the specification on %d (world, path, case) observations" % ctx.cov["git_audited"])
    gitans = {(json.dumps(e["srcs"]), json.dumps(e["queries"]), e["icase"]): [norm(x) for x in e["r"]] for e in gitev}
    for bi in rejected:
        if bi >= ngix:
            continue
        w, icase, got, got_cs = owner[bi]
        want = gitans.get((json.dumps(w["srcs"]), json.dumps(w["queries"]), bool(icase)))
        want_cs = gitans.get((json.dumps(w["srcs"]), json.dumps(w["queries"]), False))
        if want is None or want_cs is None:
            raise ToolError("no git observation for a rejected random world")
        hit = False
        for qi, (a, b) in enumerate(zip(want, got)):
            if a != b:
                coll.add("random", w, bool(icase), qi, a, b, want_cs[qi] == got_cs[qi])
                hit = True
        if not hit and len({json.dumps(x[0]) for q in got for x in q}) == sum(len(q) for q in got):
            raise ToolError("judge rejected a random world that agrees with git")
    for r in coll.records():
        ctx.violation(r)
    ctx.cov["rule"] = ("A: every world of <= LMax lines (runs: %s) x 7 query paths x 2 case modes; B: %d seeded random worlds x their "
                       "paths x 2 case modes. evaluations = worlds executed in gitoxide; queries = attribute sets compared. "
                       "Non-trivial = a world in which paths get different attribute sets; distinct by content." % (json.dumps(fams), n))
    ctx.assumptions += ["git 2.39.5 is the reference: judged against `git check-attr -a -z --stdin` on every run",
                        "C-quoted patterns are outside the domain; attribute files are read from the worktree",
                        "is_dir is given to gitoxide as the entry mode; git is asked with a trailing slash"]


def replay(ctx, rec):
    binary = ctx.build("vh-c38")
    w = rec["case"]
    r = ctx.harness(binary, [w])[0]
    gv = got_vectors(w, r)
    if gv is None:
        ctx.violation(dict(rec, result=r))
        return
    evs = [{"k": "gix", "srcs": w["srcs"], "queries": w["queries"], "icase": bool(i), "r": [recs(x) for x in gv[i]]} for i in (0, 1)]
    if ctx.tlc_trace("match", "Attr_Trace", evs):
        ctx.violation(dict(rec, gitoxide_now=[[show_attrs(x) for x in v] for v in gv], replayed=True))
