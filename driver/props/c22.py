"""C22 - Lock files give exclusive, atomic updates for every resource path.

spec/lock/Lock.tla: acquire (race-proof mkdir -p below the boundary, exclusive create), write, commit
(rename) and drop (unlink + rmdir of empty parents) as single file-system steps of concurrent
processes; TLC checks MutualExclusion, NoOrphanLock, CleanWhenQuiet, CommitsCounted and
OnlyHolderChanges over all interleavings.
 A-names: LockName_Gen enumerates byte-string file names (dots, `.lock`, non-UTF-8, truncated UTF-8);
    for each the real gix_lock::File / Marker must put its lock file at exactly name ++ ".lock",
    report that path and the resource path, refuse a second holder, commit to exactly the resource
    and leave no trace after a drop (also of directories it created up to the boundary).
 A-calls: LockCalls_Gen enumerates every sequence of <= 5 API calls by two holders over a top-level
    and a nested resource with the outcome and file-system state after each call; replayed.
 B: free-running threads increment a counter under the lock; the event log (shared atomic sequence
    numbers inside the holding interval) must be accepted by Lock_Trace: never two holders, final
    counter = number of commits; nothing but the resource is left behind.
"""
from vf import *

LEVEL = "model_checking"
META = {
    "technique": "TLA+ model of lock-file protocol checked by TLC over all interleavings; TLC-enumerated names and call sequences replayed in gix-lock; stress traces accepted by a TLC trace spec",
    "note": "Real thread schedules are sampled (trace validation is sound for rejections only); cross-process exclusion rests on the same O_EXCL creation the in-process cases exercise. File names containing '/' or NUL and the names '.'/'..' are not file names.",
}


def names(l):
    return sorted(bytes(x) for x in l)


def judge_name(c, g):
    bad = []
    name, lock = bytes(c["name"]), bytes(c["lock"])
    sub = b"sub/" if c["nested"] else b""
    if "acquire_err" in g:
        return ["acquire failed: " + g["acquire_err"]]
    if bytes(g["lock_name"]) != lock or not g["lock_parent_ok"]:
        bad.append("lock_path() is %r, expected %r" % (bytes(g["lock_name"]), lock))
    if "resource_path_panic" in g:
        bad.append("resource_path() panicked: " + g["resource_path_panic"])
    elif bytes(g["resource_name"]) != name or not g["resource_path_ok"]:
        bad.append("resource_path() is %r, expected %r" % (bytes(g["resource_name"]), name))
    want_acq = sorted(([b"sub/"] if c["nested"] else []) + [sub + name, sub + lock])
    if names(g["after_acquire"]) != want_acq:
        bad.append("files while holding: %r, expected %r" % (names(g["after_acquire"]), want_acq))
    if g["second_acquire_ok"]:
        bad.append("a second holder acquired the same resource")
    want_commit = sorted(([b"sub/"] if c["nested"] else []) + [sub + name])
    if g["commit"] != "ok" or names(g["after_commit"]) != want_commit or bytes(g["content_after_commit"]) != b"new":
        bad.append("after commit: %s, files %r content %r; expected exactly %r holding 'new'" % (
            g["commit"], names(g["after_commit"]), bytes(g["content_after_commit"]), want_commit))
    if "marker_err" in g:
        bad.append("marker acquire failed: " + g["marker_err"])
    else:
        if bytes(g["marker_lock_name"]) != lock:
            bad.append("marker lock_path() is %r, expected %r" % (bytes(g["marker_lock_name"]), lock))
        want = sorted(([b"sub/"] if c["nested"] else []) + [sub + lock])
        if names(g["after_marker_acquire"]) != want:
            bad.append("files while holding marker: %r, expected %r" % (names(g["after_marker_acquire"]), want))
        if not g.get("boundary_exists_after_drop", True):
            bad.append("dropping the lock removed the boundary directory itself (boundary spelling %d)" % c.get("bstyle", 0))
        if names(g["after_marker_drop"]) != names(g["before_marker"]):
            bad.append("drop left something behind: %r" % names(g["after_marker_drop"]))
    return bad


def run(ctx):
    binary = ctx.build("vh-c22")
    if ctx.thorough:
        ctx.tlc_mc("lock", "Lock", timeout=3000, must_cover=["Start", "Mkdir", "Create", "CleanupFailed", "Write", "Commit", "Unlink", "Rmdir"])
    else:
        ctx.tlc_mc("lock", "Lock", consts={"Procs": "{p1, p2}", "MaxOps": 3}, timeout=1200,
                   must_cover=["Start", "Mkdir", "Create", "CleanupFailed", "Write", "Commit", "Unlink", "Rmdir"])
    # names
    cases = ctx.tlc_gen("lock", "LockName_Gen", consts={"MaxToks": 3 if not ctx.thorough else 4})
    full = []
    for c in cases:
        for nested in (False, True):
            # the boundary directory is spelled plainly, with a trailing slash, with `/.` or with `//`
            full.append(dict(c, op="name", nested=nested, bstyle=(len(full) // 2) % 4 if nested else 0))
    res = ctx.harness(binary, full)
    for c, r in zip(full, res):
        bad = judge_name(c, r["got"]) if "got" in r else ["crashed: %s" % json.dumps(r)[:200]]
        try:
            bytes(c["name"]).decode("utf-8")
            utf8 = True
        except UnicodeDecodeError:
            utf8 = False
        if not utf8 or b"." in bytes(c["name"]):
            ctx.nontrivial(bytes(c["name"]) + (b"/n" if c["nested"] else b""))
        if bad:
            ctx.violation({"kind": "name", "case": c, "name_repr": repr(bytes(c["name"])), "utf8": utf8, "mismatch": bad})
    ctx.sample({"name": repr(bytes(full[len(full) // 2]["name"])), "lock": repr(bytes(full[len(full) // 2]["lock"]))})
    # call sequences
    calls = ctx.tlc_gen("lock", "LockCalls_Gen", consts={"MaxCalls": 5 if not ctx.thorough else 6})
    for c in calls:
        c["op"] = "calls"
    res = ctx.harness(binary, calls)
    for c, r in zip(calls, res):
        if "got" not in r:
            ctx.violation({"kind": "calls", "case": c, "mismatch": ["crashed: %s" % json.dumps(r)[:200]]})
            continue
        for k, (want, got) in enumerate(zip(c["calls"], r["got"])):
            w = {"content": want["state"]["content"], "locks": sorted(want["state"]["locks"]), "dir": want["state"]["dir"]}
            g = {"content": got["state"]["content"], "locks": sorted(got["state"]["locks"]), "dir": got["state"]["dir"]}
            if got["outcome"] != want["outcome"] or g != w:
                ctx.violation({"kind": "calls", "case": c, "call_index": k,
                               "mismatch": ["call %d (%s %s %s): got %s %s, model %s %s" % (k, want["p"], want["op"], want["r"], got["outcome"], g, want["outcome"], w)]})
                break
        if any(x["outcome"] == "locked" for x in c["calls"]):
            ctx.nontrivial(json.dumps(c["calls"], sort_keys=True))
    ctx.sample({"calls": [(x["p"], x["op"], x["r"], x["outcome"]) for x in calls[len(calls) // 2]["calls"]]})
    ctx.cov["exhaustive"] = True
    # stress
    runs = [{"op": "stress", "threads": t, "iters": 300 if not ctx.thorough else 3000, "seed": ctx.seed + i, "nested": bool(i % 2)}
            for i, t in enumerate([2, 3, 8, 16] if not ctx.thorough else [2, 3, 4, 8, 8, 16, 16, 32])]
    res = ctx.harness(binary, runs, timeout=1200)
    events = []
    for c, r in zip(runs, res):
        if "got" not in r:
            ctx.violation({"kind": "stress", "case": c, "mismatch": ["crashed: %s" % json.dumps(r)[:200]]})
            continue
        g = r["got"]
        if g["errors"]:
            ctx.violation({"kind": "stress", "case": c, "mismatch": ["unexpected errors: %s" % g["errors"][:3]]})
        left = names(g["leftover"])
        want_left = ([b"d/", b"d/nested"] if c["nested"] else [b"top"]) if g["commits"] else []
        if left != want_left:
            ctx.violation({"kind": "stress", "case": c, "mismatch": ["left behind %r, expected %r" % (left, want_left)]})
        events.append({"ev": "reset", "t": -1, "final": 0, "commits": 0})
        events += [{"ev": e["ev"], "t": e["t"], "final": 0, "commits": 0} for e in g["events"]]
        events.append({"ev": "final", "t": -1, "final": g["final"], "commits": g["commits"]})
        ctx.nontrivial("stress-%d-%d" % (c["threads"], c["seed"]))
    rej = ctx.tlc_trace("lock", "Lock_Trace", events, timeout=1200)
    if rej:
        ctx.violation({"kind": "stress-trace", "case": {"runs": runs}, "event_index": rej[0], "event": events[rej[0]],
                       "context": events[max(0, rej[0] - 4):rej[0] + 1], "mismatch": ["trace rejected by Lock_Trace: two holders or lost update"]})
    ctx.cov["stress_events"] = len(events)
    ctx.cov["rule"] = ("Names: all strings of <= %d tokens over an 11-token byte alphabet x {top-level, nested}; calls: every sequence of %d API calls "
                       "of 2 holders x 2 resources; stress: %d runs. Non-trivial = non-UTF-8 or dotted name; call sequence with a refused acquisition; "
                       "each stress run. Distinct by input." % (3 if not ctx.thorough else 4, 5 if not ctx.thorough else 6, len(runs)))


def replay(ctx, rec):
    binary = ctx.build("vh-c22")
    c = rec["case"]
    if c.get("op") == "name":
        r = ctx.harness(binary, [c])[0]
        bad = judge_name(c, r["got"]) if "got" in r else ["crashed"]
        if bad:
            ctx.violation({"kind": "name", "case": c, "mismatch": bad})
    elif c.get("op") == "calls":
        r = ctx.harness(binary, [c])[0]
        for k, (want, got) in enumerate(zip(c["calls"], r.get("got", []))):
            if got["outcome"] != want["outcome"] or sorted(got["state"]["locks"]) != sorted(want["state"]["locks"]) or \
               got["state"]["content"] != want["state"]["content"] or got["state"]["dir"] != want["state"]["dir"]:
                ctx.violation({"kind": "calls", "case": c, "call_index": k, "mismatch": ["replayed"]})
                break
    else:
        ctx.log("stress findings are re-run by the quick tier")
