"""C17 - Reference transactions terminate under lock contention.

spec/ref/RefTxPrepare.tla is the control flow of Transaction::prepare over the split edits when lock
files are already held (Fail::Immediately): the walk over the edits and, on a failed lock, the walk up
the parent chain naming the user-visible reference. TLC checks `Terminates` (liveness under weak
fairness) and `ReportsRoot` for every split forest of <= 4 edits and every set of held locks; the
self-test shows that the loop as written at the pinned commit (Bug_ParentWalk) violates `Terminates`.
 A: every (store, mode, transaction) of RefStore_Gen whose PossibleLocks (spec) is non-trivial is run
    with lock files of a subset of those locks pre-created by "another party": the real prepare/commit
    must return within a deadline (normal: milliseconds; deadline: 30 s, re-run in isolation), a failure
    must leave the store as it was (RefStore.ApplyTx's "before" map, seen by a fresh handle and by
    iteration) with only the foreign lock files present and untouched; a success must be the model's
    "after" map.
"""
from vf import *
import refstore as rs

LEVEL = "model_checking"
META = {
    "technique": "TLC liveness check of a TLA+ model of prepare's lock/parent-walk loops; TLC-enumerated transactions x held-lock subsets executed in gix-ref under a deadline",
    "note": "Termination of the real code is observed under a deadline (30 s against a normal run time of milliseconds), not proved; only Fail::Immediately is enumerated in the quick tier, back-off (Fail::AfterDurationWithBackoff) is exercised in the thorough tier. Trusted: TLC, the deadline.",
}


def subsets(xs):
    xs = list(xs)
    out = []
    for m in range(1, 1 << len(xs)):
        out.append([xs[i] for i in range(len(xs)) if m >> i & 1])
    return out


def run(ctx):
    binary = ctx.build("vh-c16")
    env = rs.template(ctx)
    r = ctx.tlc_mc("ref", "RefTxPrepare", must_cover=["TryLock", "Walk", "AllLocked"])
    ctx.tlc_mc("ref", "RefTxPrepare", consts={"Bug_ParentWalk": "TRUE"}, expect_violation="<temporal>", coverage=False)
    cases = ctx.tlc_gen("ref", "RefStore_Gen", consts={"Plan": 1}, timeout=3000)
    cases.sort(key=lambda c: json.dumps(c, sort_keys=True))
    picked = []
    for c in cases:
        # the interesting ones: an edit is split (more than one per-ref lock), or packed-refs takes part
        if len(c["locks"]) < 3 and not ctx.thorough and ctx.rng.random() > 0.04:
            continue
        for held in subsets(sorted(c["locks"])):
            if not ctx.thorough and len(c["locks"]) >= 3 and ctx.rng.random() > 0.25:
                continue
            d = dict(c)
            d["op"] = "tx"
            d["git"] = False
            d["held"] = held
            picked.append(d)
    ctx.log("%d (transaction, held locks) pairs" % len(picked))
    hangs = 0
    pos = 0
    chunk = 400
    while pos < len(picked) and hangs < 2:
        part = picked[pos:pos + chunk]
        pos += chunk
        results = ctx.harness(binary, part, timeout=30 + len(part) // 10, env=env, max_failures=2)
        for c, r in zip(part, results):
            ctx.nontrivial(json.dumps([c["loose"], c["packed"], c["mode"], c["edits"], c["held"]], sort_keys=True))
            if r.get("skipped"):
                continue
            if "got" not in r:
                if r.get("hang"):
                    hangs += 1
                ctx.violation({"kind": "hang" if r.get("hang") else "crash", "case": c, "result": r, "deref": c["edits"][0]["deref"],
                               "what": "prepare/commit did not return within the deadline" if r.get("hang") else "crashed"})
                continue
            g = r["got"]
            bad = []
            if g["ok"] and c["verdict"] == "err":
                bad.append("model: transaction must fail; implementation succeeded")
            want = dict(c)
            want["verdict"] = "either"
            bad += rs.judge_tx(want, r, held=c["held"])
            if bad:
                ctx.violation({"kind": "locked-tx", "case": c, "mismatch": bad, "classes": rs.classes(bad), "result": g})
    ctx.sample({k: picked[len(picked) // 2][k] for k in ("loose", "mode", "edits", "held", "locks")})
    ctx.cov["exhaustive"] = bool(ctx.thorough)
    ctx.cov["rule"] = ("RefTxPrepare model-checked for all split forests of <= 4 edits x held-lock sets (liveness + self-test mutant). "
                       "Executions: transactions of RefStore_Gen plan 1 x non-empty subsets of the spec's PossibleLocks "
                       "(%s). Non-trivial: every pair (a lock the transaction may need is held); distinct by (store, mode, edit, held)."
                       % ("all" if ctx.thorough else "all subsets for a seeded 25% of split transactions, 4% of the others"))
    ctx.assumptions += ["a missed 30 s deadline (normal duration: milliseconds) is taken as non-termination"]


def replay(ctx, rec):
    binary = ctx.build("vh-c16")
    env = rs.template(ctx)
    c = rec["case"]
    r = ctx.harness(binary, [c], timeout=30, env=env)[0]
    if "got" not in r:
        ctx.violation({"kind": "hang" if r.get("hang") else "crash", "case": c, "result": r, "what": "replayed"})
        return
    want = dict(c)
    want["verdict"] = "either"
    bad = rs.judge_tx(want, r, held=c["held"])
    if r["got"]["ok"] and c["verdict"] == "err":
        bad.append("model: transaction must fail; implementation succeeded")
    if bad:
        ctx.violation({"kind": "locked-tx", "case": c, "mismatch": bad, "classes": rs.classes(bad), "result": r["got"]})
