"""C10 - Indexing a received pack matches git index-pack.

spec/pack/ThinPack.tla: completing a thin pack on the fly (insert missing bases before first use, rewrite
REF_DELTA to OFS_DELTA, shift offsets, adjust header lengths) as a step machine with the invariants Good
(contiguous, no ref-deltas, every distance lands on the entry holding the base object, ids unique, input
preserved) and ErrJustified; spec/pack/IndexPack.tla: index = entries sorted by id; the writer as a state machine
(tempfiles, threads resolving the delta tree in any interleaving, faults, .keep, renames) with ExactlyOnce,
BaseFirst, StreamFaultLeavesNothing, NoPairAfterFailure, Terminates. Both model-checked by TLC on every run
(and their Bug_* switches shown to violate the invariants).
 A: ThinPack_Gen enumerates small thin-pack shapes (<= 3 entries; base / ofs-delta / ref-delta to an earlier
    in-pack entry, to an object only the receiver has, to a missing object; small and > 127 byte bodies; receiver
    owning in-pack ids too); the driver renders each as a real pack and gitoxide stores it
    (Bundle::write_to_directory with a base lookup). Verdict and structure of the stored pack vs TLC's expectation.
 B: the stored pack's entries (parsed by the driver, ids from git) are judged by ThinPack_Trace (exact offsets,
    header lengths, distances); packs from `git pack-objects` (full / --thin, with and without
    --delta-base-offset) for seeded histories are stored at thread limits 1..16 and judged by IndexPack_Trace:
    idx entries = sort-by-id of (id, offset, crc) derived by git from the stored pack, every object decodable
    with the right hash, ids = what `git index-pack [--fix-thin]` derives for the stream, idx byte-identical to
    git's (and the pack to the input for non-thin packs), directory listing = before + {pack, idx, keep}.
    Fault half: truncations at entry boundaries +-1 and random byte flips must be rejected and leave the
    directory listing unchanged.
 C: `git index-pack --fix-thin` on the rendered shapes audits the specification's verdict and object set;
    corrupted streams are also rejected by git.
"""
import hashlib
import os
import struct
import subprocess
import zlib
from vf import *

LEVEL = "model_checking"
META = {
    "technique": "TLA+ models of thin-pack completion and of the pack/index writer checked by TLC (offset/distance invariants, exactly-once resolution under every interleaving, no half-written pair after faults); TLC-enumerated thin-pack shapes rendered as real packs and stored by gix-pack; stored packs parsed and judged by TLC trace specs; git index-pack as evaluator and auditor",
    "note": "Shapes: <= 3 entries (blobs), toy lengths in the model, real lengths judged in the trace. git-made packs: seeded fast-import histories (20-250 objects). SHA-1, zlib and CRC32 are uninterpreted (hashlib/zlib/git supply values). Real thread schedules are observed, not enumerated (the model covers interleavings). Packs > 2 GiB, sha256 and index v1 are not covered. Without a base lookup REF_DELTA entries are documented as unsupported (index::File::write_data_iter_to_stream docs): judged as 'must be rejected cleanly'.",
}

TYPE_NAMES = {1: "commit", 2: "tree", 3: "blob", 4: "tag"}


# ------------------------------------------------------------------ pack bytes (data movement; zlib/sha1/crc are evaluators)
def enc_size(typ, n):
    b = (typ << 4) | (n & 15)
    n >>= 4
    out = bytearray()
    while n:
        out.append(b | 0x80)
        b = n & 0x7f
        n >>= 7
    out.append(b)
    return bytes(out)


def enc_ofs(d):
    out = [d & 0x7f]
    d >>= 7
    while d:
        d -= 1
        out.append(0x80 | (d & 0x7f))
        d >>= 7
    return bytes(reversed(out))


def varint(n):
    out = bytearray()
    while True:
        b = n & 0x7f
        n >>= 7
        if n:
            out.append(b | 0x80)
        else:
            out.append(b)
            return bytes(out)


def make_delta(base, target):
    """copy the whole base, then insert the rest of target (target starts with base)"""
    assert target.startswith(base) and 0 < len(base) < 0x10000
    d = bytearray(varint(len(base)) + varint(len(target)))
    d += bytes([0x80 | 0x10 | 0x20, len(base) & 0xff, (len(base) >> 8) & 0xff]) if len(base) > 0xff else bytes([0x80 | 0x10, len(base)])
    rest = target[len(base):]
    for i in range(0, len(rest), 127):
        chunk = rest[i:i + 127]
        d.append(len(chunk))
        d += chunk
    return bytes(d)


def blob_id(content):
    return hashlib.sha1(b"blob %d\x00" % len(content) + content).hexdigest()


def parse_pack(data):
    """-> entries [{off, sz, hdr, body, kind, dist, base, type}] of a pack stream"""
    if data[:4] != b"PACK":
        raise ToolError("not a pack")
    n = struct.unpack(">I", data[8:12])[0]
    pos = 12
    out = []
    for _ in range(n):
        off = pos
        c = data[pos]
        pos += 1
        typ = (c >> 4) & 7
        while c & 0x80:
            c = data[pos]
            pos += 1
        sz = pos - off
        dist, base = 0, ""
        if typ == 6:
            c = data[pos]
            pos += 1
            dist = c & 0x7f
            while c & 0x80:
                c = data[pos]
                pos += 1
                dist = ((dist + 1) << 7) | (c & 0x7f)
        elif typ == 7:
            base = data[pos:pos + 20].hex()
            pos += 20
        hdr = pos - off
        d = zlib.decompressobj()
        d.decompress(data[pos:])
        if not d.eof:
            raise ToolError("pack entry at %d: zlib stream incomplete" % off)
        body = len(data) - pos - len(d.unused_data)
        pos += body
        out.append({"off": off, "sz": sz, "hdr": hdr, "body": body, "kind": "ofs" if typ == 6 else "ref" if typ == 7 else "base",
                    "dist": dist, "base": base, "type": typ})
    if pos + 20 != len(data):
        raise ToolError("pack has %d trailing bytes" % (len(data) - pos - 20))
    return out


def parse_idx(data):
    """idx v2 -> [(id hex, offset, crc hex)] in file order"""
    if data[:8] != b"\xfftOc\x00\x00\x00\x02":
        raise ToolError("not an idx v2")
    n = struct.unpack(">I", data[8 + 255 * 4:8 + 256 * 4])[0]
    p = 8 + 1024
    ids = [data[p + 20 * i:p + 20 * i + 20].hex() for i in range(n)]
    p += 20 * n
    crcs = [data[p + 4 * i:p + 4 * i + 4].hex() for i in range(n)]
    p += 4 * n
    offs = []
    p64 = p + 4 * n
    for i in range(n):
        o = struct.unpack(">I", data[p + 4 * i:p + 4 * i + 4])[0]
        if o & 0x80000000:
            o = struct.unpack(">Q", data[p64 + 8 * (o & 0x7fffffff):p64 + 8 * (o & 0x7fffffff) + 8])[0]
        offs.append(o)
    return list(zip(ids, offs, crcs))


def git_index_pack(ctx, pack_path):
    """git's index for a complete pack file -> (idx bytes, [(id, off, crc)])"""
    out = pack_path + ".gitidx"
    p = git(["index-pack", "-o", out, pack_path], cwd=ctx.work)
    if p.returncode != 0:
        return None, None
    data = open(out, "rb").read()
    os.remove(out)
    return data, parse_idx(data)


def hexl(h):
    return b2l(h.encode())


def tla_entries(entries, ids):
    """pack entries + offset->id map -> records for ThinPack_Trace"""
    return [{"off": e["off"], "sz": e["sz"], "hdr": e["hdr"], "body": e["body"], "kind": e["kind"], "dist": e["dist"],
             "base": e["base"], "id": ids.get(e["off"], "?%d" % e["off"])} for e in entries]


# ------------------------------------------------------------------ shapes (binding A)
def render_shape(ctx, case, rng):
    """TLC's structural case -> (pack bytes, input entries with ids, local objects {name: content}, id of every name)"""
    content, ids = {}, {}

    def rnd(n):
        return bytes(rng.randrange(256) for _ in range(n))
    for name, big in case["local"].items():
        if name.startswith("L"):
            content[name] = rnd(400 if big else 24)
    content["M"] = rnd(24)
    if "L1" not in content:
        content["L1"] = rnd(24)
    if "L2" not in content:
        content["L2"] = rnd(24)
    buf = bytearray(b"PACK" + struct.pack(">II", 2, len(case["entries"])))
    offs = []
    for i, e in enumerate(case["entries"]):
        name = "p%d" % (i + 1)
        offs.append(len(buf))
        if e["kind"] == "base":
            content[name] = rnd(400 if e["big"] else 24)
            buf += enc_size(3, len(content[name])) + zlib.compress(content[name])
            continue
        base_name = "p%d" % e["j"] if e["kind"] == "ofs" else e["base"]
        base = content[base_name]
        content[name] = base + rnd(300 if e["big"] else 9)
        delta = make_delta(base, content[name])
        if e["kind"] == "ofs":
            buf += enc_size(6, len(delta)) + enc_ofs(offs[i] - offs[e["j"] - 1]) + zlib.compress(delta)
        else:
            buf += enc_size(7, len(delta)) + bytes.fromhex(blob_id(base)) + zlib.compress(delta)
    buf += hashlib.sha1(bytes(buf)).digest()
    for name, c in content.items():
        ids[name] = blob_id(c)
    local = {name: content[name] for name in case["local"]}
    return bytes(buf), offs, local, ids, content


def write_loose(objects_dir, content):
    h = blob_id(content)
    d = os.path.join(objects_dir, h[:2])
    os.makedirs(d, exist_ok=True)
    with open(os.path.join(d, h[2:]), "wb") as f:
        f.write(zlib.compress(b"blob %d\x00" % len(content) + content))
    return h


def listing(d):
    return sorted(os.listdir(d))


def fresh_dir(ctx, tag):
    d = os.path.join(ctx.work, "out", tag)
    shutil.rmtree(d, ignore_errors=True)
    os.makedirs(d)
    with open(os.path.join(d, "pack-old.pack"), "wb") as f:
        f.write(b"x")
    return d


def run_shapes(ctx, binary, cases, n_audit):
    rng = random.Random(ctx.seed)
    rendered, hcases = [], []
    for k, c in enumerate(cases):
        pack, offs, local, ids, content = render_shape(ctx, c, rng)
        pp = os.path.join(ctx.work, "shape-%05d.pack" % k)
        with open(pp, "wb") as f:
            f.write(pack)
        d = fresh_dir(ctx, "shape-%05d" % k)
        rendered.append((pack, offs, local, ids, content, pp, d))
        hcases.append({"op": "write", "pack": pp, "dir": d, "threads": 1 + k % 3, "lookup": "mem", "read": True,
                       "mem": [{"kind": "blob", "data": b2l(v)} for v in local.values()]})
    results = ctx.harness(binary, hcases, timeout=3000)
    thin_events, thin_owner, idx_events, idx_owner = [], [], [], []
    for k, (c, r, (pack, offs, local, ids, content, pp, d)) in enumerate(zip(cases, results, rendered)):
        rec = {"kind": "shape", "case": {"shape": c, "seed": ctx.seed, "index": k}, "shape_text": shape_text(c),
               "inpack_ref_base": any(e["kind"] == "ref" and e["base"].startswith("p") for e in c["entries"])}
        if "got" not in r:
            ctx.violation(dict(rec, classes=["crash"], what="storing the pack panicked/hung", result=r, panic=str(r.get("panic", ""))[:60]))
            continue
        g = r["got"]
        inp = parse_pack(pack)
        in_ids = {offs[i]: ids["p%d" % (i + 1)] for i in range(len(offs))}
        after = listing(d)
        out_entries, out_ids, gi = [], {}, None
        if g["ok"]:
            stored = open(os.path.join(d, g["made"][0]), "rb").read()
            gidx_bytes, gi = git_index_pack(ctx, os.path.join(d, g["made"][0]))
            if gi is None:
                ctx.violation(dict(rec, classes=["shape", "stored-pack-invalid"], what="git index-pack rejects the pack gitoxide stored"))
                continue
            out_entries = parse_pack(stored)
            out_ids = {off: i for (i, off, _c) in gi}
        # binding A: verdict and structure as TLC computed them from the abstract shape
        want_ok = c["verdict"] == "none"
        bad = []
        if g["ok"] != want_ok:
            bad.append("specification: %s; gitoxide: %s" % ("stored" if want_ok else "rejected (NotFound)", "stored" if g["ok"] else "error: " + g["err"]))
        elif g["ok"]:
            got_struct = []
            pos_of = {e["off"]: n + 1 for n, e in enumerate(out_entries)}
            for e in out_entries:
                got_struct.append({"id": out_ids.get(e["off"]), "kind": e["kind"],
                                   "basepos": pos_of.get(e["off"] - e["dist"], -1) if e["kind"] == "ofs" else 0})
            want_struct = [{"id": ids[x["id"]], "kind": x["kind"], "basepos": x["basepos"]} for x in c["expect"]]
            if got_struct != want_struct:
                bad.append("stored pack structure %s, specification %s" % (got_struct, want_struct))
        if bad:
            ctx.violation(dict(rec, classes=["shape", "structure" if g["ok"] == want_ok else "verdict"], mismatch=bad, err=g["err"],
                               what="thin-pack completion differs from the specification"))
        if any(e["kind"] == "ref" for e in c["entries"]):
            ctx.nontrivial("shape:" + json.dumps(c, sort_keys=True))
        # binding B: exact numbers judged by TLC
        thin_events.append({"input": tla_entries(inp, in_ids), "local": [ids[n] for n in c["local"]], "ok": g["ok"],
                            "output": tla_entries(out_entries, out_ids)})
        thin_owner.append(rec)
        if g["ok"]:
            ev = stored_event(g, gi, gidx_bytes, d, ["pack-old.pack"], after, want_ids=[ids[x["id"]] for x in c["expect"]], same_pack=True)
            idx_events.append(ev)
            idx_owner.append(rec)
        else:
            idx_events.append({"kind": "fault", "ok": False, "before": ["pack-old.pack"], "after": after})
            idx_owner.append(rec)
    for bi in ctx.tlc_trace("pack", "ThinPack_Trace", thin_events):
        ctx.violation(dict(thin_owner[bi], classes=["shape", "trace"], event=thin_events[bi],
                           what="the stored pack is not the specification's completion of the received pack"))
    judge_idx(ctx, idx_events, idx_owner)
    # binding C: git index-pack --fix-thin on the same streams
    step = max(1, len(cases) // max(1, n_audit))
    n = 0
    for k in range(0, len(cases), step):
        c = cases[k]
        pack, offs, local, ids, content, pp, d = rendered[k]
        repo = os.path.join(ctx.work, "audit-%05d.git" % k)
        git(["init", "-q", "--bare", repo], check=True)
        for v in local.values():
            write_loose(os.path.join(repo, "objects"), v)
        p = git(["index-pack", "--fix-thin", "--stdin"], cwd=repo, input=pack)
        ok = p.returncode == 0
        if ok != (c["verdict"] == "none"):
            audit_mismatch(ctx, "ThinPack verdict", {"shape": shape_text(c), "git": p.stderr.decode("utf-8", "replace")[-200:], "spec": c["verdict"]})
        if ok:
            name = p.stdout.decode().split()[-1]
            gi = parse_idx(open(os.path.join(repo, "objects", "pack", "pack-%s.idx" % name), "rb").read())
            if sorted(i for (i, _o, _c) in gi) != sorted(ids[x["id"]] for x in c["expect"]):
                audit_mismatch(ctx, "ThinPack objects", {"shape": shape_text(c), "git": sorted(i for (i, _o, _c) in gi)})
        shutil.rmtree(repo, ignore_errors=True)
        n += 1
    ctx.cov["shapes_audited_with_git_fix_thin"] = n
    for (_p, _o, _l, _i, _c, pp, d) in rendered:
        os.remove(pp)
        shutil.rmtree(d, ignore_errors=True)


def shape_text(c):
    parts = []
    for i, e in enumerate(c["entries"]):
        s = "p%d:%s" % (i + 1, e["kind"])
        if e["kind"] == "ofs":
            s += "->p%d" % e["j"]
        if e["kind"] == "ref":
            s += "->" + e["base"]
        parts.append(s + ("(big)" if e["big"] else ""))
    return " ".join(parts) + " | receiver has " + ",".join(sorted(c["local"])) + " | spec: " + c["verdict"]


def stored_event(g, gi, gidx_bytes, d, before, after, want_ids, same_pack):
    """event for IndexPack_Trace: gi = git's reading of the stored pack"""
    gix_idx = open(os.path.join(d, g["made"][1]), "rb").read()
    mine = parse_idx(gix_idx)
    by_off = sorted(gi, key=lambda t: t[1])
    readable = [o["id"] for o in g["objects"] if o.get("rehash") == o["id"]]
    return {"kind": "stored", "ok": True,
            "entries": [{"id": hexl(i), "off": o, "crc": c} for (i, o, c) in by_off],
            "idx": [{"id": hexl(i), "off": o, "crc": c} for (i, o, c) in mine],
            "readable": [hexl(i) for i in readable], "want_ids": [hexl(i) for i in want_ids],
            "same_bytes": gix_idx == gidx_bytes and same_pack,
            "before": before, "after": after, "made": [m or "" for m in g["made"]]}


def judge_idx(ctx, events, owners):
    for bi in ctx.tlc_trace("pack", "IndexPack_Trace", events):
        e = events[bi]
        slim = {k: v for k, v in e.items() if k not in ("entries", "idx", "readable", "want_ids")}
        if e["kind"] == "stored":
            slim.update(n_entries=len(e["entries"]), n_idx=len(e["idx"]), n_readable=len(e["readable"]), n_want=len(e["want_ids"]))
        ctx.violation(dict(owners[bi], classes=owners[bi].get("classes_hint", []) + ["index" if e["kind"] == "stored" else "fault"], event=slim,
                           what="stored index/bundle/directory differs from what the specification demands" if e["kind"] == "stored"
                           else "a truncated or corrupted stream was accepted or left files behind"))


# ------------------------------------------------------------------ git-made packs (binding B)
def make_history(ctx, seed, tag, scale=1):
    """src repository with a seeded history; recv = the state after the first half (the receiver)"""
    rng = random.Random(seed)
    src = os.path.join(ctx.work, "src-%s.git" % tag)
    recv = os.path.join(ctx.work, "recv-%s.git" % tag)
    git(["init", "-q", "--bare", src], check=True)
    files = {"f%d.txt" % i: ["line %d of file %d %s" % (j, i, "x" * rng.randint(0, 30)) for j in range(rng.randint(40, 120))] for i in range(rng.randint(3, 6) * scale)}
    ncommits = rng.randint(6, 12) * scale
    half = ncommits // 2

    def stream(lo, hi, first):
        out = []
        for k in range(lo, hi):
            for _ in range(rng.randint(1, 3)):
                name = rng.choice(sorted(files))
                lines = files[name]
                for _e in range(rng.randint(1, 4)):
                    lines[rng.randrange(len(lines))] = "changed in commit %d %s" % (k, "y" * rng.randint(0, 40))
                if rng.random() < 0.3:
                    lines.append("appended in %d" % k)
            if rng.random() < 0.2:
                files["new%d.bin" % k] = ["".join(chr(33 + rng.randrange(90)) for _c in range(200))]
            out.append("commit refs/heads/main\ncommitter C <c@x> %d +0000\ndata <<EOM\ncommit %d\nEOM\n" % (1000000000 + k, k))
            if k == lo and not first:
                out.append("from refs/heads/main^0\n")
            for name in sorted(files):
                body = "\n".join(files[name]) + "\n"
                out.append("M 100644 inline %s\ndata %d\n%s\n" % (name, len(body.encode()), body))
            if k == hi - 1 and rng.random() < 0.7:
                out.append("tag v%d\nfrom refs/heads/main\ntagger T <t@x> %d +0000\ndata <<EOM\ntag %d\nEOM\n" % (k, 1000000000 + k, k))
        return "".join(out).encode()
    git(["-c", "core.fsync=none", "fast-import", "--quiet"], cwd=src, input=stream(0, half, True), check=True)
    base = git(["rev-parse", "refs/heads/main"], cwd=src, check=True).stdout.decode().strip()
    subprocess.run(["cp", "-r", src, recv], check=True)
    git(["-c", "core.fsync=none", "fast-import", "--quiet"], cwd=src, input=stream(half, ncommits, False), check=True)
    tip = git(["rev-parse", "refs/heads/main"], cwd=src, check=True).stdout.decode().strip()
    # the receiver's objects as loose/packed by fast-import; make sure they are really there
    recv_ids = set(l.split()[0] for l in git(["cat-file", "--batch-all-objects", "--batch-check"], cwd=recv, check=True).stdout.decode().splitlines())
    return src, recv, base, tip, recv_ids


def pack_objects(src, revs, thin, ofs):
    args = ["pack-objects", "--revs", "--stdout", "-q", "--window=10", "--depth=10"]
    if thin:
        args.append("--thin")
    if ofs:
        args.append("--delta-base-offset")
    return git(args, cwd=src, input=("\n".join(revs) + "\n").encode(), check=True).stdout


def run_gitmade(ctx, binary, seeds, thread_sets, n_trunc, n_flips):
    stores, faults = [], []      # (record, harness case, context)
    for s in seeds:
        src, recv, base, tip, recv_ids = make_history(ctx, s, "s%d" % s, 3 if ctx.thorough and s % 2 == 0 else 1)
        variants = [("full-ofs", [tip], False, True), ("full-ref", [tip], False, False),
                    ("thin-ofs", [tip, "^" + base], True, True), ("thin-ref", [tip, "^" + base], True, False)]
        variants.append(("full-ofs-v3", [tip], False, True))
        for (vname, revs, thin, ofs) in variants:
            data = pack_objects(src, revs, thin, ofs)
            if vname.endswith("-v3"):
                # pack version 3 has the same layout as version 2 and git reads both
                body = data[:4] + struct.pack(">I", 3) + data[8:-20]
                data = body + hashlib.sha1(body).digest()
            pp = os.path.join(ctx.work, "git-%d-%s.pack" % (s, vname))
            with open(pp, "wb") as f:
                f.write(data)
            entries = parse_pack(data)
            # evaluator: what git index-pack derives for this stream (in a copy of the receiver for thin packs)
            tmp = os.path.join(ctx.work, "eval-%d-%s.git" % (s, vname))
            subprocess.run(["cp", "-r", recv if thin else os.path.join(ctx.work, "empty.git"), tmp], check=True)
            p = git(["index-pack", "--fix-thin", "--stdin"] if thin else ["index-pack", "--stdin"], cwd=tmp, input=data, check=True)
            name = p.stdout.decode().split()[-1]
            want_idx_bytes = open(os.path.join(tmp, "objects", "pack", "pack-%s.idx" % name), "rb").read()
            want = parse_idx(want_idx_bytes)
            shutil.rmtree(tmp, ignore_errors=True)
            in_ids = {o: i for (i, o, _c) in want if o < len(data) - 20}
            info = {"seed": s, "variant": vname, "entries": len(entries), "ref_deltas": sum(e["kind"] == "ref" for e in entries),
                    "ofs_deltas": sum(e["kind"] == "ofs" for e in entries)}
            ctx.log("history %d %s: %d entries, %d ofs-deltas, %d ref-deltas" % (s, vname, len(entries), info["ofs_deltas"], info["ref_deltas"]))
            has_ref = info["ref_deltas"] > 0
            inpack_ref = any(e["kind"] == "ref" and e["base"] in set(in_ids.values()) for e in entries)
            for lookup in (["odb", "none"] if not thin else ["odb"]):
                for t in (thread_sets if lookup == "odb" else thread_sets[:2]):
                    d = fresh_dir(ctx, "git-%d-%s-%s-%d" % (s, vname, lookup, t))
                    hc = {"op": "write", "pack": pp, "dir": d, "threads": t, "read": True,
                          "lookup": os.path.join(recv, "objects") if lookup == "odb" else "none", "mem": []}
                    rec = {"kind": "gitmade", "case": {"seed": s, "variant": vname, "lookup": lookup, "threads": t, "thorough": ctx.thorough}, "info": info,
                           "classes_hint": [vname, lookup], "inpack_ref_base": inpack_ref}
                    stores.append((rec, hc, {"data": data, "entries": entries, "in_ids": in_ids, "want": want, "want_idx": want_idx_bytes,
                                             "thin": thin, "has_ref": has_ref, "recv_ids": recv_ids, "dir": d, "lookup": lookup}))
            # fault half (stored the way a fetch does it: with the receiver's object database as base lookup)
            if vname in ("full-ofs", "thin-ofs"):
                rng = random.Random(s * 7 + len(vname))
                cuts = set()
                bounds = [e["off"] for e in entries] + [len(data) - 20, len(data) - 1]
                for b in rng.sample(bounds, min(n_trunc, len(bounds))):
                    cuts.update({b - 1, b, b + 1})
                muts = [("trunc", c) for c in sorted(cuts) if 0 < c < len(data)]
                muts += [("flip", rng.randrange(len(data))) for _ in range(n_flips)]
                muts.append(("version", 7))
                for kind, posn in muts:
                    bad = bytearray(data)
                    if kind == "trunc":
                        bad = bad[:posn]
                    elif kind == "version":
                        bad[7] = 3
                    else:
                        bad[posn] ^= 1 << rng.randrange(8)
                    bp = os.path.join(ctx.work, "bad-%d-%s-%s-%d.pack" % (s, vname, kind, posn))
                    with open(bp, "wb") as f:
                        f.write(bytes(bad))
                    d = fresh_dir(ctx, "bad-%d-%s-%s-%d" % (s, vname, kind, posn))
                    hc = {"op": "write", "pack": bp, "dir": d, "threads": 2, "read": False, "lookup": os.path.join(recv, "objects"), "mem": []}
                    rec = {"kind": "fault", "case": {"seed": s, "variant": vname, "mutation": kind, "at": posn, "n_trunc": n_trunc, "n_flips": n_flips,
                                                     "thorough": ctx.thorough}, "classes_hint": [kind]}
                    faults.append((rec, hc, {"dir": d, "path": bp, "recv": recv, "thin": thin}))
    results = ctx.harness(binary, [h for (_r, h, _c) in stores] + [h for (_r, h, _c) in faults], timeout=3000)
    idx_events, owners, thin_events, thin_owners = [], [], [], []
    for (rec, hc, cx), r in zip(stores, results[:len(stores)]):
        if "got" not in r:
            ctx.violation(dict(rec, classes=["crash"], what="storing the pack panicked/hung", result=r, panic=str(r.get("panic", ""))[:60]))
            continue
        g = r["got"]
        after = listing(cx["dir"])
        ctx.nontrivial("git:%s" % json.dumps(rec["case"], sort_keys=True))
        if cx["lookup"] == "none" and cx["has_ref"]:
            # documented: without a base lookup REF_DELTA entries are not supported -> must be rejected cleanly
            idx_events.append({"kind": "fault", "ok": g["ok"], "before": ["pack-old.pack"], "after": after})
            owners.append(dict(rec, classes_hint=rec["classes_hint"] + ["ref-delta-without-lookup"]))
            continue
        if not g["ok"]:
            ctx.violation(dict(rec, classes=rec["classes_hint"] + ["rejected"], err=g["err"],
                               what="gitoxide rejects a pack that git index-pack%s indexes" % (" --fix-thin" if cx["thin"] else "")))
            continue
        stored_path = os.path.join(cx["dir"], g["made"][0])
        stored = open(stored_path, "rb").read()
        gidx_bytes, gi = git_index_pack(ctx, stored_path)
        if gi is None:
            ctx.violation(dict(rec, classes=rec["classes_hint"] + ["stored-pack-invalid"], what="git index-pack rejects the pack gitoxide stored"))
            continue
        same_pack = True
        if not cx["thin"]:
            # non-thin: the stored pack is the stream, and the index is byte for byte git's
            same_pack = stored == cx["data"] and open(os.path.join(cx["dir"], g["made"][1]), "rb").read() == cx["want_idx"]
        ev = stored_event(g, gi, gidx_bytes, cx["dir"], ["pack-old.pack"], after, want_ids=[i for (i, _o, _c) in cx["want"]], same_pack=same_pack)
        idx_events.append(ev)
        owners.append(rec)
        if cx["lookup"] == "odb" and hc["threads"] == 1:
            refbases = sorted({e["base"] for e in cx["entries"] if e["kind"] == "ref"})
            out_entries = parse_pack(stored)
            thin_events.append({"input": tla_entries(cx["entries"], cx["in_ids"]), "local": [b for b in refbases if b in cx["recv_ids"]],
                                "ok": True, "output": tla_entries(out_entries, {o: i for (i, o, _c) in gi})})
            thin_owners.append(rec)
    n_git_rejects = 0
    for k, ((rec, hc, cx), r) in enumerate(zip(faults, results[len(stores):])):
        if "got" not in r:
            ctx.violation(dict(rec, classes=["crash"], what="storing a corrupted stream panicked/hung", result=r, panic=str(r.get("panic", ""))[:60]))
            continue
        idx_events.append({"kind": "fault", "ok": r["got"]["ok"], "before": ["pack-old.pack"], "after": listing(cx["dir"])})
        owners.append(rec)
        ctx.nontrivial("fault:%s" % json.dumps(rec["case"], sort_keys=True))
        if k % 4 == 0:
            tmp = os.path.join(ctx.work, "evalbad.git")
            shutil.rmtree(tmp, ignore_errors=True)
            subprocess.run(["cp", "-r", cx["recv"], tmp], check=True)
            p = git(["index-pack", "--fix-thin", "--stdin"], cwd=tmp, input=open(cx["path"], "rb").read())
            if p.returncode == 0:
                audit_mismatch(ctx, "fault domain", {"case": rec["case"], "why": "git index-pack accepts this corrupted stream"})
            n_git_rejects += 1
    ctx.cov["corrupted_streams_also_rejected_by_git"] = ctx.cov.get("corrupted_streams_also_rejected_by_git", 0) + n_git_rejects
    judge_idx(ctx, idx_events, owners)
    for bi in ctx.tlc_trace("pack", "ThinPack_Trace", thin_events):
        e = thin_events[bi]
        ctx.violation(dict(thin_owners[bi], classes=thin_owners[bi]["classes_hint"] + ["trace"],
                           what="the stored pack is not the specification's completion of the received pack",
                           event={"input": e["input"][:8], "output": e["output"][:8], "local": e["local"][:8]}))
    ctx.cov["packs_stored"] = ctx.cov.get("packs_stored", 0) + len(stores)
    ctx.cov["fault_streams"] = ctx.cov.get("fault_streams", 0) + len(faults)


def models(ctx):
    n = 4 if ctx.thorough else 3
    ctx.tlc_mc("pack", "ThinPack_Gen", cfg="ThinPack_MC.cfg", consts={"N": n}, workers=6, must_cover=["Add", "Finish"])
    ctx.tlc_mc("pack", "ThinPack_Gen", cfg="ThinPack_MC.cfg", consts={"N": 3, "Bug_RefBaseOnlyAmongInserted": "TRUE"}, workers=4,
               expect_violation="InvErr", coverage=False)
    for shape in ((1, 2, 3) if ctx.thorough else (1,)):
        ctx.tlc_mc("pack", "IndexPack_MC", consts={"Shape": shape}, workers=4,
                   must_cover=["StreamFail", "ResolveFail", "Claim", "Finish", "WriteIdx", "Keep"])
    ctx.tlc_mc("pack", "IndexPack_MC", consts={"Bug_TempfilesNotRemoved": "TRUE"}, workers=2, expect_violation="StreamFaultLeavesNothing", coverage=False)


def run(ctx):
    binary = ctx.build("vh-c10")
    git(["init", "-q", "--bare", os.path.join(ctx.work, "empty.git")], check=True)
    models(ctx)
    cases = ctx.tlc_gen("pack", "ThinPack_Gen", workers=6)
    cases.sort(key=lambda c: json.dumps(c, sort_keys=True))
    ctx.cov["shapes_enumerated"] = len(cases)
    if not ctx.thorough:
        small = [c for c in cases if len(c["entries"]) <= 2]
        big = [c for c in cases if len(c["entries"]) > 2]
        ctx.rng.shuffle(big)
        cases = small[::2] + big[:150]
    ctx.cov["shapes_executed"] = len(cases)
    ctx.cov["exhaustive"] = True
    run_shapes(ctx, binary, cases, 25 if not ctx.thorough else 200)
    ctx.sample({"shape": shape_text(cases[len(cases) // 2]), "expected": cases[len(cases) // 2]["expect"]})
    seeds = [ctx.seed * 100 + i for i in range(2 if not ctx.thorough else 10)]
    run_gitmade(ctx, binary, seeds, [1, 2, 3, 8, 16] if ctx.thorough else [1, 4, 16], 6 if not ctx.thorough else 40, 12 if not ctx.thorough else 200)
    classes = {}
    for v in ctx.violations:
        k = "%s %s inpack_ref_base=%s %s" % (v["kind"], "/".join(v.get("classes", [])), v.get("inpack_ref_base"), (v.get("err") or v.get("panic") or "")[:60])
        classes[k] = classes.get(k, 0) + 1
    ctx.cov["violation_classes"] = classes
    if classes:
        ctx.log("violation classes: %s" % json.dumps(classes, sort_keys=True))
    ctx.cov["rule"] = ("A: ThinPack_Gen shapes (<= 3 entries x kinds x base choices x size classes x receiver sets; thorough: all, quick: seeded sample) "
                       "rendered as real packs; B: git pack-objects packs (full/thin x ofs/ref deltas) of seeded histories stored at several thread "
                       "limits, plus truncations/bit flips. Non-trivial = shapes containing a ref-delta, every git-made store, every fault stream; "
                       "distinct by shape / (seed, variant, lookup, threads) / (seed, variant, mutation, position).")
    ctx.assumptions += ["git 2.39.5 index-pack / pack-objects / verify are the reference and the evaluator of ids and CRC32s",
                        "sha1 object format, pack version 2, index version 2",
                        "without a base lookup, REF_DELTA entries are documented as unsupported: only clean rejection is demanded there"]


def replay(ctx, rec):
    binary = ctx.build("vh-c10")
    git(["init", "-q", "--bare", os.path.join(ctx.work, "empty.git")], check=True)
    c = rec["case"]
    if rec["kind"] == "shape":
        # the rendering is seeded per run: re-render the whole prefix so that case `index` gets the same bytes
        ctx.seed = c["seed"]
        cases = ctx.tlc_gen("pack", "ThinPack_Gen", workers=6)
        cases = [x for x in cases if x == c["shape"]]
        if not cases:
            raise ToolError("replay: shape not in the generator's space")
        run_shapes(ctx, binary, cases, 1)
    else:
        if c.get("thorough"):
            ctx.tier = "thorough"      # the size of the seeded history depends on the tier
        run_gitmade(ctx, binary, [c["seed"]], [c.get("threads", 2)] if rec["kind"] == "gitmade" else [1], c.get("n_trunc", 6), c.get("n_flips", 12))
