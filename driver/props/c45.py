"""C45 - Text merges obey merge identities and never panic.

spec/history/Merge3.tla states the identities as predicates over one observed merge (no diff3
model): one side unchanged => the other side, cleanly; same change on both sides => that change;
conflict-free => no inserted marker lines; automatic resolutions are complete; ours/theirs
resolutions contain no fabricated lines, and only base/chosen-side lines where both sides rewrote
the whole base.
 A: Merge3_Gen enumerates triples (base <= N lines, each side <= k line edits, 5 terminator
    variants) and prints the expected result wherever an identity determines it; replayed through
    gix_merge::blob::builtin_driver::text under every option set (panics are caught per call).
 B: every observed merge (enumerated and seeded random 10..50-line texts) is judged by Merge3_Trace.
 Sanity of the identities: the same events produced by `git merge-file` must be accepted too.
"""
import collections
import os
from vf import *

LEVEL = "exploration"
META = {
    "technique": "TLA+ predicates (merge identities) judged by TLC on every merge the real driver performed; inputs enumerated by a TLC generator (line-edit triples x terminator variants) and seeded random texts; identities cross-checked on git merge-file",
    "note": "No diff3 model: results that no identity determines are only constrained (markers, fabricated lines). Labels/marker sizes/diff algorithms are varied as options.",
}


def opt(favor, style="merge", size=7, labels=False, algo="myers"):
    return {"favor": favor, "style": style, "size": size, "labels": labels, "algo": algo}


QUICK_OPTS = [opt("keep", "merge", 7), opt("keep", "diff3", 7, True), opt("keep", "zdiff3", 7), opt("keep", "merge", 1, True),
              opt("keep", "zdiff3", 20), opt("ours"), opt("theirs"), opt("union")]
THOROUGH_OPTS = QUICK_OPTS + [opt("keep", "diff3", 2), opt("keep", "merge", 13, True, "histogram"), opt("keep", "zdiff3", 5, True, "minimal"),
                              opt("ours", algo="histogram"), opt("theirs", algo="minimal"), opt("union", algo="histogram")]


def events_of(case, got):
    evs = []
    for o, g in zip(case["opts"], got):
        if "panic" in g:
            evs.append(None)
            continue
        evs.append({"base": case["base"], "ours": case["ours"], "theirs": case["theirs"], "favor": o["favor"], "style": o["style"],
                    "size": o["size"], "result": g["result"], "conflict": g["conflict"]})
    return evs


def broken_names(ctx, events):
    """ask TLC which identity each of the (rejected) events breaks"""
    if not events:
        return []
    path = os.path.join(ctx.work, "broken-%d.ndjson" % len(ctx.cov["tlc_runs"]))
    with open(path, "w") as f:
        for ev in events:
            f.write(json.dumps(ev, separators=(",", ":")) + "\n")
    out = ctx.tlc_gen("history", "Merge3_Broken", tag="BROKEN", workers=1, env={"TRACE": path}, timeout=3000)
    names = [""] * len(events)
    for o in out:
        names[o["i"] - 1] = o["broken"]
    return names


def txt(l):
    return show_bytes(l)


# ------------------------------------------------------------------ random texts (binding B)
VOCAB = [b"a", b"b", b"c", b"d", b"e", b"fn main() {", b"}", b"", b"=======", b"<<<<<<< ours", b">>>>>>>", b"|||||||", b"x = 1;", b"<", b"=="]


def random_triple(rng):
    n = rng.randint(0, 40)
    eol = rng.choice([b"\n", b"\n", b"\r\n"])
    base = [(rng.choice(VOCAB), eol if rng.random() < 0.9 else rng.choice([b"\n", b"\r\n"])) for _ in range(n)]

    def side():
        s = list(base)
        for _ in range(rng.choice([0, 1, 1, 2, 3, 5])):
            k = rng.random()
            if k < 0.35 or not s:
                s.insert(rng.randint(0, len(s)), (rng.choice(VOCAB), eol))
            elif k < 0.6:
                del s[rng.randrange(len(s))]
            elif k < 0.85:
                p = rng.randrange(len(s))
                s[p] = (rng.choice(VOCAB), s[p][1])
            elif k < 0.95:
                p = rng.randrange(len(s))
                s[p] = (s[p][0], b"\r\n" if s[p][1] == b"\n" else b"\n")
            else:
                s = [(rng.choice(VOCAB), eol) for _ in range(rng.randint(0, 5))]
        return s

    def render(s, noeol):
        b = b"".join(x + t for x, t in s)
        if noeol and s:
            b = b[: len(b) - len(s[-1][1])]
        return b

    o, t = side(), side()
    if rng.random() < 0.1:
        t = list(o)
    return [list(render(x, rng.random() < 0.25)) for x in (base, o, t)]


def random_opts(rng, k):
    out = []
    for _ in range(k):
        favor = rng.choice(["keep", "keep", "keep", "ours", "theirs", "union"])
        out.append(opt(favor, rng.choice(["merge", "diff3", "zdiff3"]), rng.randint(1, 20), rng.random() < 0.5,
                       rng.choice(["myers", "myers", "histogram", "minimal"])))
    return out


# ------------------------------------------------------------------ identities hold for git, too
def git_events(ctx, cases, limit):
    """the same merges by `git merge-file -p`: the identities must accept them (sanity of the spec)"""
    d = os.path.join(ctx.work, "gitmerge")
    os.makedirs(d, exist_ok=True)
    evs = []
    picks = cases if len(cases) <= limit else ctx.rng.sample(cases, limit)
    for c in picks:
        for name in ("base", "ours", "theirs"):
            with open(os.path.join(d, name), "wb") as f:
                f.write(bytes(c[name]))
        for o in (opt("keep", "merge", 7), opt("keep", "diff3", 9), opt("keep", "zdiff3", 7), opt("ours"), opt("theirs"), opt("union")):
            args = ["merge-file", "-p", "--marker-size=%d" % o["size"]]
            if o["favor"] == "keep":
                args += {"merge": [], "diff3": ["--diff3"], "zdiff3": ["--zdiff3"]}[o["style"]]
            else:
                args.append("--" + o["favor"])
            p = git(args + ["ours", "base", "theirs"], cwd=d)
            if p.returncode < 0 or p.returncode > 127:
                raise ToolError("git merge-file failed: %s" % p.stderr.decode("utf-8", "replace")[-300:])
            evs.append({"base": c["base"], "ours": c["ours"], "theirs": c["theirs"], "favor": o["favor"], "style": o["style"], "size": o["size"],
                        "result": list(p.stdout), "conflict": p.returncode != 0})
    return evs


def run(ctx):
    binary = ctx.build("vh-c45")
    if ctx.thorough:
        consts = {"MaxBase": 3, "MaxEdits": 1, "NSyms": 2}
        opts = QUICK_OPTS
    else:
        consts = {"MaxBase": 2, "MaxEdits": 1, "NSyms": 2, "Variants": '{"lf", "crlf_noeol", "mixed", "lf_ours_noeol", "lf_theirs_noeol"}'}
        opts = [QUICK_OPTS[i] for i in (0, 1, 4, 5, 6, 7)]
    cases = ctx.tlc_gen("history", "Merge3_Gen", consts=consts, workers=6, timeout=3000)
    for c in cases:
        c["opts"] = opts
    if ctx.thorough:
        more = ctx.tlc_gen("history", "Merge3_Gen", consts={"MaxBase": 2, "MaxEdits": 2, "NSyms": 3,
                                                            "Variants": '{"lf", "crlf_noeol", "lf_ours_noeol"}'}, workers=6, timeout=3000)
        for c in more:
            c["opts"] = THOROUGH_OPTS[8:] + [QUICK_OPTS[3]]
        cases += more
    ctx.cov["exhaustive"] = True
    n_rand = 3000 if ctx.thorough else 200
    rnd = []
    for _ in range(n_rand):
        b, o, t = random_triple(ctx.rng)
        rnd.append({"base": b, "ours": o, "theirs": t, "opts": random_opts(ctx.rng, 3), "determined": False, "expect": [], "variant": "random"})
    allc = cases + rnd
    results = ctx.harness(binary, [{k: c[k] for k in ("base", "ours", "theirs", "opts")} for c in allc], timeout=3000)

    events, owner = [], []
    n_det = n_panics = 0
    for ci, (c, r) in enumerate(zip(allc, results)):
        if "got" not in r:
            ctx.violation({"kind": "crash", "case": c, "result": r, "classes": ["crash"], "what": "executor crashed"})
            continue
        if c["ours"] != c["base"] and c["theirs"] != c["base"] and c["ours"] != c["theirs"]:
            ctx.nontrivial(json.dumps([c["base"], c["ours"], c["theirs"]]))
        for oi, (o, g, ev) in enumerate(zip(c["opts"], r["got"], events_of(c, r["got"]))):
            if ev is None:
                n_panics += 1
                ctx.violation({"kind": "panic", "case": dict(c, opts=[o]), "classes": ["panic"], "panic": g["panic"],
                               "texts": {k: txt(c[k]) for k in ("base", "ours", "theirs")}})
                continue
            # binding A: where an identity determines the outcome TLC printed it
            if c["determined"]:
                n_det += 1
                if g["result"] != c["expect"] or g["conflict"]:
                    ctx.violation({"kind": "gen", "case": dict(c, opts=[o]), "classes": ["determined-result"],
                                   "texts": {k: txt(c[k]) for k in ("base", "ours", "theirs")},
                                   "got": {"result": txt(g["result"]), "conflict": g["conflict"]}, "want": {"result": txt(c["expect"]), "conflict": False}})
            events.append(ev)
            owner.append((ci, oi))
    ctx.log("%d triples (%d enumerated, %d random) -> %d merges, %d panics, %d with a determined result compared (binding A)"
            % (len(allc), len(cases), len(rnd), len(events) + n_panics, n_panics, n_det))
    rej = ctx.tlc_trace("history", "Merge3_Trace", events, timeout=3000, xmx="8g")
    names = broken_names(ctx, [events[i] for i in rej])
    counts = collections.Counter(names)
    firsts = {}
    for i, name in zip(rej, names):
        ci, oi = owner[i]
        c = allc[ci]
        rec = {"kind": "trace", "case": dict(c, opts=[c["opts"][oi]]), "classes": [name], "event": events[i],
               "texts": {k: txt(c[k]) for k in ("base", "ours", "theirs")}, "got": {"result": txt(events[i]["result"]), "conflict": events[i]["conflict"]}}
        ctx.violation(rec)
        size = len(c["base"]) + len(c["ours"]) + len(c["theirs"])
        if name not in firsts or size < firsts[name][0]:
            firsts[name] = (size, rec)
    for name in sorted(counts):
        r = firsts[name][1]
        ctx.log("identity %s broken by %d merges; smallest: base=%r ours=%r theirs=%r opts=%s -> result=%r conflict=%s"
                % (name, counts[name], r["texts"]["base"], r["texts"]["ours"], r["texts"]["theirs"], json.dumps(r["case"]["opts"][0]),
                   r["got"]["result"], r["got"]["conflict"]))
    ctx.cov["broken_identities"] = dict(counts)
    ctx.cov["panics"] = n_panics
    ctx.sample({"base": txt(cases[len(cases) // 2]["base"]), "ours": txt(cases[len(cases) // 2]["ours"]), "theirs": txt(cases[len(cases) // 2]["theirs"]),
                "observed": results[len(cases) // 2].get("got", [None])[0]})

    # the identities are not stricter than what git itself does
    gev = git_events(ctx, cases + rnd, 500 if ctx.thorough else 60)
    grej = ctx.tlc_trace("history", "Merge3_Trace", gev, timeout=3000)
    ctx.cov["traces_validated_against_impl"] = max(0, ctx.cov["traces_validated_against_impl"] - 1)
    if grej:
        e = gev[grej[0]]
        audit_mismatch(ctx, "Merge3 identities vs git merge-file", {k: (txt(v) if isinstance(v, list) else v) for k, v in e.items()})
    ctx.log("sanity: the identities accept all %d merges performed by git merge-file" % len(gev))
    ctx.cov["git_audited"] = len(gev)

    ctx.cov["rule"] = ("A/B: every triple with a base of <= %s lines over %s symbols (incl. marker look-alikes), each side <= %s line edits, 5 terminator "
                       "variants (LF, CRLF, mixed, missing final newline), x %d option sets (styles, marker sizes 1..20, labels, ours/theirs/union, diff "
                       "algorithms); B: %d seeded random texts of 0..45 lines x 3 random option sets. Non-trivial = both sides differ from the base and "
                       "from each other; distinct by (base, ours, theirs)." % (consts["MaxBase"], consts["NSyms"], consts["MaxEdits"], len(opts), n_rand))
    ctx.assumptions += ["the identities are implementation independent; git merge-file is run on a sample to show they are not over-strict",
                        "a line is compared without its terminator where the merge may legitimately add one (markers, fabricated-line check)"]


def replay(ctx, rec):
    binary = ctx.build("vh-c45")
    c = rec["case"]
    r = ctx.harness(binary, [{k: c[k] for k in ("base", "ours", "theirs", "opts")}])[0]
    if "got" not in r:
        ctx.violation(dict(rec, result=r))
        return
    for o, g, ev in zip(c["opts"], r["got"], events_of(c, r["got"])):
        if ev is None:
            ctx.violation({"kind": "panic", "case": c, "classes": ["panic"], "panic": g["panic"]})
            continue
        if c.get("determined") and (g["result"] != c["expect"] or g["conflict"]):
            ctx.violation({"kind": "gen", "case": c, "classes": ["determined-result"], "got": {"result": txt(g["result"]), "conflict": g["conflict"]}})
            continue
        if ctx.tlc_trace("history", "Merge3_Trace", [ev]):
            ctx.violation({"kind": "trace", "case": c, "classes": broken_names(ctx, [ev]), "event": ev,
                           "got": {"result": txt(ev["result"]), "conflict": ev["conflict"]}})
