"""C56 - Streaming compression and hashing do not depend on chunking.

spec/misc/Deflate.tla     the abstract compressor (zlib's deflate() contract, nondeterministic), the
                          run-level rules derived from the loop model, LooseHeader and the digest rules
spec/misc/Deflate_MC.tla  PlusCal transcription of deflate::Write::write_inner + a caller that writes in
                          every chunking, flushes and resets; TLC checks AllConsumed, Accounted, SinkExact,
                          FinalOk (AbsInflate(sink) = data) and termination for every compressor the
                          contract admits; Bug_* switches are shown to violate them (self-test)
 A: Deflate_Gen enumerates write-size sequences around the 32 KiB buffer with the expected return
    values / totals / loose headers; replayed through the real deflate::Write (sink sees every chunk),
    stream::inflate::read, hash::Write, compute_hash, compute_stream_hash and the hash-over-deflate pipeline.
 B: seeded runs over data up to several MB in random write sizes; every run (A and B) is one event
    judged by Deflate_Trace. Inflate and SHA-1 are uninterpreted: Python zlib/hashlib evaluate them on
    the recorded bytes and their values enter the event as data.
 C: `git hash-object -t <kind> --literally --stdin` audits LooseHeader + the SHA-1 evaluator.
"""
import zlib
from vf import *

LEVEL = "model_checking"
META = {
    "technique": "PlusCal/TLA+ model of the write_inner loop against a nondeterministic abstract compressor, model-checked by TLC "
                 "(safety + termination, bug-switch self-tests); TLC-enumerated and seeded chunkings replayed through the real "
                 "writers/readers; recorded runs judged by a TLC trace module with zlib/SHA-1 as uninterpreted evaluators",
    "note": "partial: the compressor (flate2 backend) is not modelled, only its contract; per-iteration events of write_inner are "
            "not observable without a hook - the run is observed at the public interface (return values, every chunk the inner "
            "writer receives, the finished stream). Equality of multi-megabyte byte strings is decided via SHA-1 digests.",
}
B = 32768
DATA_LEN = 6 * 1024 * 1024
KINDS = ["blob", "tree", "commit", "tag"]
DATAKINDS = ["rand", "zero", "text", "mixed"]


def make_data(ctx, seed):
    """four data files (inputs; their content is immaterial to the rule): incompressible, constant, text-like, mixed"""
    r = random.Random(seed * 7919 + 13)
    paths = {}
    words = [bytes(r.choice(b"abcdefghijklmnopqrstuvwxyz") for _ in range(r.randint(2, 9))) for _ in range(300)]
    text = bytearray()
    while len(text) < DATA_LEN:
        text += b" ".join(r.choice(words) for _ in range(r.randint(1, 12))) + b"\n"
    rand = r.randbytes(DATA_LEN)
    mixed = bytearray()
    while len(mixed) < DATA_LEN:
        k = r.randint(1, 200000)
        c = r.random()
        o = r.randrange(0, DATA_LEN - k)
        mixed += rand[o:o + k] if c < 0.4 else (bytes(k) if c < 0.6 else text[o:o + k])
    for name, blob in (("rand", rand), ("zero", bytes(DATA_LEN)), ("text", bytes(text[:DATA_LEN])), ("mixed", bytes(mixed[:DATA_LEN]))):
        p = os.path.join(ctx.work, "data-%d-%s.bin" % (seed, name))
        if not os.path.exists(p):
            with open(p, "wb") as f:
                f.write(blob)
        paths[name] = p
    return paths


def schedule(r, total):
    """a random sequence of write sizes summing to `total` (input choice)"""
    style = r.choice(["around", "around", "tiny", "big", "mixed", "one"])
    sizes, left = [], total
    edge = [0, 1, 2, B - 1, B, B + 1, 2 * B - 1, 2 * B, 2 * B + 1, 65535, 65536, 65537, 3 * B]
    while left > 0 and len(sizes) < 3000:
        if style == "around":
            n = r.choice(edge) + (r.randint(-3, 3) if r.random() < 0.2 else 0)
        elif style == "tiny":
            n = r.randint(0, 64)
        elif style == "big":
            n = r.randint(200000, 2000000)
        elif style == "one":
            n = left
        else:
            n = int(2 ** r.uniform(0, 21))
        n = max(0, min(n, left))
        sizes.append(n)
        left -= n
    if left:
        sizes.append(left)
    if r.random() < 0.3:
        sizes.append(0)
    return sizes


def mk_case(ctx, r, paths, seed, sizes, tag, hdrs=None):
    total = sum(sizes)
    dk = r.choice(DATAKINDS)
    off = r.randrange(0, DATA_LEN - total + 1)
    kind = r.choice(KINDS)
    # flush + reset in the middle of some runs: several streams into the same inner writer
    streams = [sizes]
    if len(sizes) >= 2 and r.random() < 0.25:
        k = r.randint(1, len(sizes) - 1)
        streams = [sizes[:k], sizes[k:]]
    hdr = hdrs[kind] if hdrs else b2l(b"%s %d\x00" % (kind.encode(), total))   # candidate; checked by the spec (HashOk)
    c = {"data": paths[dk], "datakind": dk, "seed": seed, "off": off, "len": total, "streams": streams, "kind": kind, "hdr": hdr,
         "accept": [r.choice([1, 2, 7, 4096, B, 10 ** 9]) for _ in range(r.randint(1, 4))],
         "rd": [r.choice([1, 2, 3, 100, 4096, B - 1, B, B + 1, 10 ** 9]) for _ in range(r.randint(1, 3))],
         "dst": [r.choice([1, 5, 4096, B - 1, B, B + 1, 65536, 1 << 20]) for _ in range(r.randint(1, 3))],
         "tag": tag}
    # byte-at-a-time feeding of multi-megabyte sinks is needlessly slow
    if total > 300000:
        c["rd"] = [x for x in c["rd"] if x >= 100] or [4096]
        c["dst"] = [x for x in c["dst"] if x >= 4096] or [B]
        c["accept"] = [x for x in c["accept"] if x >= 4096] or [B]
    return c


def sha(b):
    return hashlib.sha1(b).hexdigest()


def evaluate(ctx, c, res):
    """Build the trace event of one run: what the real code reported + the evaluators' (zlib, SHA-1) values.
    Returns (event, None) or (None, crash-record)."""
    if "got" not in res:
        return None, {"kind": "crash", "case": c, "result": res, "classes": ["crash"], "what": "writer/reader panicked, hung or aborted"}
    g = res["got"]
    data = open(c["data"], "rb").read()[c["off"]:c["off"] + c["len"]]
    blob = open(c["out"], "rb").read()
    os.remove(c["out"])
    zl, gl, hl, pl = g["z_len"], sum(g["ginfl"]), g["hw_len"], g["pz_len"]
    if len(blob) != zl + gl + hl + pl:
        raise ToolError("executor output file has %d bytes, sections say %d" % (len(blob), zl + gl + hl + pl))
    z, ginfl, hwsink, pz = blob[:zl], blob[zl:zl + gl], blob[zl + gl:zl + gl + hl], blob[zl + gl + hl:]
    ev, gi = [], []
    rest, pos, gpos = z, 0, 0
    for i, sizes in enumerate(c["streams"]):
        n = sum(sizes)
        d = zlib.decompressobj()
        try:
            infl = d.decompress(rest)
            eof = d.eof
        except zlib.error:
            infl, eof = b"", False
        used = len(rest) - len(d.unused_data) if eof else len(rest)
        rest = d.unused_data if eof else b""
        ev.append({"len": used, "eof": eof, "infl_len": len(infl), "infl_sha": sha(infl), "in_sha": sha(data[pos:pos + n])})
        k = g["ginfl"][i] if i < len(g["ginfl"]) else 0
        gi.append({"len": k, "sha": sha(ginfl[gpos:gpos + k])})
        pos += n
        gpos += k
    while len(gi) < len(c["streams"]):
        gi.append({"len": -1, "sha": ""})
    hdr = l2b(c["hdr"])
    pd = zlib.decompressobj()
    try:
        pinfl = pd.decompress(pz)
        peof = pd.eof and not pd.unused_data
    except zlib.error:
        pinfl, peof = b"", False
    h = {"kind": c["kind"], "len": len(data), "hdr": c["hdr"], "h_data": sha(data), "h_obj": sha(hdr + data),
         "hw": g["hw"], "hw_sink": sha(hwsink), "ch": g["ch"], "sh": g["sh"], "pipe": g["pipe"],
         "pipe_infl": sha(pinfl), "pipe_eof": bool(peof) and "pipe_err" not in g}
    streams = []
    for s in g["streams"]:
        streams.append({"sizes": s["sizes"], "rets": [x if isinstance(x, int) else -1 for x in s["rets"]], "chunks": s["chunks"],
                        "fchunks": s["fchunks"], "fok": s["fok"]})
    e = {"streams": streams, "ev": ev, "unused": len(rest) + g.get("ginfl_rest", 0) + (1 if "ginfl_err" in g else 0),
         "ginfl": gi, "hash": h}
    return e, None


def hints(e):
    """non-authoritative description of a rejected event for the report (the verdict is TLC's)"""
    out = []
    for w, v, gi in zip(e["streams"], e["ev"], e["ginfl"]):
        if w["rets"] != w["sizes"]:
            out.append("short-write")
        if not w["fok"] or not v["eof"]:
            out.append("stream-not-ended")
        if v["infl_sha"] != v["in_sha"]:
            out.append("inflated-differs")
        if gi["sha"] != v["in_sha"]:
            out.append("gix-inflate-differs")
    h = e["hash"]
    for k, ref in (("hw", "h_data"), ("hw_sink", "h_data"), ("ch", "h_obj"), ("sh", "h_obj"), ("pipe", "h_obj"), ("pipe_infl", "h_obj")):
        if h[k] != h[ref]:
            out.append("digest-" + k)
    return sorted(set(out)) or ["other"]


def audit(ctx, cases, events, limit):
    """binding C: git's object id for (kind, data) = evaluator SHA-1 over the specification's header ++ data"""
    n = 0
    for c, e in zip(cases, events):
        if e is None or n >= limit:
            continue
        data = open(c["data"], "rb").read()[c["off"]:c["off"] + c["len"]]
        p = git(["hash-object", "-t", c["kind"], "--literally", "--stdin"], input=data, cwd=ctx.work)
        if p.returncode != 0:
            raise ToolError("git hash-object failed: %s" % p.stderr[-200:])
        if p.stdout.decode().strip() != e["hash"]["h_obj"]:
            audit_mismatch(ctx, "LooseHeader", {"kind": c["kind"], "len": c["len"], "git": p.stdout.decode().strip(), "spec": e["hash"]["h_obj"]})
        n += 1
    ctx.cov["git_audited"] = n
    ctx.log("audit: git hash-object agreed with LooseHeader + evaluator on %d objects" % n)


def execute(ctx, binary, cases):
    for i, c in enumerate(cases):
        c["out"] = os.path.join(ctx.work, "out-%d-%d.bin" % (len(os.listdir(ctx.work)), i))
    res = ctx.harness(binary, cases, timeout=1200)
    events, crashes = [], []
    for c, r in zip(cases, res):
        e, crash = evaluate(ctx, c, r)
        events.append(e)
        if crash:
            crashes.append(crash)
    return events, crashes


def strip(c):
    return {k: v for k, v in c.items() if k not in ("out",)}


def run(ctx):
    binary = ctx.build("vh-c56")
    # ---- the loop model
    if ctx.thorough:
        for cap in (1, 2, 3):
            ctx.tlc_mc("misc", "Deflate_MC", consts={"N": 5 if cap > 1 else 4, "Cap": cap, "Streams": 2 if cap == 2 else 1, "MaxEmpty": 2}, workers=6,
                       must_cover=["w0", "w1", "w2", "w3", "w4", "c1", "c2", "c3"])
    else:
        ctx.tlc_mc("misc", "Deflate_MC", workers=6, must_cover=["w0", "w1", "w2", "w3", "w4", "c1", "c2", "c3"])
    bugs = [("Bug_IgnoreOutProgress", "AllConsumed"), ("Bug_CountFromLast", "AllConsumed"), ("Bug_DropOnStreamEnd", "SinkExact")]
    for bug, inv in (bugs if ctx.thorough else bugs[:1]):
        ctx.tlc_mc("misc", "Deflate_MC", consts={bug: "TRUE"}, expect_violation=inv, coverage=False, workers=4)
    ctx.cov["exhaustive"] = True

    paths = make_data(ctx, ctx.seed)
    # ---- binding A
    gen = ctx.tlc_gen("misc", "Deflate_Gen", consts={"MaxWrites": 4, "Wide": "TRUE" if ctx.thorough else "FALSE"}, workers=4)
    gen.sort(key=lambda c: json.dumps(c["sizes"]))
    if ctx.thorough:
        # all sequences of <= 3 sizes, a seeded third of the 4-size ones
        gen = [c for c in gen if len(c["sizes"]) <= 3 or ctx.rng.random() < 0.3]
    cases = []
    for gcase in gen:
        hdrs = {k: gcase["hdr_" + k] for k in KINDS}
        c = mk_case(ctx, ctx.rng, paths, ctx.seed, gcase["sizes"], "gen", hdrs)
        c["expect_rets"] = gcase["rets"]
        c["expect_total"] = gcase["total"]
        cases.append(c)
    # ---- binding B inputs
    nrand = 14 if not ctx.thorough else 150
    for i in range(nrand):
        top = ctx.rng.choice([70000, 300000, 1 << 20, 4 << 20]) if i % 3 else ctx.rng.choice([3 << 20, 5 << 20])
        total = ctx.rng.randint(0, top)
        cases.append(mk_case(ctx, ctx.rng, paths, ctx.seed, schedule(ctx.rng, total), "rand"))
    events, crashes = execute(ctx, binary, cases)
    for cr in crashes:
        cr["case"] = strip(cr["case"])
        ctx.violation(cr)
    # A: the values the generator module printed
    for c, e in zip(cases, events):
        if e is None or c["tag"] != "gen":
            continue
        rets = [x for s in e["streams"] for x in s["rets"]]
        if rets != c["expect_rets"] or e["hash"]["hdr"] != c["hdr"] or sum(v["infl_len"] for v in e["ev"]) != c["expect_total"]:
            ctx.violation({"kind": "gen", "case": strip(c), "classes": hints(e), "rets": rets,
                           "what": "write() return values / inflated length differ from Deflate_Gen's expectation"})
    # B: every run judged by TLC
    idx = [i for i, e in enumerate(events) if e is not None]
    for bi in ctx.tlc_trace("misc", "Deflate_Trace", [events[i] for i in idx]):
        i = idx[bi]
        e = events[i]
        small = dict(e, streams=[dict(s, chunks="(%d lists)" % len(s["chunks"])) for s in e["streams"]])
        ctx.violation({"kind": "trace", "case": strip(cases[i]), "classes": hints(e), "event": small,
                       "what": "run rejected by Deflate_Trace"})
    audit(ctx, cases, events, 25 if not ctx.thorough else 200)
    big = 0
    for c, e in zip(cases, events):
        if e is None:
            continue
        flat = [n for s in c["streams"] for n in s]
        if len([n for n in flat if n > 0]) >= 2 or any(n >= B for n in flat) or 0 in flat:
            ctx.nontrivial((c["datakind"], c["off"], json.dumps(c["streams"])))
        big = max(big, c["len"])
    ctx.cov["largest_input_bytes"] = big
    ctx.cov["bytes_through_writer"] = sum(c["len"] for c in cases)
    mid = cases[len(gen) // 2]
    ctx.sample({"streams": mid["streams"], "kind": mid["kind"], "datakind": mid["datakind"], "len": mid["len"],
                "event_hash": events[len(gen) // 2]["hash"] if events[len(gen) // 2] else None})
    last = cases[-1]
    ctx.sample({"streams_head": [s[:8] for s in last["streams"]], "writes": sum(len(s) for s in last["streams"]), "len": last["len"],
                "datakind": last["datakind"]})
    ctx.cov["rule"] = ("Model: every chunking of N abstract bytes x every contract-abiding compressor (TLC, exhaustive). A: every sequence of <= 4 "
                       "write sizes over %s (x seeded data kind/offset/object kind/stream split/reader chunkings). B: %d seeded runs, data up to "
                       "5 MiB, write-size styles around/tiny/big/mixed/one. Non-trivial = the run has >= 2 non-empty writes, an empty write or a "
                       "write >= 32768 bytes; distinct by (data kind, offset, size sequence)."
                       % ("{0,1,32767,32768,32769,2,65535,65536,65537,100000}" if ctx.thorough else "{0,1,32767,32768,32769}", nrand))
    ctx.assumptions += ["Python zlib (inflate) and hashlib (SHA-1) are the trusted evaluators of the uninterpreted functions",
                        "equal SHA-1 digests are taken as equal byte strings",
                        "the flate2 backend honours zlib's deflate() contract as stated in Deflate.tla (the compressor itself is not verified)",
                        "write_inner's iterations are not observable without a hook: the real writer is judged on return values, sink chunks and the finished stream"]


def replay(ctx, rec):
    binary = ctx.build("vh-c56")
    c = dict(rec["case"])
    paths = make_data(ctx, c.get("seed", ctx.seed))
    c["data"] = paths[c["datakind"]]
    events, crashes = execute(ctx, binary, [c])
    if crashes:
        ctx.violation(dict(rec, result=crashes[0]["result"]))
        return
    e = events[0]
    rets = [x for s in e["streams"] for x in s["rets"]]
    if ctx.tlc_trace("misc", "Deflate_Trace", [e]) or ("expect_rets" in c and rets != c["expect_rets"]):
        ctx.violation(dict(rec, classes=hints(e)))
