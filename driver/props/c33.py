"""C33 - URLs serialize to strings that parse back to the same URL.

spec/proto/Url.tla: the three forms of a git URL (URL form, scp-like, local path; file URLs apart),
Classify for every byte string, Parse for the plain sub-language (InDomain: nothing the WHATWG parser
behind gix-url would normalise), Write for every abstract URL (alternative forms: path only / host:path),
and the statement Parse(Write(Parse(s))) = Parse(s), TLC-checked together with closure of the plain
language under parse-then-write.
 A: Url_Gen builds strings grammar-wise ([scheme://][userinfo@][host][:port][:][path]) and prints form,
    indomain, Parse and Write; replayed through gix_url::parse / Url::to_bstring.
 B: for EVERY string (generated and seeded random, in or out of the plain language) that gitoxide parses,
    Url_Trace judges to_bstring = Write(parsed fields) and parse(to_bstring) = parsed URL; for in-domain
    strings also parse = Parse.
 C: `git fetch-pack --diag-url` audits Classify/Parse (protocol, user@host, port, path) on the comparable
    part of the plain language.
"""
import concurrent.futures
from vf import *

LEVEL = "exploration"
META = {
    "technique": "TLA+ specification of git URL forms (classification, Parse on a plain sub-language, Write) with the round-trip law model-checked by TLC; TLC-generated and random URL strings replayed through gix_url::parse/to_bstring/parse; every observed serialisation judged against Write by a TLC trace module; audit against git fetch-pack --diag-url",
    "note": "Parse is specified only for the plain sub-language (no character the WHATWG URL parser normalises); outside it the spec contributes Write and the equality of the re-parsed URL, the URL fields themselves come from the implementation. Windows drive-letter rules, Url::canonicalize, from_parts are not covered.",
}
PIECES = [b"ssh://", b"git://", b"https://", b"http://", b"file://", b"ext://", b"ssh+git://", b"FILE://", b"://", b"u@", b"u:pw@", b"-u@",
          b"@", b":", b"h", b"a.b", b"H", b"-ox", b"127.0.0.1", b"[::1]", b"[::1", b":22", b":80", b":443", b":0", b":65536", b":x",
          b"/", b"/p", b"p", b"~/p", b"/~/p", b"./r", b"../u", b"/a:b", b"%20", b"%2e", b"%", b" ", b"\t", b"\n", b"?q", b"#f",
          b"C:/x", b"C:\\x", b"\\", b"//", b"/-p", "é".encode(), b"\xff", b"..", b".", b"xn--a", b"1.2", b"0x7f.1"]


def event(c, g):
    return {"ev": "rt", "input": c["input"], "ok": g["ok"], "url": g["url"], "written": g["written"], "back_ok": g["back_ok"],
            "back_equal": g["back_equal"], "back": g["back"], "git": {"protocol": "", "userhost": [], "port": [], "path": []}}


def audit(ctx, cases):
    """binding C: git's own URL splitter on the comparable part of the plain language (TLC decides what is comparable)"""
    cwd = os.path.join(ctx.work, "empty")
    os.makedirs(cwd, exist_ok=True)

    def one(c):
        s = l2b(c["input"])
        if not s or b"\0" in s or s.startswith(b"-"):
            return None
        p = git(["fetch-pack", "--diag-url", s], cwd=cwd)
        f = {}
        for line in p.stdout.split(b"\n"):
            if line.startswith(b"Diag: ") and b"=" in line:
                k, v = line[6:].split(b"=", 1)
                f[k.decode()] = v
        if "protocol" not in f:
            return None
        uh = f.get("userandhost", f.get("hostandport", b""))
        port = f.get("port", b"NONE")
        return {"ev": "git", "input": c["input"], "ok": False, "url": c["url"], "written": [], "back_ok": False, "back_equal": False,
                "back": c["url"], "git": {"protocol": f["protocol"].decode(), "userhost": b2l(uh),
                                          "port": [] if port == b"NONE" else b2l(port), "path": b2l(f.get("path", b""))}}
    with concurrent.futures.ThreadPoolExecutor(16) as ex:
        events = [e for e in ex.map(one, cases) if e]
    if len(events) < 100:
        raise ToolError("git audit is nearly vacuous: %d comparable strings answered by git" % len(events))
    rej = ctx.tlc_trace("proto", "Url_Trace", events)
    if rej:
        audit_mismatch(ctx, "Url", {"n_rejected": len(rej), "first": [
            {"input": show_bytes(events[i]["input"]), "git": {k: (show_bytes(v) if isinstance(v, list) else v) for k, v in events[i]["git"].items()}}
            for i in rej[:: max(1, len(rej) // 8)][:8]]})
    ctx.cov["git_audited"] = len(events)
    ctx.log("audit: git fetch-pack --diag-url agreed with the specification on %d comparable strings" % len(events))


def run(ctx):
    binary = ctx.build("vh-c33")
    cases = ctx.tlc_gen("proto", "Url_Gen", consts={"Wide": "TRUE" if ctx.thorough else "FALSE"}, timeout=3000)
    seen, gen = set(), []
    for c in cases:
        k = bytes(c["input"])
        if k not in seen:
            seen.add(k)
            gen.append(c)
    ctx.cov["exhaustive"] = True
    n = 4000 if not ctx.thorough else 40000
    rnd = []
    for _ in range(n):
        s = b"".join(ctx.rng.choice(PIECES) for _ in range(ctx.rng.randint(1, 7)))
        rnd.append({"input": b2l(s)})
    allc = gen + rnd
    results = ctx.harness(binary, allc)
    events, owner = [], []
    stats = {"parsed": 0, "indomain": 0, "indomain_parsed": 0}
    for i, (c, r) in enumerate(zip(allc, results)):
        if "got" not in r:
            ctx.violation({"kind": "crash", "case": {"input": c["input"]}, "input_text": show_bytes(c["input"]), "classes": ["crash"], "result": r})
            continue
        g = r["got"]
        events.append(event(c, g))
        owner.append(i)
        if g["ok"]:
            stats["parsed"] += 1
            if g["written"] != c["input"] or not g["url"]["alt"]:
                ctx.nontrivial(bytes(c["input"]))
        if c.get("indomain"):
            stats["indomain"] += 1
            stats["indomain_parsed"] += 1 if g["ok"] else 0
            # binding A: direct comparison with the line printed by Url_Gen
            bad = []
            if g["ok"] != c["ok"]:
                bad.append("parse ok=%s (%s), specification ok=%s (%s)" % (g["ok"], g["err"], c["ok"], c["err"]))
            elif g["ok"]:
                if g["url"] != c["url"]:
                    bad.append("parsed fields differ: %s" % [k for k in c["url"] if g["url"][k] != c["url"][k]])
                if g["written"] != c["write"]:
                    bad.append("to_bstring %r, Write %r" % (show_bytes(g["written"]), show_bytes(c["write"])))
            if bad:
                ctx.violation({"kind": "gen", "case": {"input": c["input"]}, "input_text": show_bytes(c["input"]), "classes": ["parse"],
                               "mismatch": bad, "spec": {k: c[k] for k in ("form", "ok", "err", "url", "write")}, "result": g})
    for bi in ctx.tlc_trace("proto", "Url_Trace", events, timeout=3000):
        c, g = allc[owner[bi]], results[owner[bi]]["got"]
        what = []
        if g["ok"] and not g["back_ok"]:
            what.append("serialisation does not parse: " + g.get("back_err", ""))
        elif g["ok"] and (g["back"] != g["url"] or not g["back_equal"]):
            what.append("re-parsed URL differs in %s" % [k for k in g["url"] if g["back"][k] != g["url"][k]])
        ctx.violation({"kind": "trace", "case": {"input": c["input"]}, "input_text": show_bytes(c["input"]),
                       "classes": ["roundtrip"] if what else ["write-or-parse"], "mismatch": what or ["event rejected by Url_Trace.JudgeRt"],
                       "written_text": show_bytes(g["written"]), "result": g})
    ctx.cov.update(stats)
    mid = gen[len(gen) // 2]
    ctx.sample({"input": show_bytes(mid["input"]), "form": mid["form"], "indomain": mid["indomain"], "spec_write": show_bytes(mid["write"])})
    audit(ctx, [c for c in gen if c["gitcmp"]][: 1500 if not ctx.thorough else 8000])
    ctx.cov["rule"] = ("A: Url_Gen - all strings [scheme://][userinfo@][host][:port][:][path] over the %s option sets (exhaustive product); "
                       "B: %d seeded random concatenations of 55 pieces. Judged: every parsed string (Write, round trip), in-domain strings also "
                       "field by field. Non-trivial = a parsed string whose serialisation differs from the input or that is not an alternative "
                       "form; distinct by input bytes." % ("wide" if ctx.thorough else "quick", n))
    ctx.assumptions += ["Parse is claimed only for the plain sub-language (Url.InDomain); elsewhere the parsed fields are taken from the implementation and judged through Write and re-parsing",
                        "Unix rules (no drive letters, no UNC paths)"]


def replay(ctx, rec):
    binary = ctx.build("vh-c33")
    c = rec["case"]
    r = ctx.harness(binary, [c])[0]
    if "got" not in r:
        ctx.violation(dict(rec, result=r))
        return
    if ctx.tlc_trace("proto", "Url_Trace", [event(c, r["got"])]):
        ctx.violation(dict(rec, result=r["got"]))
