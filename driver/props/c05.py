"""C05 - Object ids, hex forms and prefixes are consistent.

spec/object/HexPrefix.tla defines ids and prefixes over nibble sequences: ToHex, IdFromHex, PrefixNew,
PrefixFromHex (with the reasons for refusal), CmpOid, Display, AsOid, and the laws of the property
(equal <=> the n digits agree; compatibility with the id order; hex round trip; same prefix whether cut
from an id or parsed from text).
 A: HexPrefix_Gen enumerates (i) every prefix length (legal and refused) x nibble values {0,7,8,f} at the
    positions n-1, n, n+1 x three fillers, with candidate ids differing at exactly one of those positions
    and the digits as lower/UPPER text, (ii) hex texts with boundary characters spliced into fillers of
    boundary lengths; it prints the spec's expected observations; the laws are invariants of that run.
    Replayed through gix_hash::{Prefix::new, Prefix::from_hex, Prefix::cmp_oid, Display, as_oid, hex_len,
    ObjectId::from_hex, to_hex, to_hex_with_len, write_hex_to}.
 B: seeded random ids/lengths/candidates/texts; the observations are judged by HexPrefix_Trace.
No git audit: the property is not a "like git" rule.
"""
from vf import *

LEVEL = "exploration"
META = {
    "technique": "TLA+ definition of ids/prefixes over nibble sequences; TLC enumerates boundary cases with expected observations (and checks the laws on them); real gix-hash replays them; random observations judged by a TLC trace module",
    "note": "SHA-1 ids only (the only kind gix-hash has at this commit). Refusals are judged as refusals; the named reason must be one that applies.",
}

PFIELDS = ("ok", "hex_len", "display", "as_oid", "cmps")


def inputs_of(c):
    return {"id": c["id"], "n": c["n"], "cands": c["cands"], "texts": c["texts"]}


def diff_p(what, exp, got):
    bad = []
    for f in PFIELDS:
        if exp[f] != got[f]:
            bad.append("%s.%s: spec %s, gitoxide %s" % (what, f, json.dumps(exp[f]), json.dumps(got[f])))
    if not exp["ok"] and not got["ok"] and got["err"] not in exp["errs"]:
        bad.append("%s.err: gitoxide names %s, applicable %s" % (what, got["err"], exp["errs"]))
    return bad


def judge_gen(c, r):
    """binding A: the observation must equal what HexPrefix_Gen printed"""
    if "got" not in r:
        return ["crash: %s" % json.dumps(r)[:200]]
    g = r["got"]
    bad = []
    if g["hex"] != c["hex"]:
        bad.append("hex: spec %s, gitoxide %s" % (show_bytes(c["hex"]), show_bytes(g["hex"])))
    if g["hex_display"] != c["hex"]:
        bad.append("Display(ObjectId): spec %s, gitoxide %s" % (show_bytes(c["hex"]), show_bytes(g["hex_display"])))
    bad += diff_p("Prefix::new", c["new"], g["new"])
    for k, (e, o) in enumerate(zip(c["fromtext"], g["fromtext"])):
        if not o["utf8"]:
            raise ToolError("generated text is not UTF-8: %r" % c["texts"][k])
        bad += diff_p("Prefix::from_hex(%r)" % show_bytes(c["texts"][k]), e["p"], o["p"])
        if e["id"] != o["id"]:
            bad.append("ObjectId::from_hex(%r): spec %s, gitoxide %s" % (show_bytes(c["texts"][k]), e["id"], o["id"]))
    return bad


def classes(bad):
    return sorted({b.split(":")[0].split("(")[0] for b in bad})


def event_of(inp, got):
    ev = dict(inp)
    ev.update(got)
    return ev


def random_inputs(rng):
    kind = rng.random()
    if kind < 0.1:
        idn = [rng.choice([0, 15])] * 40
    elif kind < 0.2:
        idn = [rng.choice([0, 7, 8, 15]) for _ in range(40)]
    else:
        idn = [rng.randrange(16) for _ in range(40)]
    r = rng.random()
    n = rng.randint(4, 40) if r < 0.85 else (rng.randint(0, 3) if r < 0.92 else rng.randint(41, 90))
    cands = [list(idn)]
    for _ in range(rng.randint(1, 5)):
        c = list(idn)
        how = rng.random()
        if how < 0.5:
            q = min(39, max(0, n - 1 + rng.choice([-1, 0, 1]) - 0))
            c[q] = (c[q] + rng.choice([1, 15, 8])) % 16
        elif how < 0.8:
            k = rng.randint(0, 40)
            c = c[:k] + [rng.randrange(16) for _ in range(40 - k)]
        else:
            c = [rng.randrange(16) for _ in range(40)]
        cands.append(c)
    hexd = "0123456789abcdef"
    texts = []
    m = min(n, 40)
    t = "".join(hexd[x] for x in idn[:m])
    texts.append("".join(ch.upper() if rng.random() < 0.5 else ch for ch in t).encode())
    L = rng.choice([0, 1, 3, 4, 5, 39, 40, 41, rng.randint(0, 44)])
    t2 = bytearray(rng.choice(b"0123456789abcdefABCDEF") for _ in range(L))
    if L and rng.random() < 0.4:
        t2[rng.randrange(L)] = rng.choice([0x2f, 0x3a, 0x40, 0x47, 0x60, 0x67, 0x20, 0x00, 0x80, 0xff, 0x78, 0x0a])
    texts.append(bytes(t2))
    return {"id": idn, "n": n, "cands": cands, "texts": [b2l(x) for x in texts]}


def report(ctx, kind, inp, bad, extra=None):
    rec = {"kind": kind, "case": inp, "mismatch": bad, "classes": classes(bad), "id_hex": "".join("%x" % x for x in inp["id"]),
           "texts": [show_bytes(t) for t in inp["texts"]]}
    if extra:
        rec.update(extra)
    ctx.violation(rec)


def run(ctx):
    binary = ctx.build("vh-c05")
    consts = {"MaxToks": 3, "AllLens": "TRUE"} if ctx.thorough else {"MaxToks": 2, "AllLens": "FALSE"}
    cases = ctx.tlc_gen("object", "HexPrefix_Gen", consts=consts, timeout=3000)
    cases.sort(key=lambda c: json.dumps(c, sort_keys=True))      # TLC workers print in any order
    ctx.cov["exhaustive"] = True
    results = ctx.harness(binary, [inputs_of(c) for c in cases], timeout=1200)
    for c, r in zip(cases, results):
        bad = judge_gen(c, r)
        if bad:
            report(ctx, "gen", inputs_of(c), bad, {"expected": {k: c[k] for k in ("hex", "new", "fromtext")}, "result": r})
        e = c["new"]
        odd_eq = e["ok"] and c["n"] % 2 == 1 and any(x == 0 for x in e["cmps"][1:])
        refused = (not e["ok"]) or any(not t["p"]["ok"] for t in c["fromtext"])
        if odd_eq or refused:
            ctx.nontrivial(json.dumps([c["id"], c["n"], c["texts"]]))
    k = len(cases) // 3
    ctx.sample({"id": "".join("%x" % x for x in cases[k]["id"]), "n": cases[k]["n"],
                "texts": [show_bytes(t) for t in cases[k]["texts"]],
                "spec_new": {"ok": cases[k]["new"]["ok"], "display": show_bytes(cases[k]["new"]["display"]), "cmps": cases[k]["new"]["cmps"]}})

    # binding B: random
    nrand = 60000 if ctx.thorough else 4000
    rnd = [random_inputs(ctx.rng) for _ in range(nrand)]
    res = ctx.harness(binary, rnd, timeout=1200)
    events, owner = [], []
    for i, (inp, r) in enumerate(zip(rnd, res)):
        if "got" not in r:
            report(ctx, "random", inp, ["crash: %s" % json.dumps(r)[:200]], {"result": r})
            continue
        events.append(event_of(inp, r["got"]))
        owner.append(i)
        g = r["got"]
        if (g["new"]["ok"] and inp["n"] % 2 == 1 and any(x == 0 for x in g["new"]["cmps"][1:])) or not g["new"]["ok"] \
                or any(not t["p"]["ok"] for t in g["fromtext"]):
            ctx.nontrivial(json.dumps([inp["id"], inp["n"], inp["texts"]]))
    chunk = 20000
    for s in range(0, len(events), chunk):
        for bi in ctx.tlc_trace("object", "HexPrefix_Trace", events[s:s + chunk], timeout=3000):
            ev = events[s + bi]
            report(ctx, "trace", rnd[owner[s + bi]], ["event rejected by HexPrefix_Trace"], {"event": ev})
    ctx.sample({"random": {"id": "".join("%x" % x for x in events[0]["id"]), "n": events[0]["n"], "new_ok": events[0]["new"]["ok"],
                           "display": show_bytes(events[0]["new"]["display"]), "cmps": events[0]["new"]["cmps"]}})
    ctx.cov["rule"] = ("A: HexPrefix_Gen, exhaustive over prefix lengths %s x 4^3 nibble values around the cut x 3 fillers, and hex texts "
                       "with <= %s boundary tokens at 3 places in fillers of 13 boundary lengths. B: %d seeded random (id, n, candidates, texts). "
                       "Non-trivial = an accepted odd-length prefix for which a candidate other than the id itself compares equal "
                       "(the half-byte mask decides), or a refused call; distinct by (id, n, texts)."
                       % ("4..40 + 7 refused" if ctx.thorough else "14 legal + 7 refused", consts["MaxToks"], nrand))
    ctx.assumptions += ["ids are SHA-1 (20 bytes); raw bytes <-> nibble pairs is done by the executor",
                        "texts that are not UTF-8 cannot be passed to Prefix::from_hex(&str) and are judged for ObjectId::from_hex only"]


def replay(ctx, rec):
    binary = ctx.build("vh-c05")
    inp = rec["case"]
    r = ctx.harness(binary, [inp])[0]
    if "got" not in r:
        ctx.violation(dict(rec, result=r))
        return
    ev = event_of(inp, r["got"])
    if ctx.tlc_trace("object", "HexPrefix_Trace", [ev]):
        ctx.violation(dict(rec, event=ev))
