"""C23 - Registered tempfiles are removed when the process is told to terminate.

spec/lock/Tempfile.tla: tempfile slots (absent/open/closed/persisted/dropped), the registry, calls as
Begin/End pairs and a Signal action that may fire anywhere; TLC proves CleanAfterSignal and
PersistedStay for the intended design (Windows = FALSE) and shows that the design of the pinned
commit (Windows = TRUE: an entry is outside the registry while a call works on it) violates
CleanAfterSignal but still satisfies OnlyInflightStays.
 A: Tempfile_Gen enumerates every valid script of calls (create/write/close/persist/drop over two
    slots) with the directory the model predicts when the signal arrives between two calls; a real
    worker process (gix_tempfile with the `signals` feature, handler installed) is signalled
    (a) at every call boundary - the directory must equal the model's prediction exactly - and
    (b) right before every libc file-system call inside the calls (LD_PRELOAD shim) - persisted files
    must be there, and no tempfile may remain.  SIGTERM, and in the thorough tier SIGINT/SIGHUP/SIGQUIT;
    scripts with a forked child that is signalled must leave the parent's files alone.
"""
from vf import *
import refstore as rs

LEVEL = "fault_enumeration"
META = {
    "technique": "TLA+ model of the tempfile registry with a signal action checked by TLC; TLC-enumerated call scripts run in a real process that is signalled at every call boundary and before every libc file-system call",
    "note": "Signals are delivered to the worker by itself (raise at boundaries; kill(getpid()) from the preloaded shim inside calls), single-threaded; SIGKILL cannot be handled and is outside the property. Trusted: the shim sees every file-system call of the worker.",
}
SIGS = {"SIGTERM": 15, "SIGINT": 2, "SIGHUP": 1, "SIGQUIT": 3}


def names(snap):
    return sorted("%s%d" % (n[0], n[1]) for n in snap)


def run(ctx):
    binary = ctx.build("vh-c23")
    env = {"VERIF_C16_SHIM": rs.template(ctx)["VERIF_C16_SHIM"]}
    ctx.tlc_mc("lock", "Tempfile", must_cover=["Begin", "End", "Signal"])
    ctx.tlc_mc("lock", "Tempfile", consts={"Windows": "TRUE"}, expect_violation="CleanAfterSignal", coverage=False)
    cfg_only = ctx.cfg("lock", "Tempfile.cfg", {"Windows": "TRUE"}).replace("  CleanAfterSignal\n", "")
    r = ctx._tlc("lock", "Tempfile", cfg_only, 4, 600)
    if r.violated or r.error:
        raise ToolError("Tempfile with Windows=TRUE should keep PersistedStay/OnlyInflightStays: %s %s" % (r.violated, r.error))
    scripts = ctx.tlc_gen("lock", "Tempfile_Gen", consts={"MaxOps": 5 if not ctx.thorough else 6})
    scripts.sort(key=lambda c: json.dumps(c, sort_keys=True))
    sigs = ["SIGTERM"] if not ctx.thorough else list(SIGS)
    boundary, incall = [], []
    pick = scripts if ctx.thorough else ctx.rng.sample(scripts, 150)
    for i, s in enumerate(pick):
        sig = sigs[i % len(sigs)]
        boundary.append({"script": s["script"], "after_signal": s["after_signal"], "mode": "boundary", "signal": SIGS[sig]})
    for i, s in enumerate(pick if ctx.thorough else pick[:60]):
        sig = sigs[i % len(sigs)]
        sc = list(s["script"])
        if i % 3 == 0:
            sc.insert(ctx.rng.randint(1, len(sc)), {"op": "forkchild", "t": 0})
        incall.append({"script": sc, "mode": "incall", "signal": SIGS[sig]})
    res = ctx.harness(binary, boundary, env=env, timeout=3000)
    for c, r in zip(boundary, res):
        if "got" not in r:
            ctx.violation({"kind": "harness", "case": c, "what": "executor failed: %s" % json.dumps(r)[:200]})
            continue
        for run_ in r["got"]["runs"]:
            k = run_["k"]
            ctx.nontrivial(json.dumps([c["script"], "b", k, c["signal"]]))
            want = names(c["after_signal"][k])
            if run_["exit_signal"] != c["signal"] and k <= len(c["script"]):
                ctx.violation({"kind": "boundary", "case": c, "k": k, "what": "worker did not terminate by the signal: %s" % json.dumps(run_)[:300]})
            elif run_["listing"] != want:
                ctx.violation({"kind": "boundary", "case": c, "k": k, "listing": run_["listing"], "want": want,
                               "what": "after the signal between call %d and %d the directory holds %s, model: %s" % (k, k + 1, run_["listing"], want)})
    res = ctx.harness(binary, incall, env=env, timeout=3000)
    points = 0
    for c, r in zip(incall, res):
        if "got" not in r or not r["got"]["dry_ok"]:
            ctx.violation({"kind": "harness", "case": c, "what": "executor failed: %s" % json.dumps(r)[:300]})
            continue
        for run_ in r["got"]["runs"]:
            points += 1
            ctx.nontrivial(json.dumps([c["script"], "i", run_["n"], c["signal"]]))
            # model state after the completed calls; the call in flight may or may not have had its effect on persisted files
            done = run_["done"]
            persisted = {"out%d" % s["t"] for s in c["script"][:done] if s["op"] == "persist"}
            fl = run_["inflight"]
            maybe = set()
            inflight_slot = None
            if fl is not None:
                inflight_slot = c["script"][fl]["t"]
                if c["script"][fl]["op"] == "persist":
                    maybe = {"out%d" % inflight_slot}
            got = set(run_["listing"])
            missing = persisted - got
            extra = got - persisted - maybe
            if missing:
                ctx.violation({"kind": "incall", "case": c, "n": run_["n"], "what": "persisted file(s) %s are gone" % sorted(missing), "run": run_})
            if extra:
                only_inflight = extra == {"tmp%d" % inflight_slot} if inflight_slot else False
                ctx.violation({"kind": "incall-leftover", "case": c, "n": run_["n"], "inflight_op": c["script"][fl]["op"] if fl is not None else None,
                               "only_inflight": only_inflight, "leftover": sorted(extra),
                               "what": "tempfile(s) %s left behind by a signal inside call %s" % (sorted(extra), c["script"][fl] if fl is not None else None), "run": run_})
    ctx.cov["incall_signal_points"] = points
    ctx.sample({"script": boundary[0]["script"], "after_signal_between_calls": [names(s) for s in boundary[0]["after_signal"]]})
    ctx.cov["rule"] = ("Scripts: %s of the %d valid scripts of %d calls over 2 slots enumerated by TLC; each x every call boundary (exact model "
                       "prediction) and, for a subset, x every libc file-system call inside the calls. evaluations = scripts run; "
                       "non-trivial/distinct = each (script, signal position, signal) executed." % ("all" if ctx.thorough else "a seeded sample of 150", len(scripts), 5 if not ctx.thorough else 6))
    ctx.assumptions += ["single-threaded worker; the signal is delivered synchronously at the chosen point"]


def replay(ctx, rec):
    binary = ctx.build("vh-c23")
    env = {"VERIF_C16_SHIM": rs.template(ctx)["VERIF_C16_SHIM"]}
    c = rec["case"]
    r = ctx.harness(binary, [c], env=env)[0]
    for run_ in r.get("got", {}).get("runs", []):
        if c["mode"] == "boundary" and run_["listing"] != names(c["after_signal"][run_["k"]]):
            ctx.violation(dict(rec, listing=run_["listing"]))
            return
        if c["mode"] == "incall" and run_.get("n") == rec.get("n"):
            if any(x.startswith("tmp") for x in run_["listing"]):
                ctx.violation(dict(rec, run=run_))
            return
